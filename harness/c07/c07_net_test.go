//go:build verif

package isaac

import (
	"context"
	"fmt"
	"net"
	"sort"
	"strings"
	"sync"
	"sync/atomic"
	"testing"
	"time"

	"github.com/pkg/errors"
	"github.com/spikeekips/mitum/base"
	"github.com/spikeekips/mitum/network/quicstream"
	"github.com/spikeekips/mitum/util"
	"github.com/spikeekips/mitum/util/valuehash"
	"github.com/spikeekips/mitum/zzverif/vlib"
)

// C07, second unit: the function a node really calls.
//
// BaseProposalSelector.Select (selectInternal, selectFromProposer, proposalFromNode,
// proposalFromOthers, findProposal, findProposalFromProposer) and the request side
// ConcurrentRequestProposal + isExpectedValidProposal run unchanged, wired like
// launch/p_proposal.go wires them (RequestFunc = ConcurrentRequestProposal over the
// conn infos of the other nodes, under the request timeout), on top of an in-memory
// network: every node has its own proposal pool and its own ProposalMaker, and a
// request to a node is answered the way QuicstreamHandlerRequestProposal answers it
// (only the asked proposer itself answers, from its own maker).
//
// One case = one node calling Select once. A world = (suffrage size n, point,
// environment); in a world every correct node (each member that does not deviate, plus
// an observer that is not a member) runs Select with the suffrage handed to it in
// every listing order. Oracle, from the property: in one world all of them end with a
// proposal of the same proposer, that proposer is a member of the suffrage, and the
// proposal is for the asked point and previous block.
//
// Time. The selector runs on real tickers and context timeouts (its file cannot be
// compiled with the virtual clock of engine S, see the level note). No timeout is an
// oracle: the only timeout that is meant to fire is the proposer wait / request
// timeout against a member that the environment made silent, and it fires in every
// run of that world; every answer of the fake network takes well under a millisecond
// while the shortest timeout is 300 ms. All cases first run with short timeouts
// (proposer wait 800 ms); a case that then looks wrong is a suspect only and is run
// again, together with the first case of its world, with the default timeouts
// (proposer wait 4 s, request timeout 3 s); only what is still wrong there is
// reported. A replay uses the default timeouts.

var (
	c07nNetworkID = base.NetworkID([]byte("c07-network-id"))
	c07nHeight    = int64(33)
	c07nKinds     = []string{"refuse", "hang", "wrongpoint", "wrongproposer"}
)

type c07nTiming struct {
	name       string
	pwait      time.Duration // MinProposerWait
	reqTimeout time.Duration // TimeoutRequest
	interval   time.Duration // RequestProposalInterval
}

var (
	c07nFast     = c07nTiming{"short", 800 * time.Millisecond, 300 * time.Millisecond, 150 * time.Millisecond}
	c07nGenerous = c07nTiming{"default", DefaultTimeoutRequest + time.Second, DefaultTimeoutRequest, 666 * time.Millisecond}
)

type c07nIdentity struct {
	local base.LocalNode
	node  base.Node // what the suffrage database hands out (no private key)
	ci    quicstream.ConnInfo
}

// c07nIdentities: the fixed suffrage candidates of unit 1 (same names, same seeds) plus
// an observer (never a member) and an accomplice (never a member, only used by the
// "wrongproposer" environment).
func c07nIdentities(t *testing.T) (members []c07nIdentity, observer, accomplice c07nIdentity) {
	mk := func(i int, name string) c07nIdentity {
		priv, err := base.NewMPrivatekeyFromSeed(fmt.Sprintf("c07-fixed-seed-for-node-key-%02d-%s", i, strings.Repeat("x", 40)))
		if err != nil {
			t.Fatal(err)
		}

		addr := base.NewStringAddress(name)

		return c07nIdentity{
			local: base.NewBaseLocalNode(base.DummyNodeHint, priv, addr),
			node:  base.NewBaseNode(base.DummyNodeHint, priv.Publickey(), addr),
			ci:    quicstream.UnsafeConnInfo(&net.UDPAddr{IP: net.IPv4(127, 0, 0, 1), Port: 4000 + i}, true),
		}
	}

	for i, name := range c07Names {
		members = append(members, mk(i, name))
	}

	return members, mk(50, "observer-not-in-suffrage"), mk(51, "accomplice-not-in-suffrage")
}

// in-memory ProposalPool (first writer wins, like the real pool)
type c07nPool struct {
	sync.Mutex
	byhash  map[string]base.ProposalSignFact
	bypoint map[string]string
}

func newC07nPool() *c07nPool {
	return &c07nPool{byhash: map[string]base.ProposalSignFact{}, bypoint: map[string]string{}}
}

func (*c07nPool) key(point base.Point, proposer base.Address, prev util.Hash) string {
	return fmt.Sprintf("%d-%d-%s-%s", point.Height(), point.Round(), proposer.String(), prev.String())
}

func (p *c07nPool) Proposal(h util.Hash) (base.ProposalSignFact, bool, error) {
	p.Lock()
	defer p.Unlock()

	pr, found := p.byhash[h.String()]

	return pr, found, nil
}

func (*c07nPool) ProposalBytes(util.Hash) (string, []byte, []byte, bool, error) {
	return "", nil, nil, false, util.ErrNotImplemented.Errorf("ProposalBytes")
}

func (p *c07nPool) ProposalByPoint(point base.Point, proposer base.Address, prev util.Hash) (base.ProposalSignFact, bool, error) {
	p.Lock()
	defer p.Unlock()

	h, found := p.bypoint[p.key(point, proposer, prev)]
	if !found {
		return nil, false, nil
	}

	pr, found := p.byhash[h]

	return pr, found, nil
}

func (p *c07nPool) SetProposal(pr base.ProposalSignFact) (bool, error) {
	p.Lock()
	defer p.Unlock()

	h := pr.Fact().Hash().String()
	if _, found := p.byhash[h]; found {
		return false, nil
	}

	p.byhash[h] = pr
	p.bypoint[p.key(pr.Point(), pr.ProposalFact().Proposer(), pr.ProposalFact().PreviousBlock())] = h

	return true, nil
}

type c07nHost struct {
	c07nIdentity
	pool  *c07nPool
	maker *ProposalMaker
}

// c07nNet is the fake network of one case.
type c07nNet struct {
	hosts      []*c07nHost // members[0..n-1], observer, accomplice
	byci       map[string]*c07nHost
	deviating  *c07nHost // nil = everybody answers correctly
	kind       string
	accomplice *c07nHost
	requests   int64
	devAsked   int64 // requests that reached the deviating node for its own proposal
}

func newC07nNet(ids []c07nIdentity) *c07nNet {
	nt := &c07nNet{byci: map[string]*c07nHost{}}

	for i := range ids {
		pool := newC07nPool()
		h := &c07nHost{c07nIdentity: ids[i], pool: pool, maker: NewProposalMaker(ids[i].local, c07nNetworkID, nil, pool, nil)}
		nt.hosts = append(nt.hosts, h)
		nt.byci[ids[i].ci.String()] = h
	}

	return nt
}

// c07nClient is the NetworkClient of the asking node; only RequestProposal is used by
// ConcurrentRequestProposal (any other method panics on the nil embedded interface).
type c07nClient struct {
	NetworkClient
	net *c07nNet
}

func (c *c07nClient) RequestProposal(
	ctx context.Context, ci quicstream.ConnInfo, point base.Point, proposer base.Address, prev util.Hash,
) (base.ProposalSignFact, bool, error) {
	nt := c.net
	atomic.AddInt64(&nt.requests, 1)

	h := nt.byci[ci.String()]
	if h == nil {
		return nil, false, errors.Errorf("unknown conn info, %q", ci)
	}

	if h == nt.deviating {
		if proposer.Equal(h.local.Address()) {
			atomic.AddInt64(&nt.devAsked, 1)
		}

		switch nt.kind {
		case "refuse":
			return nil, false, errors.Errorf("connection refused, %q", ci)
		case "hang":
			<-ctx.Done() // no answer until the caller gives up

			return nil, false, errors.WithStack(ctx.Err())
		case "wrongpoint":
			// a correctly signed proposal of this node, but for the next round
			pr, err := h.maker.Make(ctx, point.NextRound(), prev)

			return pr, err == nil, err
		case "wrongproposer":
			// a correctly signed proposal for the asked point, but made by a node
			// that is not in the suffrage
			pr, err := nt.accomplice.maker.Make(ctx, point, prev)

			return pr, err == nil, err
		}
	}

	// QuicstreamHandlerRequestProposal: only the asked proposer answers
	if !proposer.Equal(h.local.Address()) {
		return nil, false, nil
	}

	pr, err := h.maker.Make(ctx, point, prev)

	return pr, err == nil, err
}

type c07nWorld struct {
	n     int
	round uint64
	dev   int    // index (into the address-sorted suffrage) of the deviating member, -1 = none
	kind  string // c07nKinds
}

func (w c07nWorld) envKind() string {
	if w.dev < 0 {
		return "allanswer"
	}

	return w.kind
}

func (w c07nWorld) id() string {
	env := "allanswer"
	if w.dev >= 0 {
		env = fmt.Sprintf("%s@sorted[%d]", w.kind, w.dev)
	}

	return fmt.Sprintf("net/n=%d/r=%d/env=%s", w.n, w.round, env)
}

// candidateLeft: a correct member is left unless the only member of the suffrage deviates.
func (w c07nWorld) candidateLeft() bool { return !(w.n == 1 && w.dev >= 0) }

type c07nCase struct {
	w     c07nWorld
	order []int // listing order: indices into members[:n]
	local int   // index into members[:n], or n = the observer
}

func (c c07nCase) id() string {
	o := make([]string, len(c.order))
	for i := range c.order {
		o[i] = fmt.Sprintf("%d", c.order[i])
	}

	l := fmt.Sprintf("member%d", c.local)
	if c.local == c.w.n {
		l = "observer"
	}

	return fmt.Sprintf("%s/order=%s/local=%s", c.w.id(), strings.Join(o, ""), l)
}

// c07nObs is what one Select call showed.
type c07nObs struct {
	timing     string
	local      string
	err        string // "" = a proposal was returned
	panicked   string
	proposer   string
	point      base.Point
	prev       util.Hash
	devAsked   int64
	requests   int64
	tookMillis int64
}

type c07nFixture struct {
	members    []c07nIdentity
	observer   c07nIdentity
	accomplice c07nIdentity
	prev       util.Hash
}

// sortedIdx: member indices 0..n-1 ordered by address string (only used to name the
// deviating member and the outcome classes independently of any listing order).
func (f *c07nFixture) sortedIdx(n int) []int {
	idx := make([]int, n)
	for i := range idx {
		idx[i] = i
	}

	sort.Slice(idx, func(a, b int) bool {
		return f.members[idx[a]].node.Address().String() < f.members[idx[b]].node.Address().String()
	})

	return idx
}

func (f *c07nFixture) sortedNames(n int) []string {
	var out []string
	for _, i := range f.sortedIdx(n) {
		out = append(out, f.members[i].node.Address().String())
	}

	return out
}

func (f *c07nFixture) point(c c07nCase) base.Point { return base.RawPoint(c07nHeight, c.w.round) }

// run builds the fresh closed system of one case and lets the local node call Select.
func (f *c07nFixture) run(c c07nCase, tm c07nTiming) c07nObs {
	n := c.w.n
	ids := append([]c07nIdentity{}, f.members[:n]...)
	ids = append(ids, f.observer, f.accomplice)
	nt := newC07nNet(ids)
	nt.accomplice = nt.hosts[n+1]

	if c.w.dev >= 0 {
		nt.deviating = nt.hosts[f.sortedIdx(n)[c.w.dev]]
		nt.kind = c.w.kind
	}

	me := nt.hosts[c.local]
	point := f.point(c)

	listed := make([]base.Node, n)
	for i := range c.order {
		listed[i] = f.members[c.order[i]].node
	}

	args := NewBaseProposalSelectorArgs()
	args.Pool = me.pool
	args.Maker = me.maker
	args.ProposerSelectFunc = NewBlockBasedProposerSelector().Select
	args.MinProposerWait = tm.pwait
	args.RequestProposalInterval = tm.interval
	args.TimeoutRequest = func() time.Duration { return tm.reqTimeout }
	args.GetNodesFunc = func(base.Height) ([]base.Node, bool, error) {
		nodes := make([]base.Node, len(listed)) // the selector sorts what it is given
		copy(nodes, listed)

		return nodes, true, nil
	}

	client := &c07nClient{net: nt}

	var cis []quicstream.ConnInfo // launch: the alive members except local (+ the proposer)

	for i := range nt.hosts {
		if nt.hosts[i] != me {
			cis = append(cis, nt.hosts[i].ci)
		}
	}

	args.RequestFunc = func(
		ctx context.Context, point base.Point, proposer base.Node, prev util.Hash,
	) (base.ProposalSignFact, bool, error) {
		nctx, cancel := context.WithTimeout(ctx, tm.reqTimeout)
		defer cancel()

		return ConcurrentRequestProposal(nctx, point, proposer, prev, client, cis, c07nNetworkID)
	}

	sel := NewBaseProposalSelector(me.local, args)
	obs := c07nObs{timing: tm.name, local: me.local.Address().String()}
	started := time.Now()

	var pr base.ProposalSignFact
	var err error

	if panicked, msg := vlib.Catch(func() {
		pr, err = sel.Select(context.Background(), point, f.prev, tm.pwait/2)
	}); panicked {
		obs.panicked = msg
	}

	obs.tookMillis = time.Since(started).Milliseconds()
	obs.devAsked = atomic.LoadInt64(&nt.devAsked)
	obs.requests = atomic.LoadInt64(&nt.requests)

	switch {
	case obs.panicked != "":
	case err != nil:
		obs.err = fmt.Sprintf("%+v", err)
	case pr == nil:
		obs.err = "nil proposal without error"
	default:
		obs.proposer = pr.ProposalFact().Proposer().String()
		obs.point = pr.Point()
		obs.prev = pr.ProposalFact().PreviousBlock()
	}

	return obs
}

type c07nFail struct {
	sig    map[string]any
	detail string
}

// judge is the oracle for one case; expected is the proposer the first case of the
// world ended with ("" = this is the first case).
func (f *c07nFixture) judge(c c07nCase, obs c07nObs, expected string) *c07nFail {
	n := c.w.n
	cid := c.id()
	localIsMember := c.local < n

	sig := func(kind string) map[string]any {
		return map[string]any{
			"kind": kind, "unit": "net", "env": c.w.envKind(), "local_is_member": localIsMember,
			"single_node_suffrage": n == 1, "first_candidate_deviates": obs.devAsked > 0,
		}
	}

	if obs.panicked != "" {
		return &c07nFail{sig("net-panic"), fmt.Sprintf("%s: Select panicked: %s", cid, obs.panicked)}
	}

	if !c.w.candidateLeft() {
		// the only suffrage member does not answer correctly: nobody to agree on; recorded, not judged
		return nil
	}

	if obs.err != "" {
		return &c07nFail{sig("net-no-proposal"),
			fmt.Sprintf("%s [%s timeouts]: Select of node %q returned no proposal although a correct suffrage member answers: %s",
				cid, obs.timing, obs.local, obs.err)}
	}

	member := false

	for i := 0; i < n; i++ {
		if f.members[i].node.Address().String() == obs.proposer {
			member = true
		}
	}

	switch {
	case !member:
		return &c07nFail{sig("net-proposer-not-member"),
			fmt.Sprintf("%s [%s timeouts]: node %q (member=%v) ended with a proposal of %q, which is not in the suffrage %v (requests to the deviating member for its own proposal: %d)",
				cid, obs.timing, obs.local, localIsMember, obs.proposer, f.sortedNames(n), obs.devAsked)}
	case !obs.point.Equal(f.point(c)) || !obs.prev.Equal(f.prev):
		return &c07nFail{sig("net-proposal-not-for-stage-point"),
			fmt.Sprintf("%s [%s timeouts]: node %q asked for point %v, previous block %v; ended with a proposal of %q for point %v, previous block %v",
				cid, obs.timing, obs.local, f.point(c), f.prev, obs.proposer, obs.point, obs.prev)}
	case expected != "" && expected != obs.proposer:
		return &c07nFail{sig("net-nodes-disagree"),
			fmt.Sprintf("%s [%s timeouts]: node %q (member=%v) ended with the proposal of %q, but for the same point, previous block and suffrage "+
				"the first node of this world (listing order #0) ended with the proposal of %q (requests to the deviating member for its own proposal: %d)",
				cid, obs.timing, obs.local, localIsMember, obs.proposer, expected, obs.devAsked)}
	}

	return nil
}

func (f *c07nFixture) outcome(c c07nCase, obs c07nObs) string {
	n := c.w.n
	who := "member"

	if c.local == n {
		who = "observer"
	}

	switch {
	case obs.panicked != "":
		return "panic"
	case obs.err != "":
		return fmt.Sprintf("n=%d:%s:error", n, who)
	}

	pos := "outside-suffrage"

	for i, mi := range f.sortedIdx(n) {
		if f.members[mi].node.Address().String() == obs.proposer {
			pos = fmt.Sprintf("sorted[%d]", i)
		}
	}

	how := "first-candidate"

	switch {
	case !c.w.candidateLeft():
		how = "no-candidate-left(not judged)"
	case obs.devAsked > 0:
		how = "fallback"
	}

	self := ""
	if obs.proposer == obs.local {
		self = ":self"
	}

	return fmt.Sprintf("n=%d:%s:%s:%s%s", n, who, how, pos, self)
}

// c07nOrders: every listing order of the n members.
func c07nOrders(n int) [][]int {
	var out [][]int

	for k := 0; k < c07Factorial(n); k++ {
		out = append(out, c07Perm(n, k))
	}

	return out
}

func (f *c07nFixture) cases(w c07nWorld) []c07nCase {
	sorted := f.sortedIdx(w.n)

	var cases []c07nCase

	for _, o := range c07nOrders(w.n) {
		for l := 0; l <= w.n; l++ {
			if w.dev >= 0 && l < w.n && l == sorted[w.dev] {
				continue // the deviating node is not a correct node
			}

			cases = append(cases, c07nCase{w: w, order: o, local: l})
		}
	}

	return cases
}

// c07nRunAll runs the cases on at most `par` goroutines (the calls mostly sleep in the
// selector's tickers); results keep the order of the input.
func (f *c07nFixture) runAll(cases []c07nCase, tm c07nTiming, par int, expired func() bool) ([]c07nObs, []bool) {
	out := make([]c07nObs, len(cases))
	done := make([]bool, len(cases))
	sem := make(chan struct{}, par)

	var wg sync.WaitGroup

	for i := range cases {
		if expired() {
			break
		}

		sem <- struct{}{}
		wg.Add(1)

		go func(i int) {
			defer wg.Done()
			defer func() { <-sem }()

			out[i] = f.run(cases[i], tm)
			done[i] = true
		}(i)
	}

	wg.Wait()

	return out, done
}

func TestVerifC07Net(t *testing.T) {
	r := vlib.Start("C07")
	defer r.Finish()

	N := vlib.Pick(r, 4, 5)
	par := 96

	r.Rule("unit net: worlds = suffrage size n=1..N x round 0..max(2,n-1) (every address-sorted index is the first candidate at least once) x environment " +
		"{all answer} + {deviating member (each of the n) x refuses / hangs until the request timeout / answers with its own proposal of the next round / answers with a proposal made by a non-member}; " +
		"in a world every correct node (each non-deviating member, and an observer that is not a member) runs the real BaseProposalSelector.Select once per listing order " +
		"(all n!); one case = (world, listing order, local node); " +
		"non-trivial = the deviating member is the first candidate (the fallback path ran), or the local node is not a member, or n=1")
	r.Set("net_n_max", N)
	r.Set("net_height", c07nHeight)
	r.Set("net_environment_kinds", c07nKinds)
	r.Set("net_timeouts_ms", map[string]any{
		"first_pass":   map[string]int64{"proposer_wait": c07nFast.pwait.Milliseconds(), "request": c07nFast.reqTimeout.Milliseconds()},
		"confirmation": map[string]int64{"proposer_wait": c07nGenerous.pwait.Milliseconds(), "request": c07nGenerous.reqTimeout.Milliseconds()},
	})
	r.Assume("net unit: the request handler of a correct node answers only for itself (QuicstreamHandlerRequestProposal); at most one member deviates and its own result is not judged; " +
		"when the only member of a 1-node suffrage deviates no correct candidate is left and the result is recorded, not judged; " +
		"an answer of the in-memory network (one signature, one verification) arrives before a 300 ms request timeout / 800 ms proposer wait, otherwise the case is re-run with 3 s / 4 s")

	f := &c07nFixture{prev: valuehash.NewSHA256([]byte("c07-previous-block-0"))}
	f.members, f.observer, f.accomplice = c07nIdentities(t)

	var worlds []c07nWorld

	for n := 1; n <= N; n++ {
		rmax := uint64(2)
		if n-1 > 2 {
			rmax = uint64(n - 1)
		}

		for rd := uint64(0); rd <= rmax; rd++ {
			worlds = append(worlds, c07nWorld{n: n, round: rd, dev: -1})

			for d := 0; d < n; d++ {
				for _, k := range c07nKinds {
					worlds = append(worlds, c07nWorld{n: n, round: rd, dev: d, kind: k})
				}
			}
		}
	}

	r.Set("net_worlds_enumerated", len(worlds))

	// replay: the recorded case and the first case of its world, default timeouts
	if rid, replaying := r.Replaying(); replaying {
		for _, w := range worlds {
			if !strings.HasPrefix(rid, w.id()+"/") {
				continue
			}

			cases := f.cases(w)

			for _, c := range cases {
				if c.id() != rid {
					continue
				}

				ref := f.run(cases[0], c07nGenerous)
				obs := f.run(c, c07nGenerous)
				r.Trace()
				r.Trace()

				fl := f.judge(cases[0], ref, "")
				if fl == nil {
					fl = f.judge(c, obs, ref.proposer)
				}

				if fl != nil {
					r.Violation(rid, fl.sig, fl.detail, nil)
				}
			}
		}

		return
	}

	// first pass: every case of my worlds, short timeouts
	type world struct {
		w         c07nWorld
		from, to  int
		complete  bool
		expected  string
		suspects  []int // indices into all/obs still failing the oracle and not yet re-run
		confirmed int
	}

	var all []c07nCase
	var mine []*world

	for wi, w := range worlds {
		if !r.Mine(wi) {
			continue
		}

		cs := f.cases(w)
		mine = append(mine, &world{w: w, from: len(all), to: len(all) + len(cs)})
		all = append(all, cs...)
	}

	obs, done := f.runAll(all, c07nFast, par, r.Expired)

	for i := range done {
		if done[i] {
			r.Trace()
		}
	}

	findSuspects := func(wd *world) {
		wd.suspects = nil

		for i := wd.from; i < wd.to; i++ {
			exp := wd.expected
			if i == wd.from {
				exp = ""
			}

			if f.judge(all[i], obs[i], exp) != nil {
				wd.suspects = append(wd.suspects, i)
			}
		}
	}

	var pending []*world

	for _, wd := range mine {
		wd.complete = true

		for i := wd.from; i < wd.to; i++ {
			wd.complete = wd.complete && done[i]
		}

		if !wd.complete {
			continue // deadline: the world is not judged (the run is reported as not exhaustive)
		}

		if wd.w.candidateLeft() && obs[wd.from].err == "" {
			wd.expected = obs[wd.from].proposer
		}

		findSuspects(wd)

		if len(wd.suspects) > 0 {
			r.Add("net_suspects_after_first_pass", int64(len(wd.suspects)))
			pending = append(pending, wd)
		}
	}

	// confirmation: suspects are decided by runs with the default timeouts only. First the
	// reference case of every world that has suspects (the first pass may have spoiled the
	// reference itself), then the suspects, 3 per world and round, until a world has a
	// confirmed violation or no suspect is left.
	totalConfirmed := 0

	report := func(wd *world, i int, fl *c07nFail) {
		wd.confirmed++
		totalConfirmed++
		r.Outcome("FAIL:" + vlib.SigString(fl.sig))
		r.Violation(all[i].id(), fl.sig, fl.detail, nil)
	}

	if len(pending) > 0 {
		refs := make([]c07nCase, len(pending))
		for k, wd := range pending {
			refs[k] = all[wd.from]
		}

		robs, rdone := f.runAll(refs, c07nGenerous, par, r.Expired)

		for k, wd := range pending {
			if !rdone[k] {
				continue
			}

			r.Trace()
			obs[wd.from] = robs[k]

			if fl := f.judge(all[wd.from], robs[k], ""); fl != nil {
				report(wd, wd.from, fl)

				continue
			}

			if wd.w.candidateLeft() {
				wd.expected = robs[k].proposer
			}

			findSuspects(wd)
		}
	}

	for round := 0; ; round++ {
		var idx []int
		var owner []*world

		for _, wd := range pending {
			if wd.confirmed > 0 || totalConfirmed >= 12 {
				continue
			}

			for k := 0; k < len(wd.suspects) && k < 3; k++ {
				idx = append(idx, wd.suspects[k])
				owner = append(owner, wd)
			}
		}

		if len(idx) < 1 || r.Expired() {
			break
		}

		cs := make([]c07nCase, len(idx))
		for k := range idx {
			cs[k] = all[idx[k]]
		}

		gobs, gdone := f.runAll(cs, c07nGenerous, par, r.Expired)

		for k, i := range idx {
			if !gdone[k] {
				continue
			}

			r.Trace()

			wd := owner[k]
			obs[i] = gobs[k]

			if fl := f.judge(all[i], gobs[k], wd.expected); fl != nil {
				report(wd, i, fl)
			} else {
				r.Add("net_suspects_cleared_by_default_timeouts", 1)
			}
		}

		for _, wd := range pending {
			findSuspects(wd) // what was re-run carries its default-timeout observation now
		}
	}

	for _, wd := range pending {
		if wd.confirmed == 0 && len(wd.suspects) > 0 {
			// not decided (deadline, or the cap on reported violations): never a verdict
			r.Cap(fmt.Sprintf("net: %d suspect case(s) not re-run with the default timeouts", len(wd.suspects)))
		}
	}

	// accounting
	fallbackWorlds := map[string]int64{}

	for _, wd := range mine {
		if !wd.complete {
			continue
		}

		r.Add("net_worlds", 1)

		worldFallback := false

		for i := wd.from; i < wd.to; i++ {
			c, o := all[i], obs[i]

			r.Eval()
			r.StatesN(1)
			r.Add("net_requests", o.requests)
			r.Max("net_max_case_ms", o.tookMillis)

			oc := f.outcome(c, o)
			r.Outcome("net:" + oc)

			fallback := strings.Contains(oc, ":fallback:")
			if fallback || c.local == wd.w.n || wd.w.n == 1 {
				r.NontrivialN(1)
			}

			if fallback {
				worldFallback = true
				r.Add("net_cases_fallback_path", 1)
			}
		}

		if worldFallback {
			fallbackWorlds[wd.w.kind]++
		}

		if wd.w.round == 0 && (wd.w.dev < 0 || worldFallback) && wd.confirmed == 0 {
			r.Sample(map[string]any{"unit": "net", "world": wd.w.id(), "cases": wd.to - wd.from, "agreed_proposer": wd.expected})
		}
	}

	for k, v := range fallbackWorlds {
		r.Add("net_worlds_with_fallback_"+k, v)
	}
}
