//go:build verif

package isaac

import (
	"context"
	"fmt"
	"sort"
	"strings"
	"testing"

	"github.com/spikeekips/mitum/base"
	"github.com/spikeekips/mitum/util"
	"github.com/spikeekips/mitum/util/valuehash"
	"github.com/spikeekips/mitum/zzverif/vlib"
)

// C07: for the same stage point, previous block and suffrage every node selects the
// same proposer whatever order the suffrage nodes are listed in, and the proposer is
// a member of that suffrage.
//
// Seam: BaseProposalSelector.getNodes (the address sort every node applies to the
// list its database hands out) composed with BlockBasedProposerSelector.Select, i.e.
// what selectFromProposer runs; plus the second choice every node makes after the
// first proposer failed (filterDeadNodes + Select), plus Select alone for n < 2.
//
// Enumerated: suffrages of n = 1..N nodes in ALL n! listing orders x points
// (height 0..3 x round 0..3) x 8 fixed previous-block hashes.
// Oracle (differential): the proposer chosen from listing order #0 (identity) is the
// expected one for every other order; it must be one of the n nodes; the slice the
// caller handed in must still be a permutation of the suffrage (getNodes sorts it in
// place); the second choice must also be order-independent, a member, and not the
// failed proposer.

var c07Names = []string{"node-5", "node-2", "node-8", "node-1", "node-7", "node-3", "node-6", "node-4", "node-0"}

func c07Pool(t *testing.T) []base.Node {
	nodes := make([]base.Node, len(c07Names))

	for i, name := range c07Names {
		priv, err := base.NewMPrivatekeyFromSeed(fmt.Sprintf("c07-fixed-seed-for-node-key-%02d-%s", i, strings.Repeat("x", 40)))
		if err != nil {
			t.Fatal(err)
		}

		nodes[i] = base.NewBaseNode(base.DummyNodeHint, priv.Publickey(), base.NewStringAddress(name))
	}

	return nodes
}

// c07Perm returns the k-th permutation (factoradic) of 0..n-1.
func c07Perm(n, k int) []int {
	pool := make([]int, n)
	for i := range pool {
		pool[i] = i
	}

	fact := 1
	for i := 2; i < n; i++ {
		fact *= i
	}

	out := make([]int, 0, n)

	for i := n - 1; i >= 0; i-- {
		idx := 0
		if fact > 0 {
			idx = k / fact
			k %= fact
		}

		out = append(out, pool[idx])
		pool = append(pool[:idx], pool[idx+1:]...)

		if i > 0 {
			fact /= i
		}
	}

	return out
}

func c07Factorial(n int) int {
	f := 1
	for i := 2; i <= n; i++ {
		f *= i
	}

	return f
}

type c07Choice struct {
	first, second string // addresses; second "" if no other node
	err           string
}

type c07Case struct {
	point base.Point
	prev  util.Hash
	pi    int
	hi    int
}

func TestVerifC07(t *testing.T) {
	r := vlib.Start("C07")
	defer r.Finish()

	N := vlib.Pick(r, 6, 8)

	r.Rule("suffrages of n=1..N fixed nodes in all n! listing orders x points (height 0..3 x round 0..3) x 8 fixed previous-block hashes through " +
		"getNodes+Select (first choice) and filterDeadNodes+Select (second choice); every (n, order, point, hash) is a distinct input; " +
		"non-trivial = n>=2 and the listing order differs from the address-sorted order (the sort has work to do)")
	r.Set("n_max", N)
	r.Set("heights", []int{0, 1, 2, 3})
	r.Set("rounds", []int{0, 1, 2, 3})
	r.Set("previous_block_hashes", 8)
	r.Assume("suffrage node addresses are unique (guaranteed by suffrage validation); the previous-block hash is non-nil")

	pool := c07Pool(t)
	ctx := context.Background()
	psel := NewBlockBasedProposerSelector()
	sel := NewBaseProposalSelector(base.RandomLocalNode(), NewBaseProposalSelectorArgs())

	var cases []c07Case

	for h := int64(0); h <= 3; h++ {
		for rd := uint64(0); rd <= 3; rd++ {
			for hi := 0; hi < 8; hi++ {
				cases = append(cases, c07Case{
					point: base.RawPoint(h, rd),
					prev:  valuehash.NewSHA256([]byte(fmt.Sprintf("c07-previous-block-%d", hi))),
					pi:    int(h)*4 + int(rd), hi: hi,
				})
			}
		}
	}

	// Select alone, n < 2 branches
	if r.Mine(0) {
		if r.Want("select/n=0") {
			n, err := psel.Select(ctx, base.RawPoint(1, 0), nil, cases[0].prev)
			r.Eval()
			r.Outcome("n0:error")

			if err == nil || n != nil {
				r.Violation("select/n=0", map[string]any{"kind": "empty-suffrage-selected", "n": 0},
					fmt.Sprintf("Select on an empty node list returned %v, %v", n, err), nil)
			}
		}
	}

	choose := func(n int, listed []base.Node, c c07Case) (ch c07Choice, sortedAddrs []string) {
		var askedHeight base.Height

		nodes, found, err := sel.getNodes(c.point.Height(), func(h base.Height) ([]base.Node, bool, error) {
			askedHeight = h

			return listed, true, nil
		})
		if err != nil || !found {
			ch.err = fmt.Sprintf("getNodes: found=%v err=%v", found, err)

			return ch, nil
		}

		if askedHeight != c.point.Height().SafePrev() {
			ch.err = fmt.Sprintf("getNodes asked for height %d", askedHeight)

			return ch, nil
		}

		for i := range nodes {
			sortedAddrs = append(sortedAddrs, nodes[i].Address().String())
		}

		first, err := psel.Select(ctx, c.point, nodes, c.prev)
		if err != nil || first == nil {
			ch.err = fmt.Sprintf("Select: %v", err)

			return ch, sortedAddrs
		}

		ch.first = first.Address().String()

		// what every node does when the first proposer does not answer
		others := sel.filterDeadNodes(nodes, []base.Address{first.Address()})
		if len(others) > 0 {
			second, err := psel.Select(ctx, c.point, others, c.prev)
			if err != nil || second == nil {
				ch.err = fmt.Sprintf("second Select: %v", err)

				return ch, sortedAddrs
			}

			ch.second = second.Address().String()
		}

		return ch, sortedAddrs
	}

	item := 0

	for n := 1; n <= N; n++ {
		set := pool[:n]
		member := map[string]bool{}
		want := make([]string, 0, n)

		for i := range set {
			member[set[i].Address().String()] = true
			want = append(want, set[i].Address().String())
		}

		sort.Strings(want)

		// expected = choice from listing order #0
		expected := make([]c07Choice, len(cases))

		for ci, c := range cases {
			listed := make([]base.Node, n)
			copy(listed, set)
			expected[ci], _ = choose(n, listed, c)
		}

		nperm := c07Factorial(n)

		for k := 0; k < nperm; k++ {
			item++
			if !r.Mine(item) {
				continue
			}

			if k%64 == 0 && r.Expired() {
				return
			}

			perm := c07Perm(n, k)

			permstr := make([]string, n)
			for i := range perm {
				permstr[i] = fmt.Sprintf("%d", perm[i])
			}

			pid := strings.Join(permstr, "")
			issorted := true

			for i := 1; i < n; i++ {
				if set[perm[i-1]].Address().String() > set[perm[i]].Address().String() {
					issorted = false
				}
			}

			for ci, c := range cases {
				id := fmt.Sprintf("n=%d/order=%s/h=%d/r=%d/hash=%d", n, pid, c.point.Height(), c.point.Round(), c.hi)
				if !r.Want(id) {
					continue
				}

				listed := make([]base.Node, n)
				for i := range perm {
					listed[i] = set[perm[i]]
				}

				got, sortedAddrs := choose(n, listed, c)

				r.Eval()
				r.StatesN(1)

				if n >= 2 && !issorted {
					r.NontrivialN(1)
				}

				idx := sort.SearchStrings(want, got.first)
				r.Outcome(fmt.Sprintf("n=%d:proposer=sorted[%d]", n, idx))

				if k == 1 && ci < 2 {
					r.Sample(map[string]any{"n": n, "listed": pid, "point": c.point.String(), "hash": c.hi, "proposer": got.first, "second": got.second})
				}

				rep := map[string]any{"n": n, "order": pid, "height": c.point.Height(), "round": c.point.Round(), "hash": c.hi}
				exp := expected[ci]

				switch {
				case got.err != "":
					r.Violation(id, map[string]any{"kind": "selection-failed", "n_ge_2": n >= 2},
						fmt.Sprintf("%s: %s", id, got.err), rep)

					continue
				case !member[got.first]:
					r.Violation(id, map[string]any{"kind": "proposer-not-member", "choice": "first"},
						fmt.Sprintf("%s: selected %q which is not in the suffrage %v", id, got.first, want), rep)
				case got.first != exp.first:
					r.Violation(id, map[string]any{"kind": "order-dependent-proposer", "choice": "first"},
						fmt.Sprintf("%s: selected %q, but listing order #0 of the same suffrage selects %q", id, got.first, exp.first), rep)
				case got.second != "" && (!member[got.second] || got.second == got.first):
					r.Violation(id, map[string]any{"kind": "proposer-not-member", "choice": "second"},
						fmt.Sprintf("%s: second choice %q (first %q) is not another member of %v", id, got.second, got.first, want), rep)
				case got.second != exp.second:
					r.Violation(id, map[string]any{"kind": "order-dependent-proposer", "choice": "second"},
						fmt.Sprintf("%s: second choice %q, but listing order #0 selects %q", id, got.second, exp.second), rep)
				}

				// the caller's slice must still hold exactly the suffrage
				after := make([]string, n)
				for i := range listed {
					after[i] = listed[i].Address().String()
				}

				sort.Strings(after)

				if strings.Join(after, ",") != strings.Join(want, ",") {
					r.Violation(id, map[string]any{"kind": "caller-slice-corrupted"},
						fmt.Sprintf("%s: after getNodes the caller's slice holds %v, expected a permutation of %v", id, after, want), rep)
				}

				if n >= 2 && len(sortedAddrs) == n && !sort.StringsAreSorted(sortedAddrs) {
					// informational: the statement does not demand a sorted list, only
					// order independence (checked above)
					r.Add("unsorted_lists_seen", 1)
				}
			}
		}
	}
}
