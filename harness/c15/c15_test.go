//go:build verif

package isaacblock

import (
	"context"
	"fmt"
	"io"
	"os"
	"sort"
	"strings"
	"sync"
	"testing"

	"github.com/pkg/errors"
	"github.com/spikeekips/mitum/base"
	"github.com/spikeekips/mitum/isaac"
	isaacdatabase "github.com/spikeekips/mitum/isaac/database"
	leveldbstorage "github.com/spikeekips/mitum/storage/leveldb"
	"github.com/spikeekips/mitum/util/valuehash"
	"github.com/spikeekips/mitum/zzverif/vlib"
)

// C15: ImportBlocks(from..to, batchlimit) reports success only if every block
// from..to has been saved and merged (so the last stored height is `to`), for
// every batch size.
//
// The real ImportBlocks (with util.BatchWork, saveImporters, cancelImporters)
// is driven with recording isaac.BlockImporter stubs. The reference model is a
// boring "what is stored" ledger:
//   saved[h]   Save() of the importer of height h returned without error
//   merged[h]  the deferred merge function returned by that Save() ran without error
//   flushed    the last merge was followed by a successful mergeBlockWriterDatabases call
//   cancelled  CancelImport() was called on some importer
// Success is legal only if every height was saved once, merged once after its
// save, nothing was cancelled, the highest merged height is `to`, and the last
// merge is followed by a successful flush.
//
// Every (count, batch limit) pair is run without faults and with every single
// fault (kind x position): with a fault the range cannot be stored completely,
// so success would be a violation by the same ledger rule.

type c15Fault struct {
	kind string // "", "map-notfound", "map-error", "newimporter-error", "save-error", "merge-error", "flush-error"
	pos  int64  // offset of the height from `from` (flush-error: index of the flush call)
}

func (f c15Fault) String() string {
	if f.kind == "" {
		return "none"
	}
	return fmt.Sprintf("%s@%d", f.kind, f.pos)
}

type c15Ledger struct {
	mu        sync.Mutex
	events    []string
	saved     map[base.Height]int
	merged    map[base.Height]int
	cancelled map[base.Height]int
	mergedBeforeSave bool
	lastMerged       base.Height
	mergeOrderBroken bool
	flushCalls       int
	flushOK          int
	dirty            bool // a merge happened after the last successful flush
	newImporters     map[base.Height]int
}

func newC15Ledger() *c15Ledger {
	return &c15Ledger{
		saved: map[base.Height]int{}, merged: map[base.Height]int{}, cancelled: map[base.Height]int{},
		newImporters: map[base.Height]int{}, lastMerged: base.NilHeight,
	}
}

func (l *c15Ledger) ev(format string, a ...any) {
	if len(l.events) < 400 {
		l.events = append(l.events, fmt.Sprintf(format, a...))
	}
}

type c15Importer struct {
	l      *c15Ledger
	height base.Height
	fault  c15Fault
	from   base.Height
}

func (im *c15Importer) hit(kind string) bool {
	return im.fault.kind == kind && im.from+base.Height(im.fault.pos) == im.height
}

func (*c15Importer) WriteMap(base.BlockMap) error                            { return nil }
func (*c15Importer) WriteItem(base.BlockItemType, isaac.BlockItemReader) error { return nil }

func (im *c15Importer) Save(context.Context) (func(context.Context) error, error) {
	l := im.l
	l.mu.Lock()
	defer l.mu.Unlock()

	if im.hit("save-error") {
		l.ev("save!%d", im.height)

		return nil, errors.Errorf("c15: scripted save error")
	}

	l.saved[im.height]++
	l.ev("save%d", im.height)

	return func(context.Context) error {
		l.mu.Lock()
		defer l.mu.Unlock()

		if im.hit("merge-error") {
			l.ev("merge!%d", im.height)

			return errors.Errorf("c15: scripted merge error")
		}

		if l.saved[im.height] < 1 {
			l.mergedBeforeSave = true
		}

		l.merged[im.height]++
		if im.height <= l.lastMerged {
			l.mergeOrderBroken = true
		}
		if im.height > l.lastMerged {
			l.lastMerged = im.height
		}
		l.dirty = true
		l.ev("merge%d", im.height)

		return nil
	}, nil
}

func (im *c15Importer) CancelImport(context.Context) error {
	im.l.mu.Lock()
	defer im.l.mu.Unlock()

	im.l.cancelled[im.height]++
	im.l.ev("cancel%d", im.height)

	return nil
}

type c15Result struct {
	err        error
	complete   bool   // ledger says: every height stored, merged, flushed, nothing cancelled
	why        string // first reason it is not complete
	lastStored base.Height
	events     string
}

var c15MapCache []base.BlockMap

// c15Maps: stub block maps without items (ImportBlocks then never touches the
// readers); only the manifest height is read. Built once, no signing.
func c15Maps(to base.Height) []base.BlockMap {
	for h := base.Height(len(c15MapCache)); h <= to; h++ {
		c15MapCache = append(c15MapCache,
			base.DummyBlockMap{M: base.NewDummyManifest(h, valuehash.NewSHA256([]byte(fmt.Sprintf("c15-%d", h))))})
	}

	return c15MapCache
}

func c15Run(from base.Height, count, limit int64, fault c15Fault) c15Result {
	l := newC15Ledger()
	to := from + base.Height(count) - 1

	maps := c15Maps(to)

	err := ImportBlocks(
		context.Background(),
		from, to,
		limit,
		nil, // the stub maps have no items, so the readers are never touched
		func(_ context.Context, height base.Height) (base.BlockMap, bool, error) {
			switch {
			case fault.kind == "map-notfound" && from+base.Height(fault.pos) == height:
				return nil, false, nil
			case fault.kind == "map-error" && from+base.Height(fault.pos) == height:
				return nil, false, errors.Errorf("c15: scripted blockmap error")
			}

			if height < from || height > to {
				return nil, false, nil
			}

			return maps[height], true, nil
		},
		nil,
		func(m base.BlockMap) (isaac.BlockImporter, error) {
			h := m.Manifest().Height()

			l.mu.Lock()
			l.newImporters[h]++
			l.mu.Unlock()

			if fault.kind == "newimporter-error" && from+base.Height(fault.pos) == h {
				return nil, errors.Errorf("c15: scripted new importer error")
			}

			return &c15Importer{l: l, height: h, fault: fault, from: from}, nil
		},
		nil,
		func(context.Context) error {
			l.mu.Lock()
			defer l.mu.Unlock()

			i := l.flushCalls
			l.flushCalls++

			if fault.kind == "flush-error" && int64(i) == fault.pos {
				l.ev("flush!")

				return errors.Errorf("c15: scripted merge databases error")
			}

			l.flushOK++
			l.dirty = false
			l.ev("flush")

			return nil
		},
	)

	l.mu.Lock()
	defer l.mu.Unlock()

	res := c15Result{err: err, lastStored: l.lastMerged, events: strings.Join(l.events, " ")}

	var missing []string
	for h := from; h <= to; h++ {
		switch {
		case l.saved[h] != 1:
			missing = append(missing, fmt.Sprintf("height %d saved %d times", h, l.saved[h]))
		case l.merged[h] != 1:
			missing = append(missing, fmt.Sprintf("height %d merged %d times", h, l.merged[h]))
		}
	}

	var cancelled []string
	for h := range l.cancelled {
		cancelled = append(cancelled, h.String())
	}
	sort.Strings(cancelled)

	switch {
	case len(missing) > 0:
		res.why = strings.Join(missing, "; ")
	case len(cancelled) > 0:
		res.why = "cancelled: " + strings.Join(cancelled, ",")
	case l.mergedBeforeSave:
		res.why = "a merge ran before its save"
	case l.mergeOrderBroken:
		res.why = "merges not in ascending height order"
	case l.lastMerged != to:
		res.why = fmt.Sprintf("last stored height %d != %d", l.lastMerged, to)
	case l.dirty:
		res.why = "last merge not followed by a successful mergeBlockWriterDatabases"
	default:
		res.complete = true
	}

	return res
}

func c15Faults(count, limit int64) []c15Fault {
	fs := []c15Fault{{}}

	for _, k := range []string{"map-notfound", "map-error", "newimporter-error", "save-error", "merge-error"} {
		for p := int64(0); p < count; p++ {
			fs = append(fs, c15Fault{kind: k, pos: p})
		}
	}

	batches := (count + limit - 1) / limit
	for p := int64(0); p < batches; p++ {
		fs = append(fs, c15Fault{kind: "flush-error", pos: p})
	}

	return fs
}

func TestVerifC15(t *testing.T) {
	r := vlib.Start("C15")
	defer r.Finish()

	r.Rule("every (from, count, batchlimit) in {0,5} x 1..N x 1..N+1, without fault and with every single fault " +
		"(5 kinds x every height, plus a failing mergeBlockWriterDatabases at every batch); each tuple is a distinct input; " +
		"non-trivial = count is a multiple of batchlimit (the last batch is a full one)")
	r.Assume("recording isaac.BlockImporter stubs stand for the real importer: Save/merge/CancelImport only record; " +
		"the order in which the jobs of one batch run is left to the Go runtime, the oracle does not depend on it")

	N := int64(vlib.Pick(r, 12, 40))
	if _, replaying := r.Replaying(); replaying { // replays run in the quick tier: search the thorough space for the recorded id
		N = 40
	}

	r.Set("count_max", N)
	r.Set("batchlimit_max", N+1)
	r.Set("from_heights", []int64{0, 5})

	item := 0

	for count := int64(1); count <= N; count++ {
		for limit := int64(1); limit <= N+1; limit++ {
			item++
			if !r.Mine(item) {
				continue
			}

			if r.Expired() {
				return
			}

			for _, from := range []base.Height{base.GenesisHeight, 5} {
				for _, fault := range c15Faults(count, limit) {
					id := fmt.Sprintf("from=%d,count=%d,limit=%d,fault=%s", from, count, limit, fault)
					if !r.Want(id) {
						continue
					}

					c15Case(r, id, from, count, limit, fault)
				}
			}
		}
	}

	c15Real(t, r)
}

// c15Real runs the same question against the real BlockImporter, the real
// local-fs block files and an in-memory leveldb Center database for small
// ranges: success must imply Database.LastBlockMap() == to and every BlockMap
// of the range present (the property's observation point).
func c15Real(t *testing.T, r *vlib.Run) {
	R := int64(vlib.Pick(r, 3, 6))
	if _, replaying := r.Replaying(); replaying {
		R = 6
	}

	r.Set("real_importer_count_max", R)

	mine := false
	item := 1 << 20

	for count := int64(1); count <= R; count++ {
		for limit := int64(1); limit <= count+1; limit++ {
			item++
			if r.Mine(item) {
				mine = true
			}
		}
	}

	if !mine {
		return
	}

	s := new(testImportBlocks)
	s.SetT(t)
	s.SetupSuite()
	s.SetupTest()
	defer s.TearDownTest()

	from := base.GenesisHeight
	fromdb := s.prepare(from, from+base.Height(R)-1)
	_ = fromdb

	item = 1 << 20

	for count := int64(1); count <= R; count++ {
		for limit := int64(1); limit <= count+1; limit++ {
			item++
			if !r.Mine(item) {
				continue
			}

			id := fmt.Sprintf("real,from=0,count=%d,limit=%d", count, limit)
			if !r.Want(id) {
				continue
			}

			if r.Expired() {
				return
			}

			c15RealCase(r, s, id, from, count, limit)
		}
	}
}

func c15RealCase(r *vlib.Run, s *testImportBlocks, id string, from base.Height, count, limit int64) {
	to := from + base.Height(count) - 1

	importRoot, err := os.MkdirTemp("", "verif-c15-import")
	if err != nil {
		panic(err)
	}
	defer os.RemoveAll(importRoot)

	st := leveldbstorage.NewMemStorage()
	importdb, err := isaacdatabase.NewCenter(st, s.Encs, s.Enc, s.NewLeveldbPermanentDatabase(),
		func(height base.Height) (isaac.BlockWriteDatabase, error) {
			return isaacdatabase.NewLeveldbBlockWrite(height, st, s.Encs, s.Enc), nil
		},
	)
	if err != nil {
		panic(err)
	}

	ierr := ImportBlocks(
		context.Background(),
		from, to,
		limit,
		s.Readers,
		func(_ context.Context, height base.Height) (base.BlockMap, bool, error) {
			rm, found, err := isaac.BlockItemReadersDecode[base.BlockMap](s.Readers.Item, height, base.BlockItemMap, nil)
			if err != nil {
				return nil, false, err
			}

			return rm, found, nil
		},
		func(_ context.Context, height base.Height, item base.BlockItemType, f func(io.Reader, bool, string) error) error {
			switch _, found, err := s.Readers.Item(height, item, func(ir isaac.BlockItemReader) error {
				return f(ir.Reader(), true, ir.Reader().Format)
			}); {
			case err != nil:
				return err
			case !found:
				return f(nil, false, "")
			default:
				return nil
			}
		},
		func(m base.BlockMap) (isaac.BlockImporter, error) {
			bwdb, err := importdb.NewBlockWriteDatabase(m.Manifest().Height())
			if err != nil {
				return nil, err
			}

			return NewBlockImporter(
				importRoot,
				s.Encs,
				m,
				bwdb,
				func(context.Context) error {
					return importdb.MergeBlockWriteDatabase(bwdb)
				},
				s.LocalParams.NetworkID(),
			)
		},
		nil,
		func(context.Context) error {
			return importdb.MergeAllPermanent()
		},
	)

	r.Eval()
	r.Trace()
	r.StatesN(1)

	multiple := count%limit == 0
	if multiple {
		r.Nontrivial(id)
	}

	last := base.NilHeight

	switch m, found, err := importdb.LastBlockMap(); {
	case err != nil:
		panic(err)
	case found:
		last = m.Manifest().Height()
	}

	var missing []string

	for h := from; h <= to; h++ {
		switch _, found, err := importdb.BlockMap(h); {
		case err != nil:
			panic(err)
		case !found:
			missing = append(missing, h.String())
		}
	}

	sig := map[string]any{
		"count_multiple_of_limit": multiple,
		"single_batch":            count <= limit,
		"fault":                   "",
		"importer":                "real",
	}
	replay := map[string]any{"from": from.Int64(), "count": count, "limit": limit, "importer": "real"}

	switch {
	case ierr != nil:
		sig["kind"] = "error-without-fault"
		r.Outcome("VIOLATION real importer: error-without-fault")
		r.Violation(id, sig, fmt.Sprintf("real importer: ImportBlocks(%d..%d, batchlimit=%d) returned %+v", from, to, limit, ierr), replay)
	case last != to || len(missing) > 0:
		sig["kind"] = "success-but-not-stored"
		r.Outcome("VIOLATION real importer: success-but-not-stored")
		r.Violation(id, sig,
			fmt.Sprintf("real importer: ImportBlocks(%d..%d, batchlimit=%d) returned nil but Database.LastBlockMap() height is %d and the block maps of heights [%s] are missing",
				from, to, limit, last, strings.Join(missing, ",")), replay)
	default:
		r.Outcome("real importer: success, LastBlockMap == to")
		r.Sample(map[string]any{"case": id, "result": "nil", "last_block_map": last.Int64()})
	}
}

func c15Case(r *vlib.Run, id string, from base.Height, count, limit int64, fault c15Fault) {
	res := c15Run(from, count, limit, fault)

	r.Eval()
	r.Trace()
	r.StatesN(1)

	multiple := count%limit == 0
	if multiple {
		r.Nontrivial(id)
	}

	sig := map[string]any{
		"count_multiple_of_limit": multiple,
		"single_batch":            count <= limit,
		"fault":                   fault.kind,
	}
	replay := map[string]any{"from": from.Int64(), "count": count, "limit": limit, "fault": fault.String()}

	switch {
	case res.err == nil && !res.complete:
		sig["kind"] = "success-but-not-stored"
		r.Outcome("VIOLATION success-but-not-stored")
		r.Violation(id, sig,
			fmt.Sprintf("ImportBlocks(%d..%d, batchlimit=%d, fault=%s) returned nil but %s (last stored height %d); events: %s",
				from, from+base.Height(count)-1, limit, fault, res.why, res.lastStored, res.events), replay)
	case res.err != nil && fault.kind == "":
		sig["kind"] = "error-without-fault"
		r.Outcome("VIOLATION error-without-fault")
		r.Violation(id, sig,
			fmt.Sprintf("ImportBlocks(%d..%d, batchlimit=%d) without any fault returned %v; events: %s",
				from, from+base.Height(count)-1, limit, res.err, res.events), replay)
	case res.err == nil:
		r.Outcome("success, all stored")
		if multiple || (count > limit && count <= 5) {
			r.Sample(map[string]any{"case": id, "result": "nil", "last_stored": res.lastStored.Int64(), "events": res.events})
		}
	default:
		r.Outcome("error on fault " + fault.kind)
		if count == 3 && limit == 2 && fault.pos == 2 {
			r.Sample(map[string]any{"case": id, "result": res.err.Error(), "last_stored": res.lastStored.Int64(), "events": res.events})
		}
	}
}
