//go:build verif

package isaacblock

import (
	"context"
	"fmt"
	"io"
	"os"
	"sort"
	"strings"
	"sync"
	"testing"

	"github.com/pkg/errors"
	"github.com/spikeekips/mitum/base"
	"github.com/spikeekips/mitum/isaac"
	isaacdatabase "github.com/spikeekips/mitum/isaac/database"
	leveldbstorage "github.com/spikeekips/mitum/storage/leveldb"
	"github.com/spikeekips/mitum/util/valuehash"
	"github.com/spikeekips/mitum/zzverif/vlib"
)

// C15: ImportBlocks(from..to, batchlimit) reports success only if every block
// from..to has been saved and merged (so the last stored height is `to`), for
// every batch size.
//
// The real ImportBlocks (with util.BatchWork, saveImporters, cancelImporters)
// is driven with recording isaac.BlockImporter stubs. The reference model is a
// boring "what is stored" ledger:
//   saved[h]   Save() of the importer of height h returned without error
//   merged[h]  the deferred merge function returned by that Save() ran without error
//   flushed    the last merge was followed by a successful mergeBlockWriterDatabases call
//   cancelled  CancelImport() was called on some importer
// Success is legal only if every height was saved once, merged once after its
// save, nothing was cancelled, the highest merged height is `to`, and the last
// merge is followed by a successful flush.
//
// Every (count, batch limit) pair is run without faults and with every single
// fault (kind x position): with a fault the range cannot be stored completely,
// so success would be a violation by the same ledger rule.

type c15Fault struct {
	kind string // "", "map-notfound", "map-error", "newimporter-error", "save-error", "merge-error", "flush-error", or a "cancel-*" kind (c15_cancel_test.go)
	pos  int64  // offset of the height from `from` (flush-error, cancel-flush: index of the flush call)
	// the two fields below are only used by the cancellation cases (c15_cancel_test.go)
	items bool               // the block maps have items: importBlock runs its item worker, blockItemf and WriteItem are called
	honor bool               // the stubs that are given a context return ctx.Err() when it is already done at their entry
	item  base.BlockItemType // real-importer part: the item at which cancel-item / cancel-writeitem fires
}

func (f c15Fault) String() string {
	s := "none"
	if f.kind != "" {
		s = fmt.Sprintf("%s@%d", f.kind, f.pos)
	}
	if f.item != "" {
		s += "/" + string(f.item)
	}
	if f.items && !f.isCancel() {
		s += "+items"
	}
	if f.honor {
		s += "+honor"
	}

	return s
}

type c15Ledger struct {
	mu               sync.Mutex
	events           []string
	saved            map[base.Height]int
	merged           map[base.Height]int
	cancelled        map[base.Height]int
	mergedBeforeSave bool
	lastMerged       base.Height
	mergeOrderBroken bool
	flushCalls       int
	flushOK          int
	dirty            bool // a merge happened after the last successful flush
	newImporters     map[base.Height]int
	// cancellation cases
	cancelFired int                          // how often the chosen cancellation site was reached (the context is cancelled there)
	written     map[base.Height]int          // WriteItem calls per height
	importers   map[base.Height]*c15Importer // importer of a height, for the blockItemf stub
}

func newC15Ledger() *c15Ledger {
	return &c15Ledger{
		saved: map[base.Height]int{}, merged: map[base.Height]int{}, cancelled: map[base.Height]int{},
		newImporters: map[base.Height]int{}, lastMerged: base.NilHeight,
		written: map[base.Height]int{}, importers: map[base.Height]*c15Importer{},
	}
}

func (l *c15Ledger) ev(format string, a ...any) {
	if len(l.events) < 400 {
		l.events = append(l.events, fmt.Sprintf(format, a...))
	}
}

type c15Importer struct {
	l      *c15Ledger
	height base.Height
	fault  c15Fault
	from   base.Height
	cancel func() // cancels the context given to ImportBlocks
}

func (im *c15Importer) hit(kind string) bool {
	return im.fault.kind == kind && im.from+base.Height(im.fault.pos) == im.height
}

func (*c15Importer) WriteMap(base.BlockMap) error { return nil }

func (im *c15Importer) WriteItem(t base.BlockItemType, _ isaac.BlockItemReader) error {
	l := im.l
	l.mu.Lock()
	defer l.mu.Unlock()

	l.written[im.height]++

	if t == c15ItemTypes[len(c15ItemTypes)-1] && im.hit("cancel-writeitem") {
		l.fire(im.cancel, "writeitem", im.height)
	}

	return nil
}

func (im *c15Importer) Save(ctx context.Context) (func(context.Context) error, error) {
	l := im.l
	l.mu.Lock()
	defer l.mu.Unlock()

	if im.fault.honor && ctx.Err() != nil {
		l.ev("save?%d", im.height)

		return nil, ctx.Err()
	}

	if im.fault.items && l.written[im.height] < len(c15ItemTypes) { // like the real importer: "not yet finished"
		l.ev("save?%d", im.height)

		return nil, errors.Errorf("c15: not yet finished, %d items written", l.written[im.height])
	}

	if im.hit("save-error") {
		l.ev("save!%d", im.height)

		return nil, errors.Errorf("c15: scripted save error")
	}

	l.saved[im.height]++
	l.ev("save%d", im.height)

	if im.hit("cancel-save") {
		l.fire(im.cancel, "save", im.height)
	}

	return func(ctx context.Context) error {
		l.mu.Lock()
		defer l.mu.Unlock()

		if im.fault.honor && ctx.Err() != nil {
			l.ev("merge?%d", im.height)

			return ctx.Err()
		}

		if im.hit("merge-error") {
			l.ev("merge!%d", im.height)

			return errors.Errorf("c15: scripted merge error")
		}

		if l.saved[im.height] < 1 {
			l.mergedBeforeSave = true
		}

		l.merged[im.height]++
		if im.height <= l.lastMerged {
			l.mergeOrderBroken = true
		}
		if im.height > l.lastMerged {
			l.lastMerged = im.height
		}
		l.dirty = true
		l.ev("merge%d", im.height)

		if im.hit("cancel-merge") {
			l.fire(im.cancel, "merge", im.height)
		}

		return nil
	}, nil
}

func (im *c15Importer) CancelImport(context.Context) error {
	im.l.mu.Lock()
	defer im.l.mu.Unlock()

	im.l.cancelled[im.height]++
	im.l.ev("cancel%d", im.height)

	return nil
}

type c15Result struct {
	err         error
	complete    bool   // ledger says: every height stored, merged, flushed, nothing cancelled
	why         string // first reason it is not complete
	lastStored  base.Height
	events      string
	cancelFired int
}

var c15MapCache []base.BlockMap

// c15Maps: stub block maps without items (ImportBlocks then never touches the
// readers); only the manifest height is read. Built once, no signing.
func c15Maps(to base.Height) []base.BlockMap {
	for h := base.Height(len(c15MapCache)); h <= to; h++ {
		c15MapCache = append(c15MapCache,
			base.DummyBlockMap{M: base.NewDummyManifest(h, valuehash.NewSHA256([]byte(fmt.Sprintf("c15-%d", h))))})
	}

	return c15MapCache
}

func c15Run(from base.Height, count, limit int64, fault c15Fault) c15Result {
	l := newC15Ledger()
	to := from + base.Height(count) - 1

	maps := c15Maps(to)
	if fault.items {
		maps = c15ItemMaps(to)
	}

	ctx, cancel := context.WithCancel(context.Background())
	defer cancel()

	hit := func(kind string, height base.Height) bool {
		return fault.kind == kind && from+base.Height(fault.pos) == height
	}

	if fault.kind == "cancel-start" {
		l.fire(cancel, "start", from)
	}

	err := ImportBlocks(
		ctx,
		from, to,
		limit,
		nil, // the readers are never touched: the stub maps have no items, or (items) the blockItemf stub hands the item to the importer itself
		func(ctx context.Context, height base.Height) (base.BlockMap, bool, error) {
			if fault.honor && ctx.Err() != nil {
				return nil, false, ctx.Err()
			}

			if hit("cancel-map", height) {
				l.mu.Lock()
				l.fire(cancel, "map", height)
				l.mu.Unlock()
			}

			switch {
			case fault.kind == "map-notfound" && from+base.Height(fault.pos) == height:
				return nil, false, nil
			case fault.kind == "map-error" && from+base.Height(fault.pos) == height:
				return nil, false, errors.Errorf("c15: scripted blockmap error")
			}

			if height < from || height > to {
				return nil, false, nil
			}

			return maps[height], true, nil
		},
		func(ctx context.Context, height base.Height, item base.BlockItemType, _ func(io.Reader, bool, string) error) error {
			// only reached with item maps. The stub stands for "fetch the item, decode it and hand it to the
			// importer of that height" (the real callback needs real readers; the real-importer part runs it).
			if fault.honor && ctx.Err() != nil {
				return ctx.Err()
			}

			l.mu.Lock()
			im := l.importers[height]

			if item == c15ItemTypes[0] && hit("cancel-item", height) {
				l.fire(cancel, "item", height)
			}
			l.mu.Unlock()

			return im.WriteItem(item, nil)
		},
		func(m base.BlockMap) (isaac.BlockImporter, error) {
			h := m.Manifest().Height()

			im := &c15Importer{l: l, height: h, fault: fault, from: from, cancel: cancel}

			l.mu.Lock()
			l.newImporters[h]++
			l.importers[h] = im

			if hit("cancel-newimporter", h) {
				l.fire(cancel, "newimporter", h)
			}
			l.mu.Unlock()

			if fault.kind == "newimporter-error" && from+base.Height(fault.pos) == h {
				return nil, errors.Errorf("c15: scripted new importer error")
			}

			return im, nil
		},
		nil,
		func(ctx context.Context) error {
			l.mu.Lock()
			defer l.mu.Unlock()

			if fault.honor && ctx.Err() != nil {
				l.ev("flush?")

				return ctx.Err()
			}

			i := l.flushCalls
			l.flushCalls++

			if fault.kind == "flush-error" && int64(i) == fault.pos {
				l.ev("flush!")

				return errors.Errorf("c15: scripted merge databases error")
			}

			l.flushOK++
			l.dirty = false
			l.ev("flush")

			if fault.kind == "cancel-flush" && int64(i) == fault.pos {
				l.fire(cancel, "flush", base.Height(i))
			}

			return nil
		},
	)

	l.mu.Lock()
	defer l.mu.Unlock()

	res := c15Result{err: err, lastStored: l.lastMerged, events: strings.Join(l.events, " "), cancelFired: l.cancelFired}

	var missing []string
	for h := from; h <= to; h++ {
		switch {
		case l.saved[h] != 1:
			missing = append(missing, fmt.Sprintf("height %d saved %d times", h, l.saved[h]))
		case l.merged[h] != 1:
			missing = append(missing, fmt.Sprintf("height %d merged %d times", h, l.merged[h]))
		}
	}

	var cancelled []string
	for h := range l.cancelled {
		cancelled = append(cancelled, h.String())
	}
	sort.Strings(cancelled)

	switch {
	case len(missing) > 0:
		res.why = strings.Join(missing, "; ")
	case len(cancelled) > 0:
		res.why = "cancelled: " + strings.Join(cancelled, ",")
	case l.mergedBeforeSave:
		res.why = "a merge ran before its save"
	case l.mergeOrderBroken:
		res.why = "merges not in ascending height order"
	case l.lastMerged != to:
		res.why = fmt.Sprintf("last stored height %d != %d", l.lastMerged, to)
	case l.dirty:
		res.why = "last merge not followed by a successful mergeBlockWriterDatabases"
	default:
		res.complete = true
	}

	return res
}

func c15Faults(count, limit int64) []c15Fault {
	fs := []c15Fault{{}}

	for _, k := range []string{"map-notfound", "map-error", "newimporter-error", "save-error", "merge-error"} {
		for p := int64(0); p < count; p++ {
			fs = append(fs, c15Fault{kind: k, pos: p})
		}
	}

	batches := (count + limit - 1) / limit
	for p := int64(0); p < batches; p++ {
		fs = append(fs, c15Fault{kind: "flush-error", pos: p})
	}

	return fs
}

func TestVerifC15(t *testing.T) {
	r := vlib.Start("C15")
	defer r.Finish()

	r.Rule("every (from, count, batchlimit) in {0,5} x 1..N x 1..N+1, without fault and with every single fault " +
		"(5 kinds x every height, plus a failing mergeBlockWriterDatabases at every batch); each tuple is a distinct input; " +
		"non-trivial = count is a multiple of batchlimit (the last batch is a full one). " +
		"Cancellation of the caller's context: for every (from, count <= C, batchlimit <= C+1) the context given to ImportBlocks " +
		"is cancelled from inside one chosen stub call - before the start, inside blockMapf / newBlockImporter / blockItemf / " +
		"WriteItem / Save / the deferred merge function of every height, inside every mergeBlockWriterDatabases call - with block " +
		"maps that have 2 items, once with stubs that ignore the context and once with stubs that return ctx.Err() when their " +
		"context is already done; after a cancellation nil is legal only with the complete ledger. The real-importer part " +
		"cancels at the same sites (every item type) for its small ranges")
	r.Assume("recording isaac.BlockImporter stubs stand for the real importer: Save/merge/CancelImport only record; " +
		"the order in which the jobs of one batch run is left to the Go runtime, the oracle does not depend on it")
	r.Assume("in the stub part with item maps the blockItemf stub hands the item to the importer of that height itself " +
		"(the real callback chain blockItemf -> readers.ItemFromReader -> WriteItem runs in the real-importer part); " +
		"the stub Save refuses, like the real importer, when not every item was written")
	r.Assume("a cancellation is issued synchronously from inside a stub call; a cancellation that arrives while no stub call " +
		"is running is not generated")

	N := int64(vlib.Pick(r, 12, 40))
	if _, replaying := r.Replaying(); replaying { // replays run in the quick tier: search the thorough space for the recorded id
		N = 40
	}

	// cancellation of the caller's context at every stub call site: every count <= C, every batch limit <= C+1
	C := int64(vlib.Pick(r, 12, 40))
	if _, replaying := r.Replaying(); replaying {
		C = 40
	}

	r.Set("cancel_count_max", C)
	r.Set("count_max", N)
	r.Set("batchlimit_max", N+1)
	r.Set("from_heights", []int64{0, 5})

	item := 0

	for count := int64(1); count <= N; count++ {
		for limit := int64(1); limit <= N+1; limit++ {
			item++
			if !r.Mine(item) {
				continue
			}

			if r.Expired() {
				return
			}

			for _, from := range []base.Height{base.GenesisHeight, 5} {
				for _, fault := range append(c15Faults(count, limit), c15Cancels(count, limit, C)...) {
					id := fmt.Sprintf("from=%d,count=%d,limit=%d,fault=%s", from, count, limit, fault)
					if !r.Want(id) {
						continue
					}

					c15Case(r, id, from, count, limit, fault)
				}
			}
		}
	}

	c15Real(t, r)
}

// c15Real runs the same question against the real BlockImporter, the real
// local-fs block files and an in-memory leveldb Center database for small
// ranges: success must imply Database.LastBlockMap() == to and every BlockMap
// of the range present (the property's observation point).
func c15Real(t *testing.T, r *vlib.Run) {
	R := int64(vlib.Pick(r, 3, 6))
	if _, replaying := r.Replaying(); replaying {
		R = 6
	}

	r.Set("real_importer_count_max", R)

	mine := false
	item := 1 << 20

	for count := int64(1); count <= R; count++ {
		for limit := int64(1); limit <= count+1; limit++ {
			item++
			if r.Mine(item) {
				mine = true
			}
		}
	}

	if !mine {
		return
	}

	s := new(testImportBlocks)
	s.SetT(t)
	s.SetupSuite()
	s.SetupTest()
	defer s.TearDownTest()

	from := base.GenesisHeight
	fromdb := s.prepare(from, from+base.Height(R)-1)
	_ = fromdb

	item = 1 << 20

	for count := int64(1); count <= R; count++ {
		for limit := int64(1); limit <= count+1; limit++ {
			item++
			if !r.Mine(item) {
				continue
			}

			id := fmt.Sprintf("real,from=0,count=%d,limit=%d", count, limit)

			if r.Expired() {
				return
			}

			if r.Want(id) {
				c15RealCase(r, s, id, from, count, limit, c15Fault{})
			}

			for _, fault := range c15RealCancels(count, limit) {
				cid := id + ",fault=" + fault.String()
				if !r.Want(cid) {
					continue
				}

				if r.Expired() {
					return
				}

				c15RealCase(r, s, cid, from, count, limit, fault)
			}
		}
	}
}

func c15RealCase(r *vlib.Run, s *testImportBlocks, id string, from base.Height, count, limit int64, fault c15Fault) {
	to := from + base.Height(count) - 1

	// cancellation cases (fault.kind "cancel-*"): the caller's context is cancelled from inside the chosen call.
	// After a cancellation the job workers of ImportBlocks return without waiting for their running jobs, so
	// every callback passes a gate that is closed when ImportBlocks has returned: late calls touch nothing.
	ctx, cancel := context.WithCancel(context.Background())
	defer cancel()

	gate := &c15Gate{}
	env := &c15RealEnv{fault: fault, from: from, cancel: cancel}

	if fault.kind == "cancel-start" {
		env.fire()
	}

	importRoot, err := os.MkdirTemp("", "verif-c15-import")
	if err != nil {
		panic(err)
	}
	defer os.RemoveAll(importRoot)

	st := leveldbstorage.NewMemStorage()
	importdb, err := isaacdatabase.NewCenter(st, s.Encs, s.Enc, s.NewLeveldbPermanentDatabase(),
		func(height base.Height) (isaac.BlockWriteDatabase, error) {
			return isaacdatabase.NewLeveldbBlockWrite(height, st, s.Encs, s.Enc), nil
		},
	)
	if err != nil {
		panic(err)
	}

	var flushes int64

	ierr := ImportBlocks(
		ctx,
		from, to,
		limit,
		s.Readers,
		func(_ context.Context, height base.Height) (base.BlockMap, bool, error) {
			if !gate.enter() {
				return nil, false, errC15Late
			}
			defer gate.leave()

			env.at("cancel-map", height, "")

			rm, found, err := isaac.BlockItemReadersDecode[base.BlockMap](s.Readers.Item, height, base.BlockItemMap, nil)
			if err != nil {
				return nil, false, err
			}

			return rm, found, nil
		},
		func(_ context.Context, height base.Height, item base.BlockItemType, f func(io.Reader, bool, string) error) error {
			if !gate.enter() {
				return errC15Late
			}
			defer gate.leave()

			env.at("cancel-item", height, item)

			switch _, found, err := s.Readers.Item(height, item, func(ir isaac.BlockItemReader) error {
				return f(ir.Reader(), true, ir.Reader().Format)
			}); {
			case err != nil:
				return err
			case !found:
				return f(nil, false, "")
			default:
				return nil
			}
		},
		func(m base.BlockMap) (isaac.BlockImporter, error) {
			if !gate.enter() {
				return nil, errC15Late
			}
			defer gate.leave()

			height := m.Manifest().Height()

			bwdb, err := importdb.NewBlockWriteDatabase(height)
			if err != nil {
				return nil, err
			}

			im, err := NewBlockImporter(
				importRoot,
				s.Encs,
				m,
				bwdb,
				func(context.Context) error {
					err := importdb.MergeBlockWriteDatabase(bwdb)

					env.at("cancel-merge", height, "")

					return err
				},
				s.LocalParams.NetworkID(),
			)

			env.at("cancel-newimporter", height, "")

			if err != nil {
				return nil, err
			}

			return &c15RealImporter{BlockImporter: im, env: env, gate: gate, height: height}, nil
		},
		nil,
		func(context.Context) error {
			err := importdb.MergeAllPermanent()

			if fault.kind == "cancel-flush" && flushes == fault.pos {
				env.fire()
			}
			flushes++

			return err
		},
	)

	gate.close()

	r.Eval()
	r.Trace()
	r.StatesN(1)

	multiple := count%limit == 0
	if multiple {
		r.Nontrivial(id)
	}

	last := base.NilHeight

	switch m, found, err := importdb.LastBlockMap(); {
	case err != nil:
		panic(err)
	case found:
		last = m.Manifest().Height()
	}

	var missing []string

	for h := from; h <= to; h++ {
		switch _, found, err := importdb.BlockMap(h); {
		case err != nil:
			panic(err)
		case !found:
			missing = append(missing, h.String())
		}
	}

	sig := map[string]any{
		"count_multiple_of_limit": multiple,
		"single_batch":            count <= limit,
		"fault":                   fault.kind,
		"importer":                "real",
	}
	replay := map[string]any{"from": from.Int64(), "count": count, "limit": limit, "importer": "real"}

	if fault.isCancel() {
		sig["last_batch_blocks_ge_2"] = c15LastBatch(count, limit) >= 2
		replay["fault"] = fault.String()
		r.Add("real_cancel_cases", 1)
	}

	switch {
	case ierr != nil && fault.isCancel():
		if n := env.fired(); n != 1 {
			r.Outcome(fmt.Sprintf("real importer: %s site reached %d times", fault.kind, n))
			r.Add("cancel_site_not_reached_once", 1)

			break
		}

		r.Outcome("real importer: error after " + fault.kind)
		if count == 3 && limit == 2 && fault.pos == 1 {
			r.Sample(map[string]any{"case": id, "result": ierr.Error(), "last_block_map": last.Int64()})
		}
	case ierr != nil:
		sig["kind"] = "error-without-fault"
		r.Outcome("VIOLATION real importer: error-without-fault")
		r.Violation(id, sig, fmt.Sprintf("real importer: ImportBlocks(%d..%d, batchlimit=%d) returned %+v", from, to, limit, ierr), replay)
	case last != to || len(missing) > 0:
		sig["kind"] = "success-but-not-stored"
		r.Outcome("VIOLATION real importer: success-but-not-stored")
		r.Violation(id, sig,
			fmt.Sprintf("real importer: ImportBlocks(%d..%d, batchlimit=%d) returned nil but Database.LastBlockMap() height is %d and the block maps of heights [%s] are missing",
				from, to, limit, last, strings.Join(missing, ",")), replay)
	case fault.isCancel():
		if n := env.fired(); n != 1 {
			r.Outcome(fmt.Sprintf("real importer: %s site reached %d times", fault.kind, n))
			r.Add("cancel_site_not_reached_once", 1)

			break
		}

		r.Outcome("real importer: success after " + fault.kind + ", LastBlockMap == to")
		r.Sample(map[string]any{"case": id, "result": "nil", "last_block_map": last.Int64()})
	default:
		r.Outcome("real importer: success, LastBlockMap == to")
		r.Sample(map[string]any{"case": id, "result": "nil", "last_block_map": last.Int64()})
	}
}

func c15Case(r *vlib.Run, id string, from base.Height, count, limit int64, fault c15Fault) {
	res := c15Run(from, count, limit, fault)

	r.Eval()
	r.Trace()
	r.StatesN(1)

	multiple := count%limit == 0
	if multiple {
		r.Nontrivial(id)
	}

	sig := map[string]any{
		"count_multiple_of_limit": multiple,
		"single_batch":            count <= limit,
		"fault":                   fault.kind,
	}
	replay := map[string]any{"from": from.Int64(), "count": count, "limit": limit, "fault": fault.String()}

	if fault.isCancel() {
		sig["ctx_honoring_stubs"] = fault.honor
		sig["last_batch_blocks_ge_2"] = c15LastBatch(count, limit) >= 2
		r.Add("cancel_cases", 1)

		if c15LastBatch(count, limit) >= 2 {
			r.Add("cancel_cases_last_batch_ge_2", 1)
		}
	}

	switch {
	case res.err == nil && !res.complete:
		sig["kind"] = "success-but-not-stored"
		r.Outcome("VIOLATION success-but-not-stored")
		r.Violation(id, sig,
			fmt.Sprintf("ImportBlocks(%d..%d, batchlimit=%d, fault=%s) returned nil but %s (last stored height %d); events: %s",
				from, from+base.Height(count)-1, limit, fault, res.why, res.lastStored, res.events), replay)
	case res.err != nil && fault.kind == "":
		sig["kind"] = "error-without-fault"
		r.Outcome("VIOLATION error-without-fault")
		r.Violation(id, sig,
			fmt.Sprintf("ImportBlocks(%d..%d, batchlimit=%d) without any fault returned %v; events: %s",
				from, from+base.Height(count)-1, limit, res.err, res.events), replay)
	case fault.isCancel() && res.cancelFired != 1:
		// cannot happen on a tree where every stub call site is reached exactly once; not an oracle of the property
		r.Outcome(fmt.Sprintf("%s site reached %d times", fault.kind, res.cancelFired))
		r.Add("cancel_site_not_reached_once", 1)
	case fault.isCancel():
		c15CancelOutcome(r, id, count, limit, fault, res)
	case res.err == nil:
		r.Outcome("success, all stored")
		if multiple || (count > limit && count <= 5) {
			r.Sample(map[string]any{"case": id, "result": "nil", "last_stored": res.lastStored.Int64(), "events": res.events})
		}
	default:
		r.Outcome("error on fault " + fault.kind)
		if count == 3 && limit == 2 && fault.pos == 2 {
			r.Sample(map[string]any{"case": id, "result": res.err.Error(), "last_stored": res.lastStored.Int64(), "events": res.events})
		}
	}
}
