//go:build verif

package isaacblock

import (
	"context"
	"fmt"
	"sync"

	"github.com/pkg/errors"
	"github.com/spikeekips/mitum/base"
	"github.com/spikeekips/mitum/isaac"
	"github.com/spikeekips/mitum/util/valuehash"
	"github.com/spikeekips/mitum/zzverif/vlib"
)

// C15, cancellation of the caller's context as an environment deviation.
//
// The property: ImportBlocks reports success only if every block from..to has
// been stored and merged. A cancellation of the context given to ImportBlocks
// is a deviation of the environment just like an error returned by a stub, but
// it is not "returned" anywhere: it becomes visible to the code only where the
// code (or util.BatchWork / util.RunJobWorker below it) looks at the context.
// So after a cancellation two results are legal:
//   - an error, or
//   - nil with everything stored, merged and flushed (the same ledger rule as
//     in the fault-free run).
// nil with an incomplete ledger is the violation.
//
// The moment of the cancellation is forced deterministically: the chosen stub
// call cancels the context itself, from inside the call (no timers, no sleeps).
// Sites (one per run):
//   cancel-start           before ImportBlocks is called
//   cancel-map@p           inside blockMapf of height from+p            (before a map is handed out)
//   cancel-newimporter@p   inside newBlockImporter of height from+p     (after the map was fetched)
//   cancel-item@p          inside blockItemf of height from+p, first item
//   cancel-writeitem@p     inside the importer's WriteItem of height from+p, last item
//   cancel-save@p          inside the importer's Save of height from+p  (parallel Save phase of saveImporters)
//   cancel-merge@p         inside the deferred merge function of height from+p (sequential merge loop of saveImporters)
//   cancel-flush@k         inside the k-th mergeBlockWriterDatabases call (between two batches / after the last one)
// each with stubs that ignore the context and with stubs that honour it
// (return ctx.Err() when the context they are given is already done on entry).

var c15ItemTypes = []base.BlockItemType{base.BlockItemProposal, base.BlockItemVoteproofs}

var c15CancelKinds = []string{
	"cancel-map", "cancel-newimporter", "cancel-item", "cancel-writeitem", "cancel-save", "cancel-merge",
}

func (f c15Fault) isCancel() bool {
	return len(f.kind) > 7 && f.kind[:7] == "cancel-"
}

// fire cancels the caller's context at the chosen site; l.mu is held by the caller.
func (l *c15Ledger) fire(cancel func(), site string, height base.Height) {
	l.cancelFired++
	l.ev("CANCEL(%s%d)", site, height)

	cancel() // synchronous: every derived context of the job workers is done when this returns
}

// c15LastBatch: number of blocks in the last batch.
func c15LastBatch(count, limit int64) int64 {
	if count <= limit {
		return count
	}

	if r := count % limit; r != 0 {
		return r
	}

	return limit
}

// c15Cancels: every cancellation site for this (count, limit), x {stubs ignore the
// context, stubs honour it}, plus the fault-free run with item maps.
func c15Cancels(count, limit, max int64) []c15Fault {
	if count > max || limit > max+1 {
		return nil
	}

	fs := []c15Fault{{items: true}}

	batches := (count + limit - 1) / limit

	for _, honor := range []bool{false, true} {
		fs = append(fs, c15Fault{kind: "cancel-start", items: true, honor: honor})

		for _, k := range c15CancelKinds {
			for p := int64(0); p < count; p++ {
				fs = append(fs, c15Fault{kind: k, pos: p, items: true, honor: honor})
			}
		}

		for p := int64(0); p < batches; p++ {
			fs = append(fs, c15Fault{kind: "cancel-flush", pos: p, items: true, honor: honor})
		}
	}

	return fs
}

func c15CancelOutcome(r *vlib.Run, id string, count, limit int64, fault c15Fault, res c15Result) {
	mode := "ctx-ignoring stubs"
	if fault.honor {
		mode = "ctx-honouring stubs"
	}

	switch {
	case res.err == nil:
		r.Outcome(fmt.Sprintf("success after %s (%s), all stored", fault.kind, mode))
		r.Add("cancel_then_success_all_stored", 1)

		if count <= 5 && c15LastBatch(count, limit) >= 2 {
			r.Sample(map[string]any{"case": id, "result": "nil", "last_stored": res.lastStored.Int64(), "events": res.events})
		}
	default:
		r.Outcome(fmt.Sprintf("error after %s (%s)", fault.kind, mode))

		if count == 5 && limit == 3 && fault.pos == 3 {
			r.Sample(map[string]any{"case": id, "result": res.err.Error(), "last_stored": res.lastStored.Int64(), "events": res.events})
		}
	}
}

// ---- stub block maps with items

type c15ItemMap struct {
	base.DummyBlockMap
	items []base.BlockMapItem
}

func (m c15ItemMap) Item(t base.BlockItemType) (base.BlockMapItem, bool) {
	for i := range m.items {
		if m.items[i].Type() == t {
			return m.items[i], true
		}
	}

	return nil, false
}

func (m c15ItemMap) Items(f func(base.BlockMapItem) bool) {
	for i := range m.items {
		if !f(m.items[i]) {
			return
		}
	}
}

var c15ItemMapCache []base.BlockMap

func c15ItemMaps(to base.Height) []base.BlockMap {
	for h := base.Height(len(c15ItemMapCache)); h <= to; h++ {
		items := make([]base.BlockMapItem, len(c15ItemTypes))
		for i := range c15ItemTypes {
			items[i] = NewBlockMapItem(c15ItemTypes[i], fmt.Sprintf("c15-%d-%d", h, i))
		}

		c15ItemMapCache = append(c15ItemMapCache, c15ItemMap{
			DummyBlockMap: base.DummyBlockMap{M: base.NewDummyManifest(h, valuehash.NewSHA256([]byte(fmt.Sprintf("c15-%d", h))))},
			items:         items,
		})
	}

	return c15ItemMapCache
}

// ---- real-importer part

var errC15Late = errors.Errorf("c15: call after ImportBlocks has returned")

// c15Gate: callbacks running when ImportBlocks returns are waited for, later ones are refused.
type c15Gate struct {
	mu     sync.RWMutex
	closed bool
}

func (g *c15Gate) enter() bool {
	g.mu.RLock()

	if g.closed {
		g.mu.RUnlock()

		return false
	}

	return true
}

func (g *c15Gate) leave() { g.mu.RUnlock() }

func (g *c15Gate) close() {
	g.mu.Lock()
	g.closed = true
	g.mu.Unlock()
}

type c15RealEnv struct {
	mu     sync.Mutex
	fault  c15Fault
	from   base.Height
	cancel func()
	n      int
}

func (e *c15RealEnv) fire() {
	e.mu.Lock()
	e.n++
	e.mu.Unlock()

	e.cancel()
}

func (e *c15RealEnv) fired() int {
	e.mu.Lock()
	defer e.mu.Unlock()

	return e.n
}

func (e *c15RealEnv) at(kind string, height base.Height, item base.BlockItemType) {
	if e.fault.kind == kind && e.from+base.Height(e.fault.pos) == height && e.fault.item == item {
		e.fire()
	}
}

// c15RealImporter delegates to the real BlockImporter and cancels the caller's
// context right after the real WriteItem / Save of the chosen height did its work.
type c15RealImporter struct {
	isaac.BlockImporter
	env    *c15RealEnv
	gate   *c15Gate
	height base.Height
}

func (im *c15RealImporter) WriteItem(t base.BlockItemType, ir isaac.BlockItemReader) error {
	// always inside the gate of the blockItemf call that feeds it
	err := im.BlockImporter.WriteItem(t, ir)

	im.env.at("cancel-writeitem", im.height, t)

	return err
}

func (im *c15RealImporter) Save(ctx context.Context) (func(context.Context) error, error) {
	if !im.gate.enter() {
		return nil, errC15Late
	}
	defer im.gate.leave()

	deferred, err := im.BlockImporter.Save(ctx)

	im.env.at("cancel-save", im.height, "")

	return deferred, err
}

func (im *c15RealImporter) CancelImport(ctx context.Context) error {
	if !im.gate.enter() {
		return errC15Late
	}
	defer im.gate.leave()

	return im.BlockImporter.CancelImport(ctx)
}

var c15RealItemTypes = []base.BlockItemType{
	base.BlockItemProposal, base.BlockItemOperations, base.BlockItemOperationsTree,
	base.BlockItemStates, base.BlockItemStatesTree, base.BlockItemVoteproofs,
}

func c15RealCancels(count, limit int64) []c15Fault {
	fs := []c15Fault{{kind: "cancel-start"}}

	for p := int64(0); p < count; p++ {
		for _, k := range []string{"cancel-map", "cancel-newimporter", "cancel-save", "cancel-merge"} {
			fs = append(fs, c15Fault{kind: k, pos: p})
		}

		for _, k := range []string{"cancel-item", "cancel-writeitem"} {
			for _, t := range c15RealItemTypes {
				fs = append(fs, c15Fault{kind: k, pos: p, item: t})
			}
		}
	}

	batches := (count + limit - 1) / limit
	for p := int64(0); p < batches; p++ {
		fs = append(fs, c15Fault{kind: "cancel-flush", pos: p})
	}

	return fs
}
