//go:build verif

package leveldbstorage

import (
	"fmt"
	"testing"

	"github.com/spikeekips/mitum/zzverif/crashx"
	"github.com/spikeekips/mitum/zzverif/vlib"
)

func TestVerifZZ_SMOKE(t *testing.T) {
	r := vlib.Start("ZZ_SMOKE")
	defer r.Finish()
	cx := crashx.New()
	st, err := NewStorage(cx, nil)
	if err != nil {
		t.Fatal(err)
	}
	for i := 0; i < 3; i++ {
		if err := st.Put([]byte(fmt.Sprintf("k%d", i)), []byte("v"), nil); err != nil {
			t.Fatal(err)
		}
		cx.MarkNow(fmt.Sprintf("put%d", i))
	}
	ops := cx.Ops()
	marks := cx.Marks()
	_ = st.Close()
	for n := 0; n <= len(ops); n++ {
		for _, torn := range []bool{false, true} {
			if torn && (n == 0 || ops[n-1].Kind != "write") {
				continue
			}
			m, err := crashx.Materialize(ops, n, torn)
			if err != nil {
				t.Fatal(err)
			}
			st2, err := NewStorage(m, nil)
			if err != nil {
				fmt.Printf("n=%d torn=%v open error: %v\n", n, torn, err)
				continue
			}
			var got []string
			for i := 0; i < 3; i++ {
				_, found, _ := st2.Get([]byte(fmt.Sprintf("k%d", i)))
				got = append(got, fmt.Sprint(found))
			}
			acked := 0
			for _, mk := range marks {
				if mk.At <= n {
					acked++
				}
			}
			last := ""
			if n > 0 {
				last = ops[n-1].String()
			}
			fmt.Printf("n=%d torn=%v last=%q acked=%d got=%v\n", n, torn, last, acked, got)
			r.Eval()
			_ = st2.Close()
		}
	}
}
