//go:build verif

package isaacdatabase

// VerifCleanTick runs what startClean() runs on every tick of its ticker.
func (db *TempPool) VerifCleanTick() (int, error) {
	removed, err := db.cleanRemovedNewOperations()

	_, _ = db.cleanProposals()
	_, _ = db.cleanBallots()

	return removed, err
}
