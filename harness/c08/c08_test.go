//go:build verif

package isaacstates

import (
	"context"
	"fmt"
	"sort"
	"strings"
	"sync"
	"testing"
	"time"

	"github.com/spikeekips/mitum/base"
	"github.com/spikeekips/mitum/isaac"
	isaacdatabase "github.com/spikeekips/mitum/isaac/database"
	leveldbstorage "github.com/spikeekips/mitum/storage/leveldb"
	"github.com/spikeekips/mitum/util"
	"github.com/spikeekips/mitum/util/encoder"
	jsonenc "github.com/spikeekips/mitum/util/encoder/json"
	"github.com/spikeekips/mitum/util/valuehash"
	"github.com/spikeekips/mitum/zzverif/vlib"
	"github.com/spikeekips/mitum/zzverif/vsched"
	goleveldbopt "github.com/syndtr/goleveldb/leveldb/opt"
	goleveldbstorage "github.com/syndtr/goleveldb/leveldb/storage"
)

// C08: for each (stage point, suffrage-confirm flag) the local node signs and
// broadcasts at most one ballot fact - across the mimic-ballot path taken while
// syncing/broken and ballot re-broadcast, under any interleaving of incoming
// ballots.
//
// Engine S: States.mimicBallotFunc() (real), DefaultBallotBroadcaster (real)
// over a real TempPool on in-memory leveldb; broadcastFunc appends to a log.
// Threads deliver ballots of distinct sync-source nodes; a third actor
// re-broadcasts the stored ballot.

type c08stubHandler struct{ s StateType }

func (h c08stubHandler) state() StateType                               { return h.s }
func (h c08stubHandler) enter(StateType, switchContext) (func(), error) { return func() {}, nil }
func (h c08stubHandler) exit(switchContext) (func(), error)             { return func() {}, nil }
func (h c08stubHandler) newVoteproof(base.Voteproof) error              { return nil }
func (h c08stubHandler) allowedConsensus() bool                         { return true }
func (h c08stubHandler) whenSetAllowConsensus(bool)                     {}

type c08env struct {
	networkID base.NetworkID
	local     base.LocalNode
	nodes     []base.LocalNode
	encs      *encoder.Encoders
	enc       encoder.Encoder
}

func c08node(seed string) base.LocalNode {
	priv, err := base.NewMPrivatekeyFromSeed(strings.Repeat(seed, 40)[:40])
	if err != nil {
		panic(err)
	}
	return base.NewBaseLocalNode(base.DummyNodeHint, priv, base.NewStringAddress("node-"+seed))
}

func c08newEnv() *c08env {
	enc := jsonenc.NewEncoder()
	encs := encoder.NewEncoders(enc, enc)
	for _, d := range []encoder.DecodeDetail{
		{Hint: base.MPublickeyHint, Instance: &base.MPublickey{}},
		{Hint: base.StringAddressHint, Instance: base.StringAddress{}},
		{Hint: isaac.INITBallotFactHint, Instance: isaac.INITBallotFact{}},
		{Hint: isaac.ACCEPTBallotFactHint, Instance: isaac.ACCEPTBallotFact{}},
		{Hint: isaac.SuffrageConfirmBallotFactHint, Instance: isaac.SuffrageConfirmBallotFact{}},
		{Hint: isaac.INITBallotSignFactHint, Instance: isaac.INITBallotSignFact{}},
		{Hint: isaac.ACCEPTBallotSignFactHint, Instance: isaac.ACCEPTBallotSignFact{}},
		{Hint: isaac.INITBallotHint, Instance: isaac.INITBallot{}},
		{Hint: isaac.ACCEPTBallotHint, Instance: isaac.ACCEPTBallot{}},
		{Hint: isaac.INITVoteproofHint, Instance: isaac.INITVoteproof{}},
	} {
		if err := encs.AddDetail(d); err != nil {
			panic(err)
		}
	}
	return &c08env{
		networkID: base.NetworkID("c08-network"),
		local:     c08node("l"),
		nodes:     []base.LocalNode{c08node("a"), c08node("b"), c08node("c")},
		encs:      encs, enc: enc,
	}
}

// c08processed puts ops into the pool and lets them be filtered out at height, as already processed operations
// are when a proposal is made: they become removed-operation records of that height.
func c08processed(pool *isaacdatabase.TempPool, height base.Height, ops []base.Operation) {
	if len(ops) < 1 {
		return
	}
	for _, op := range ops {
		if added, err := pool.SetOperation(context.Background(), op); err != nil || !added {
			panic(fmt.Sprintf("set operation: added=%v err=%v", added, err))
		}
	}
	got, err := pool.OperationHashes(context.Background(), height, uint64(len(ops)),
		func(isaac.PoolOperationRecordMeta) (bool, error) { return false, nil })
	if err != nil || len(got) > 0 {
		panic(fmt.Sprintf("operation hashes: %d %v", len(got), err))
	}
}

func (e *c08env) ops(n int) []base.Operation {
	ops := make([]base.Operation, n)
	for i := range ops {
		fact := isaac.NewDummyOperationFact([]byte(fmt.Sprintf("c08-token-%d", i)), c08hash(fmt.Sprintf("c08-op-%d", i)))
		op, err := isaac.NewDummyOperation(fact, e.local.Privatekey(), e.networkID)
		if err != nil {
			panic(err)
		}
		ops[i] = op
	}
	return ops
}

func c08hash(s string) util.Hash { return valuehash.NewSHA256([]byte(s)) }

// ballot spec: kind (init|confirm|accept), point, fact variant (A|B), signer index
type c08spec struct {
	kind   string
	height int64
	round  uint64
	fact   string
	signer int
}

func (s c08spec) String() string {
	return fmt.Sprintf("%s@%d.%d/%s<-n%d", s.kind, s.height, s.round, s.fact, s.signer)
}

func (e *c08env) ballot(s c08spec) base.Ballot {
	point := base.RawPoint(s.height, s.round)
	var n base.LocalNode = e.local
	if s.signer >= 0 {
		n = e.nodes[s.signer]
	}
	switch s.kind {
	case "init", "confirm":
		var fact base.INITBallotFact
		if s.kind == "init" {
			fact = isaac.NewINITBallotFact(point, c08hash("prev"), c08hash("proposal-"+s.fact), nil)
		} else {
			fact = isaac.NewSuffrageConfirmBallotFact(point, c08hash("prev"), c08hash("proposal-"+s.fact), []util.Hash{c08hash("expel")})
		}
		sf := isaac.NewINITBallotSignFact(fact)
		if err := sf.NodeSign(n.Privatekey(), e.networkID, n.Address()); err != nil {
			panic(err)
		}
		return isaac.NewINITBallot(nil, sf, nil)
	case "accept":
		fact := isaac.NewACCEPTBallotFact(point, c08hash("proposal"), c08hash("newblock-"+s.fact), nil)
		sf := isaac.NewACCEPTBallotSignFact(fact)
		if err := sf.NodeSign(n.Privatekey(), e.networkID, n.Address()); err != nil {
			panic(err)
		}
		ivp := isaac.NewINITVoteproof(point)
		ivp.SetMajority(isaac.NewINITBallotFact(point, c08hash("prev"), c08hash("proposal"), nil)).
			SetThreshold(base.Threshold(100)).Finish()
		return isaac.NewACCEPTBallot(ivp, sf, nil)
	}
	panic(s.kind)
}

type c08scenario struct {
	state       StateType
	delivers    [][]c08spec // per thread: ballots of sync sources delivered to the mimic path
	rebroadcast bool
	// per thread: LOCAL ballots handed to BallotBroadcaster.Broadcast one after the other (what the consensus
	// handlers and the ballot broadcast timers do: broadcast, and re-broadcast on every tick)
	directs [][]c08spec
	// number of removed-operation records old enough to be cleaned by a pool clean tick (spec kind "tick" in directs)
	oldOps int
	ticks  bool
}

func (s c08scenario) id() string {
	var ts []string
	for _, d := range s.delivers {
		var xs []string
		for _, b := range d {
			xs = append(xs, b.String())
		}
		ts = append(ts, strings.Join(xs, ","))
	}
	id := fmt.Sprintf("%s|%s|rebroadcast=%v", s.state, strings.Join(ts, " || "), s.rebroadcast)
	if len(s.directs) > 0 {
		var ds []string
		for _, d := range s.directs {
			var xs []string
			for _, b := range d {
				xs = append(xs, b.String())
			}
			ds = append(ds, strings.Join(xs, ","))
		}
		id += "|direct=" + strings.Join(ds, " || ")
	}
	if s.ticks {
		id += fmt.Sprintf("|oldops=%d", s.oldOps)
	}
	return id
}

func c08path(s c08scenario) string {
	switch {
	case s.ticks && len(s.delivers) > 0:
		return "mimic-ballot+direct-broadcast+clean-tick"
	case s.ticks:
		return "direct-broadcast+clean-tick"
	case len(s.directs) > 0 && len(s.delivers) > 0:
		return "mimic-ballot+direct-broadcast"
	case len(s.directs) > 0:
		return "direct-broadcast"
	}
	return "mimic-ballot"
}

type c08sent struct {
	key    string // stage point + confirm flag
	fact   string
	signer string
}

func c08key(bl base.Ballot) string {
	return fmt.Sprintf("%s/confirm=%v", bl.Point().String(), isaac.IsSuffrageConfirmBallotFact(bl.SignFact().Fact()))
}

func c08build(e *c08env, s c08scenario, ballots map[string]base.Ballot, ops []base.Operation) vsched.Scenario {
	// small write buffer: goleveldb otherwise allocates and clears a 4 MiB memtable per Open (82% of the run time)
	lst, err := leveldbstorage.NewStorage(goleveldbstorage.NewMemStorage(), &goleveldbopt.Options{WriteBuffer: 64 << 10})
	if err != nil {
		panic(err)
	}
	pool, err := isaacdatabase.NewTempPool(lst, e.encs, e.enc, 0)
	if err != nil {
		panic(err)
	}
	if s.ticks {
		// operations processed (filtered out) at an old height and at the current one: removed-operation records,
		// the old ones are what the next clean tick removes
		c08processed(pool, 30, ops[:s.oldOps])
		c08processed(pool, 33, ops[s.oldOps:])
	}
	var sent []c08sent
	var sentMu sync.Mutex // REAL mutex (this file is not instrumented): uncontended under the scheduler; needed in the free-running -race pass
	bb := NewDefaultBallotBroadcaster(e.local.Address(), pool, func(bl base.Ballot) error {
		sentMu.Lock()
		sent = append(sent, c08sent{key: c08key(bl), fact: bl.SignFact().Fact().Hash().String(), signer: bl.SignFact().Node().String()})
		sentMu.Unlock()
		return nil
	})
	args := NewStatesArgs()
	args.BallotBroadcaster = bb
	args.IsInSyncSourcePoolFunc = func(base.Address) bool { return true }
	args.AllowConsensus = true
	st, err := NewStates(e.networkID, e.local, args)
	if err != nil {
		panic(err)
	}
	st.cs = c08stubHandler{s: s.state}
	mimic := st.mimicBallotFunc()

	var roots []func()
	for _, d := range s.delivers {
		d := d
		roots = append(roots, func() {
			for _, spec := range d {
				mimic(ballots[spec.String()])
			}
		})
	}
	for _, d := range s.directs {
		d := d
		roots = append(roots, func() {
			for _, spec := range d {
				if spec.kind == "tick" {
					vsched.Point("clean-tick", nil)
					if _, err := pool.VerifCleanTick(); err != nil {
						panic(err)
					}
					continue
				}
				vsched.Point("direct-broadcast", nil)
				_ = bb.Broadcast(ballots[spec.String()])
			}
		})
	}
	if s.rebroadcast {
		first := s.delivers[0][0]
		roots = append(roots, func() {
			vsched.Point("rebroadcast", nil)
			bl := ballots[first.String()]
			switch stored, found, err := bb.Ballot(bl.Point().Point, bl.Point().Stage(), isaac.IsSuffrageConfirmBallotFact(bl.SignFact().Fact())); {
			case err != nil:
				panic(err)
			case found:
				_ = bb.Broadcast(stored)
			}
		})
	}
	summarize := func() (map[string]map[string]bool, string) {
		by := map[string]map[string]bool{}
		for _, x := range sent {
			if x.signer != e.local.Address().String() {
				continue
			}
			if by[x.key] == nil {
				by[x.key] = map[string]bool{}
			}
			by[x.key][x.fact] = true
		}
		var parts []string
		for k, fs := range by {
			parts = append(parts, fmt.Sprintf("%s:%d", k, len(fs)))
		}
		sort.Strings(parts)
		return by, fmt.Sprintf("sent=%d %s", len(sent), strings.Join(parts, " "))
	}
	return vsched.Scenario{
		Roots:   roots,
		Outcome: func(*vsched.Exec) string { _, o := summarize(); return o },
		Check: func(x *vsched.Exec) *vsched.Fail {
			defer pool.DeepClose()
			if x.Panic != nil {
				return &vsched.Fail{Sig: map[string]any{"kind": "panic"}, Detail: fmt.Sprintf("%v\n%s", x.Panic, x.PanicStack)}
			}
			if x.Deadlock {
				return &vsched.Fail{Sig: map[string]any{"kind": "deadlock"}, Detail: strings.Join(x.Blocked, ";")}
			}
			by, sum := summarize()
			for k, fs := range by {
				if len(fs) > 1 {
					return &vsched.Fail{
						Sig:    map[string]any{"kind": "equivocation", "path": c08path(s), "rebroadcast_thread": s.rebroadcast, "point_older_than_pool_retention": strings.Contains(k, "height=30")},
						Detail: fmt.Sprintf("local node broadcast %d different ballot facts for %s: %s | %s", len(fs), k, sum, s.id()),
					}
				}
			}
			// the pool's ballot for a key must be the one that was broadcast
			for _, d := range s.delivers {
				for _, spec := range d {
					bl := ballots[spec.String()]
					stored, found, err := pool.Ballot(bl.Point().Point, bl.Point().Stage(), isaac.IsSuffrageConfirmBallotFact(bl.SignFact().Fact()))
					if err != nil {
						return &vsched.Fail{Sig: map[string]any{"kind": "pool-error"}, Detail: err.Error()}
					}
					fs := by[c08key(bl)]
					if found && len(fs) > 0 && !fs[stored.SignFact().Fact().Hash().String()] {
						return &vsched.Fail{Sig: map[string]any{"kind": "stored-ballot-not-the-broadcast-one"},
							Detail: fmt.Sprintf("pool keeps fact %s for %s but broadcast were %v | %s", stored.SignFact().Fact().Hash(), c08key(bl), fs, s.id())}
					}
				}
			}
			return nil
		},
	}
}

func TestVerifC08(t *testing.T) {
	r := vlib.Start("C08")
	defer r.Finish()
	r.Rule("scenario = node state (Syncing|Broken) x 2-3 delivering threads with ballots of distinct sync-source nodes (same/different stage point, same/conflicting fact, INIT / suffrage-confirm INIT / ACCEPT) x optional re-broadcast thread; all interleavings within the preemption bound on the real mimicBallotFunc + DefaultBallotBroadcaster + TempPool; non-trivial = more than one observable outcome; states = distinct (scenario, outcome)")
	bound := vlib.Pick(r, 1, 2)
	r.Set("preemption_bound", bound)
	e := c08newEnv()

	var scs []c08scenario
	for _, state := range []StateType{StateSyncing, StateBroken} {
		for _, kind := range []string{"init", "confirm", "accept"} {
			a := c08spec{kind, 33, 0, "A", 0}
			for _, second := range []c08spec{
				{kind, 33, 0, "B", 1}, // same stage point, conflicting fact
				{kind, 33, 0, "A", 1}, // same stage point, same fact
				{kind, 33, 1, "B", 1}, // other round
				{kind, 34, 0, "B", 1}, // other height
			} {
				for _, rb := range []bool{false, true} {
					scs = append(scs, c08scenario{state: state, delivers: [][]c08spec{{a}, {second}}, rebroadcast: rb})
				}
			}
			// mixed kinds on the same point
			if kind == "init" {
				scs = append(scs, c08scenario{state: state, delivers: [][]c08spec{{a}, {{"confirm", 33, 0, "B", 1}}}})
				scs = append(scs, c08scenario{state: state, delivers: [][]c08spec{{a}, {{"accept", 33, 0, "B", 1}}}})
			}
			// three deliverers, and two ballots per thread
			scs = append(scs, c08scenario{state: state, delivers: [][]c08spec{{a}, {{kind, 33, 0, "B", 1}}, {{kind, 33, 0, "C", 2}}}})
			scs = append(scs, c08scenario{state: state, delivers: [][]c08spec{{a, {kind, 33, 1, "A", 0}}, {{kind, 33, 1, "B", 1}, {kind, 33, 0, "B", 1}}}})
		}
	}
	// direct broadcasts of local ballots (handlers / broadcast timers): a refused ballot must stay refused on every retry
	for _, kind := range []string{"init", "accept"} {
		A, B := c08spec{kind, 33, 0, "A", -1}, c08spec{kind, 33, 0, "B", -1}
		other := c08spec{kind, 33, 1, "B", -1}
		for _, ds := range [][][]c08spec{
			{{A, B, B}},        // B refused, retried
			{{A, B, A, B, B}},  // alternating ticks
			{{A, A}, {B, B}},   // two timers ticking concurrently
			{{A}, {B, B, B}},   // late ballot retried three times
			{{A, other, B, B}}, // another stage point in between
			{{B, A, A}, {A, B}},
		} {
			scs = append(scs, c08scenario{state: StateSyncing, directs: ds})
		}
		// mimic path stores A, a handler ballot B is then broadcast and re-broadcast by its timer
		scs = append(scs, c08scenario{state: StateSyncing, delivers: [][]c08spec{{{kind, 33, 0, "A", 0}}}, directs: [][]c08spec{{B, B}}})
		scs = append(scs, c08scenario{state: StateSyncing, delivers: [][]c08spec{{{kind, 33, 0, "A", 0}}, {{kind, 33, 0, "C", 1}}}, directs: [][]c08spec{{B, B, B}}})
	}
	// pool clean ticks (the body of TempPool.startClean) between broadcasts: the pool must not forget the local
	// ballot of a stage point it still keeps (heights top-2..top), however many old removed-operation records the
	// cleaner has to page through (one delete batch = 333 deletes = 167 records)
	tick := c08spec{kind: "tick"}
	for _, kind := range []string{"init", "accept"} {
		A, B := c08spec{kind, 33, 0, "A", -1}, c08spec{kind, 33, 0, "B", -1}
		olds := []int{0, 3, 167, 168, 200}
		if kind == "accept" {
			olds = []int{0, 168}
		}
		for _, old := range olds {
			scs = append(scs,
				c08scenario{state: StateSyncing, directs: [][]c08spec{{A, tick, B, B}}, ticks: true, oldOps: old},
				c08scenario{state: StateSyncing, directs: [][]c08spec{{A, tick, A, B}}, ticks: true, oldOps: old},
				c08scenario{state: StateSyncing, directs: [][]c08spec{{A, B}, {tick}}, ticks: true, oldOps: old},
				c08scenario{state: StateSyncing, delivers: [][]c08spec{{{kind, 33, 0, "A", 0}}}, directs: [][]c08spec{{tick, B}}, ticks: true, oldOps: old},
			)
		}
		// the oldest height the ballot cleaner keeps (top-2)
		A31, B31 := c08spec{kind, 31, 0, "A", -1}, c08spec{kind, 31, 0, "B", -1}
		X32, Y33 := c08spec{kind, 32, 0, "A", -1}, c08spec{kind, 33, 0, "A", -1}
		scs = append(scs, c08scenario{state: StateSyncing, directs: [][]c08spec{{A31, X32, Y33, tick, B31, B31}}, ticks: true})
		// a stage point older than what the pool keeps (top-3): recorded as a known finding, see known_findings.json
		A30, B30 := c08spec{kind, 30, 0, "A", -1}, c08spec{kind, 30, 0, "B", -1}
		scs = append(scs, c08scenario{state: StateSyncing, directs: [][]c08spec{{A30, Y33, tick, B30}}, ticks: true})
	}
	r.Set("scenarios_enumerated", len(scs))
	for i, s := range scs {
		if !r.Mine(i) || r.Expired() {
			continue
		}
		s := s
		id := s.id()
		// ballots are signed once per scenario (signing time differs between runs, but it is data only)
		ballots := map[string]base.Ballot{}
		for _, d := range append(append([][]c08spec{}, s.delivers...), s.directs...) {
			for _, spec := range d {
				if spec.kind != "tick" {
					ballots[spec.String()] = e.ballot(spec)
				}
			}
		}
		var ops []base.Operation
		if s.ticks {
			ops = e.ops(s.oldOps + 3)
		}
		build := func() vsched.Scenario { return c08build(e, s, ballots, ops) }
		if rid, rp := r.Replaying(); rp {
			k := strings.LastIndex(rid, "#")
			if k < 0 || rid[:k] != id {
				continue
			}
			sc := build()
			x := vsched.Run(vsched.Options{Prefix: vsched.ParseChoices(rid[k+1:])}, sc.Roots...)
			r.Trace()
			if f := sc.Check(x); f != nil {
				r.Violation(rid, f.Sig, f.Detail, nil)
			}
			continue
		}
		res := vsched.Explore(vsched.Config{Name: id, Bound: bound, Build: build, Expired: r.Expired, MaxFound: 2, Horizon: 5000})
		if res.EngineError != "" {
			panic("engine error in " + id + ": " + res.EngineError)
		}
		r.TraceN(res.Executions)
		r.TransitionN(res.Points)
		r.EvalN(res.Executions)
		r.Add("scenarios", 1)
		if res.Capped != "" {
			r.Cap(res.Capped)
		} else {
			r.Min("preemption_bound_completed", int64(res.BoundCompleted))
		}
		r.Max("max_points_per_execution", int64(res.MaxPoints))
		if len(res.Outcomes) > 1 {
			r.Nontrivial(id)
		}
		for o := range res.Outcomes {
			r.State(id + "=>" + o)
			r.Outcome(o)
		}
		for _, f := range res.Found {
			r.Violation(id+"#"+vsched.ChoicesString(f.Choices), f.Fail.Sig, f.Fail.Detail+fmt.Sprintf(" (preemptions=%d)", f.Preempt), nil)
		}
		r.Sample(map[string]any{"scenario": id, "executions": res.Executions, "distinct_outcomes": len(res.Outcomes)})
	}
}

// TestVerifC08Race: free-running pass of the scenario bodies under `go test -race` (thorough tier only); checks
// the assumption that lock operations are the only interaction points on the mimic-ballot path. Never a verdict.
func TestVerifC08Race(t *testing.T) {
	r := vlib.Start("C08")
	defer r.Finish()
	e := c08newEnv()
	n := 0
	for _, kind := range []string{"init", "confirm", "accept"} {
		s := c08scenario{state: StateSyncing, delivers: [][]c08spec{{{kind, 33, 0, "A", 0}}, {{kind, 33, 0, "B", 1}}, {{kind, 33, 0, "C", 2}}}, rebroadcast: true}
		ballots := map[string]base.Ballot{}
		for _, d := range s.delivers {
			for _, spec := range d {
				ballots[spec.String()] = e.ballot(spec)
			}
		}
		for rep := 0; rep < 6; rep++ {
			sc := c08build(e, s, ballots, nil)
			if !vsched.RunNative(20*time.Second, sc.Roots...) {
				t.Fatalf("free-running scenario %s did not finish", s.id())
			}
			time.Sleep(time.Millisecond) // let the mimic vote goroutine finish
			_ = sc.Check(&vsched.Exec{})
			n++
		}
	}
	r.Add("race_pass_free_running_executions", int64(n))
}
