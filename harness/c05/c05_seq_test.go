//go:build verif

package isaacstates

import (
	"fmt"
	"sort"
	"strconv"
	"strings"
	"testing"
	"time"

	"github.com/spikeekips/mitum/base"
	"github.com/spikeekips/mitum/isaac"
	"github.com/spikeekips/mitum/zzverif/vlib"
)

// C05, sequential half (engine Q): breadth-first search with state dedup over event
// histories (votes for several consecutive stage points incl. suffrage-confirm votes and
// ballots with embedded voteproofs, Count, SetLastPoint, Voted/MissingNodes queries, the
// ticker body, time passing) on the REAL Ballotbox; after every transition
//   I1  every live key's record carries the stage point and suffrage-confirm flag the key encodes
//   I2  no record identity occurs twice over live map + awaiting-recycle list + pool free list,
//       a record is never put into the pool while it is reachable from the live map or while it is
//       already in the pool (released exactly once)
//   I3  a key whose stage point the box has moved past is gone from the live map after at most two
//       cleanup cycles, and Voted() returns nothing for a released point (no longer consulted)
//   I4  projection differential: the records, Voted(), the return value of the event and the
//       voteproofs of stage point p equal those of a fresh box that was fed only p's events (plus the
//       same control events and the same last-point trajectory)
//   I5  a record handed out for a new key carries no residue of its previous use

type c05ev struct {
	kind string // vote count setlast known voted missing tick timepass
	v    c05vote
	p    c05sp
	maj  bool
	sc   bool
}

func (e c05ev) id() string {
	switch e.kind {
	case "vote":
		return e.v.id()
	case "setlast":
		s := "L:" + e.p.String()
		if e.maj {
			s += "m"
		}
		if e.sc {
			s += "s"
		}
		return s
	case "voted", "missing":
		return e.kind + ":" + e.p.String()
	default:
		return e.kind
	}
}

// stage point an event belongs to (ok=false: control event)
func (e c05ev) point() (c05sp, bool) {
	switch e.kind {
	case "vote":
		return e.v.p, true
	case "voted", "missing":
		return e.p, true
	}
	return c05sp{}, false
}

type c05scenario struct {
	name   string
	n      int
	th     base.Threshold
	known  bool // suffrage known from the start
	prefix []c05ev
	events []c05ev
	depth  [2]int // quick, thorough
	points []c05sp
}

type c05vpSum struct {
	point    c05sp
	result   string
	majority string
	sfs      string
	expels   int
	embedded string
}

func (s c05vpSum) String() string {
	return fmt.Sprintf("%s/%s/%s/[%s]/x%d/%s", s.point, s.result, s.majority, s.sfs, s.expels, s.embedded)
}

type c05step struct {
	ret     string
	emitted []c05vpSum
	last    isaac.LastPoint
	panic   string
}

type c05world struct {
	sc        *c05scenario
	fx        *c05fx
	box       *Ballotbox
	known     bool
	labels    map[*voterecords]int
	submitted map[string]map[string]bool // key -> sign fact menu ids submitted for it
	survived  map[string]int             // live key -> cleanup cycles survived while the box was past it
	released  map[string]bool            // keys seen live earlier and gone now
	cleans    int
	reuses    int
	putLog    []string
	viol      []c05viol
	steps     []c05step
}

type c05viol struct {
	sig    map[string]any
	detail string
}

var c05cur *c05world

func init() {
	orig := voterecordsPoolPut
	voterecordsPoolPut = func(vr *voterecords) {
		if c05cur != nil {
			c05cur.onPut(vr)
		}
		orig(vr)
	}
}

func (w *c05world) label(vr *voterecords) int {
	if l, ok := w.labels[vr]; ok {
		return l
	}
	l := len(w.labels) + 1
	w.labels[vr] = l
	return l
}

func (w *c05world) fail(sig map[string]any, format string, a ...any) {
	w.viol = append(w.viol, c05viol{sig: sig, detail: fmt.Sprintf(format, a...)})
}

// onPut runs right before a record goes into the pool (inside clean())
func (w *c05world) onPut(vr *voterecords) {
	w.putLog = append(w.putLog, fmt.Sprintf("r%d", w.label(vr)))
	for _, it := range c05poolItems() {
		if it == vr {
			w.fail(map[string]any{"kind": "released-twice", "where": "pool-put", "confirm_record": vr.isc},
				"record r%d (last used for %s, confirm=%v) is put into the pool while it already is in the pool free list", w.label(vr), c05spString(vr.sp), vr.isc)
		}
	}
	for k, live := range w.box.vrs.Map() {
		if live == vr {
			w.fail(map[string]any{"kind": "released-while-live", "where": "pool-put", "confirm_key": strings.HasPrefix(k, "sf-")},
				"record r%d is put into the pool (and wiped) while the live map still holds it under key %q", w.label(vr), k)
		}
	}
}

func c05spString(sp base.StagePoint) string {
	if sp.IsZero() {
		return "ZERO"
	}
	return c05spOf(sp).String()
}

func c05newWorld(sc *c05scenario, fx *c05fx) *c05world {
	w := &c05world{sc: sc, fx: fx, known: sc.known, labels: map[*voterecords]int{}, submitted: map[string]map[string]bool{},
		survived: map[string]int{}, released: map[string]bool{}}
	w.box = fx.freshBox(func(base.Height) (base.Suffrage, bool, error) {
		if !w.known {
			return nil, false, nil
		}
		return fx.suf, true, nil
	})
	return w
}

func (w *c05world) summarize(vp base.Voteproof) c05vpSum {
	s := c05vpSum{point: c05spOf(vp.Point()), result: vp.Result().String()}
	if m := vp.Majority(); m != nil {
		s.majority = m.Hash().String()[:8]
	}
	var ids []string
	for _, sf := range vp.SignFacts() {
		ids = append(ids, w.fx.sfName(sf))
	}
	sort.Strings(ids)
	s.sfs = strings.Join(ids, ",")
	if x, ok := vp.(base.HasExpels); ok {
		s.expels = len(x.Expels())
	}
	s.embedded = w.fx.vpid[vp.ID()]
	return s
}

type c05recSum struct {
	label               int
	sp                  string
	isc                 bool
	voted, ballots, vps string
	expels              string
	finished, held      bool
}

func (r c05recSum) content() string {
	return fmt.Sprintf("%s|sc=%v|v[%s]|b[%s]|p[%s]|x[%s]|fin=%v|held=%v", r.sp, r.isc, r.voted, r.ballots, r.vps, r.expels, r.finished, r.held)
}

func (w *c05world) recSum(vr *voterecords) c05recSum {
	r := c05recSum{label: w.label(vr), sp: c05spString(vr.sp), isc: vr.isc, finished: vr.vp != nil, held: !vr.countAfter.IsZero()}
	ids := func(m map[string]base.BallotSignFact) string {
		var out []string
		for node, sf := range m {
			out = append(out, node+"="+w.fx.sfName(sf))
		}
		sort.Strings(out)
		return strings.Join(out, ",")
	}
	r.voted, r.ballots = ids(vr.voted), ids(vr.ballots)
	var vs, xs []string
	for node, vp := range vr.vps {
		vs = append(vs, node+"="+w.fx.vpid[vp.ID()])
	}
	for node, ops := range vr.expels {
		xs = append(xs, node+"="+strconv.Itoa(len(ops)))
	}
	sort.Strings(vs)
	sort.Strings(xs)
	r.vps, r.expels = strings.Join(vs, ","), strings.Join(xs, ",")
	return r
}

// apply executes one event on the real box and returns its observable result
func (w *c05world) apply(e c05ev) (ret string, emitted []base.Voteproof) {
	box := w.box
	switch e.kind {
	case "vote":
		sf, bl := w.fx.build(e.v)
		key := c05key(e.v.p, e.v.sc)
		if w.submitted[key] == nil {
			w.submitted[key] = map[string]bool{}
		}
		w.submitted[key][w.fx.sfName(sf)] = true
		var voted bool
		var deferred func() []base.Voteproof
		var err error
		if bl == nil {
			// body of VoteSignFact, the deferred count run synchronously
			voted, deferred, err = box.vote(sf, nil, nil)
		} else if box.checkBallot(bl) {
			// body of Vote, the deferred count run synchronously
			var expels []base.SuffrageExpelOperation
			if x, ok := bl.(base.HasExpels); ok {
				expels = x.Expels()
			}
			voted, deferred, err = box.vote(bl.SignFact(), bl.Voteproof(), expels)
		}
		if err != nil {
			return "err:" + err.Error(), c05drain(box)
		}
		if deferred != nil {
			_ = deferred()
		}
		ret = strconv.FormatBool(voted)
	case "count":
		ret = strconv.FormatBool(box.Count())
	case "setlast":
		lp, err := isaac.NewLastPoint(e.p.sp(), e.maj, e.sc)
		if err != nil {
			panic(err)
		}
		ret = strconv.FormatBool(box.SetLastPoint(lp))
	case "known":
		w.known = true
	case "voted":
		var addrs []base.Address
		for _, n := range w.fx.nodes {
			addrs = append(addrs, n.Address())
		}
		addrs = append(addrs, w.fx.outsider.Address())
		var ids []string
		for _, sf := range box.Voted(e.p.sp(), addrs) {
			ids = append(ids, w.fx.sfName(sf))
		}
		sort.Strings(ids)
		ret = strings.Join(ids, ",")
	case "missing":
		nodes, ok, err := box.MissingNodes(e.p.sp())
		var ids []string
		for _, a := range nodes {
			ids = append(ids, a.String())
		}
		sort.Strings(ids)
		ret = fmt.Sprintf("%s|%v|%v", strings.Join(ids, ","), ok, err)
	case "tick":
		box.countHoldeds()
	case "timepass":
		// time.Now() is only compared with record.countAfter + box.countAfter (1 h): moving
		// every hold timestamp 2 h into the past is the passing of 2 h
		for _, vr := range box.vrs.Map() {
			if !vr.countAfter.IsZero() {
				vr.countAfter = vr.countAfter.Add(-2 * time.Hour)
			}
		}
	default:
		panic("unknown event " + e.kind)
	}
	return ret, c05drain(box)
}

// step = apply + bookkeeping + invariants I1, I2, I3, I5. check=false while replaying an already checked prefix.
func (w *c05world) step(e c05ev, check bool) c05step {
	c05cur = w
	defer func() { c05cur = nil }()
	box := w.box
	before := box.vrs.Map()
	lastBefore := box.LastPoint()
	t0 := time.Now()
	var st c05step
	var emitted []base.Voteproof
	if e.kind == "vote" {
		_, _ = w.fx.build(e.v) // fixture objects are built (and cached) outside the panic guard
	}
	if p, msg := vlib.Catch(func() { st.ret, emitted = w.apply(e) }); p {
		st.panic = msg
		st.ret = "PANIC"
		if check {
			site := "other"
			switch {
			case strings.Contains(msg, "nil pointer") || strings.Contains(msg, "invalid memory address"):
				site = "nil-deref"
			}
			w.fail(map[string]any{"kind": "panic", "event": e.kind, "class": site}, "event %s panicked: %s", e.id(), msg)
		}
	}
	for _, vp := range emitted {
		st.emitted = append(st.emitted, w.summarize(vp))
	}
	st.last = box.LastPoint()
	w.steps = append(w.steps, st)
	// a cleanup cycle runs exactly when countVoterecords emitted (scenarios of this harness emit through
	// countVoterecords, through the unvalidated-ballot path or the ticker body; only the first cleans)
	cleaned := len(emitted) > 0 && e.kind != "tick"
	if cleaned {
		w.cleans++
	}
	live := box.vrs.Map()
	removed, _ := box.removed.Value()
	pool := c05poolItems()
	last := st.last
	for k := range before {
		if _, ok := live[k]; !ok {
			w.released[k] = true
		}
	}
	// I3 bookkeeping
	for k, vr := range live {
		ksp, _, ok := c05parseKey(k)
		if !ok {
			continue
		}
		if cleaned && !last.IsZero() && ksp.sp().Compare(last.StagePoint) < 0 && !lastBefore.IsZero() && ksp.sp().Compare(lastBefore.StagePoint) < 0 {
			w.survived[k]++
		}
		_ = vr
	}
	if e.kind == "vote" {
		key := c05key(e.v.p, e.v.sc)
		if vr, ok := live[key]; ok {
			if _, was := before[key]; !was && c05contains(w.putLog, fmt.Sprintf("r%d", w.label(vr))) {
				w.reuses++
			}
		}
	}
	if !check {
		return st
	}
	// I1
	for k, vr := range live {
		ksp, ksc, ok := c05parseKey(k)
		if !ok {
			w.fail(map[string]any{"kind": "bad-key"}, "unparsable live key %q", k)
			continue
		}
		if vr.sp.IsZero() || c05spOf(vr.sp) != ksp || vr.isc != ksc {
			w.fail(map[string]any{"kind": "key-record-mismatch", "confirm_key": ksc, "record_wiped": vr.sp.IsZero()},
				"live key %q holds record r%d whose stage point is %s confirm=%v (after %s)", k, w.label(vr), c05spString(vr.sp), vr.isc, e.id())
		}
	}
	// I2
	seen := map[*voterecords]string{}
	note := func(vr *voterecords, where string) {
		if prev, ok := seen[vr]; ok {
			a, b := prev, where
			if b < a {
				a, b = b, a
			}
			w.fail(map[string]any{"kind": "record-identity-twice", "places": c05place(a) + "+" + c05place(b)},
				"record r%d occurs twice: %s and %s (after %s)", w.label(vr), prev, where, e.id())
			return
		}
		seen[vr] = where
	}
	var lks []string
	for k := range live {
		lks = append(lks, k)
	}
	sort.Strings(lks)
	for _, k := range lks {
		note(live[k], "live:"+k)
	}
	for i, vr := range removed {
		note(vr, fmt.Sprintf("removed:%d", i))
	}
	for i, vr := range pool {
		note(vr, fmt.Sprintf("pool:%d", i))
	}
	// I3
	for k, n := range w.survived {
		if _, ok := live[k]; ok && n >= 2 {
			_, ksc, _ := c05parseKey(k)
			w.fail(map[string]any{"kind": "not-released", "confirm_key": ksc},
				"key %q is still in the live map after %d cleanup cycles that ran while the last point (%s) was past it", k, n, c05lpString(last))
		}
	}
	var addrs []base.Address
	for _, n := range w.fx.nodes {
		addrs = append(addrs, n.Address())
	}
	for _, p := range w.sc.points {
		got := box.Voted(p.sp(), addrs)
		key := c05key(p, false)
		for _, sf := range got {
			f := sf.Fact().(base.BallotFact)
			if !f.Point().Equal(p.sp()) {
				w.fail(map[string]any{"kind": "voted-returns-foreign-vote"}, "Voted(%s) returned %s (a sign fact of %s)", p, w.fx.sfName(sf), c05spString(f.Point()))
			} else if !w.submitted[key][w.fx.sfName(sf)] {
				w.fail(map[string]any{"kind": "voted-returns-unsubmitted-vote"}, "Voted(%s) returned %s which was never submitted for that point", p, w.fx.sfName(sf))
			}
		}
		if _, ok := live[key]; !ok && w.released[key] && len(got) > 0 {
			w.fail(map[string]any{"kind": "released-record-consulted"}, "Voted(%s) returned %d votes although the key was released", p, len(got))
		}
	}
	// emitted voteproofs only carry sign facts of their own stage point that were submitted for it
	for _, vp := range emitted {
		if w.fx.vpid[vp.ID()] != "" {
			continue // embedded voteproof handed through
		}
		for _, sf := range vp.SignFacts() {
			f := sf.Fact().(base.BallotFact)
			k := c05key(c05spOf(vp.Point()), isaac.IsSuffrageConfirmBallotFact(f))
			if !f.Point().Equal(vp.Point()) || !w.submitted[k][w.fx.sfName(sf)] {
				w.fail(map[string]any{"kind": "voteproof-has-foreign-vote"}, "voteproof of %s contains %s (fact point %s) which was not submitted for that point",
					c05spString(vp.Point()), w.fx.sfName(sf), c05spString(f.Point()))
			}
		}
	}
	// I5: a record that appeared under a new key in this event
	if e.kind == "vote" {
		key := c05key(e.v.p, e.v.sc)
		if vr, ok := live[key]; ok {
			if _, was := before[key]; !was {
				sf, _ := w.fx.build(e.v)
				name := w.fx.sfName(sf)
				residue := ""
				for node, x := range vr.voted {
					if w.fx.sfName(x) != name {
						residue += " voted[" + node + "]=" + w.fx.sfName(x)
					}
				}
				for node, x := range vr.ballots {
					if w.fx.sfName(x) != name {
						residue += " ballots[" + node + "]=" + w.fx.sfName(x)
					}
				}
				if len(vr.vps) > 1 || len(vr.expels) > 1 {
					residue += fmt.Sprintf(" vps=%d expels=%d", len(vr.vps), len(vr.expels))
				}
				if !vr.countAfter.IsZero() && vr.countAfter.Before(t0) {
					residue += " countAfter(hold timestamp of the previous use)"
				}
				if vr.vp != nil && !c05emittedFor(st.emitted, e.v.p) {
					residue += " vp(finished flag of the previous use)"
				}
				if residue != "" {
					w.fail(map[string]any{"kind": "residue-in-reused-record", "hold_timestamp": strings.Contains(residue, "countAfter")},
						"record r%d handed out for new key %q carries residue:%s", w.label(vr), key, residue)
				}
			}
		}
	}
	return st
}

func c05contains(l []string, s string) bool {
	for _, x := range l {
		if x == s {
			return true
		}
	}
	return false
}

func c05emittedFor(em []c05vpSum, p c05sp) bool {
	for _, s := range em {
		if s.point == p {
			return true
		}
	}
	return false
}

func c05place(s string) string {
	if i := strings.IndexByte(s, ':'); i > 0 {
		return s[:i]
	}
	return s
}

func c05parseKey(k string) (c05sp, bool, bool) {
	sc := strings.HasPrefix(k, "sf-")
	k = strings.TrimPrefix(k, "sf-")
	var h int64
	var r uint64
	var st string
	if _, err := fmt.Sscanf(k, "{StagePoint height=%d round=%d stage=%s", &h, &r, &st); err != nil {
		return c05sp{}, false, false
	}
	st = strings.TrimSuffix(st, "}")
	return c05sp{h: h, r: r, accept: st == "ACCEPT"}, sc, st == "ACCEPT" || st == "INIT"
}

// canonical state: last point, suffrage flag, live records by key, removed list, pool; record identities
// relabelled in that order. Two histories with the same key have boxes that differ only in voteproof ids /
// timestamps, so every future event behaves the same.
func (w *c05world) canon() string {
	box := w.box
	relabel := map[*voterecords]int{}
	lab := func(vr *voterecords) int {
		if l, ok := relabel[vr]; ok {
			return l
		}
		relabel[vr] = len(relabel) + 1
		return relabel[vr]
	}
	var sb strings.Builder
	fmt.Fprintf(&sb, "L=%s|known=%v|", c05lpString(box.LastPoint()), w.known)
	live := box.vrs.Map()
	var ks []string
	for k := range live {
		ks = append(ks, k)
	}
	sort.Strings(ks)
	for _, k := range ks {
		vr := live[k]
		fmt.Fprintf(&sb, "live{%s->#%d %s}", k, lab(vr), w.recSum(vr).content())
	}
	removed, _ := box.removed.Value()
	for _, vr := range removed {
		fmt.Fprintf(&sb, "rem{#%d %s held=%v}", lab(vr), c05spString(vr.sp), !vr.countAfter.IsZero())
	}
	for _, vr := range c05poolItems() {
		fmt.Fprintf(&sb, "pool{#%d held=%v fin=%v}", lab(vr), !vr.countAfter.IsZero(), vr.vp != nil)
	}
	for _, k := range sortedKeys(w.survived) {
		if _, ok := live[k]; ok {
			fmt.Fprintf(&sb, "surv{%s=%d}", k, w.survived[k])
		}
	}
	return sb.String()
}

func sortedKeys(m map[string]int) []string {
	var ks []string
	for k := range m {
		ks = append(ks, k)
	}
	sort.Strings(ks)
	return ks
}

// I4: the projection of the history on stage point p, run on a fresh box with its own pool
func (w *c05world) project(hist []c05ev, p c05sp) *c05world {
	saved := voterecordsPool
	c05resetPool()
	defer func() { voterecordsPool = saved }()
	g := c05newWorld(w.sc, w.fx)
	for i, e := range hist {
		ep, has := e.point()
		switch {
		case has && ep != p:
			g.steps = append(g.steps, c05step{ret: "skipped"})
		case e.kind == "setlast":
			g.steps = append(g.steps, c05step{ret: "synced"})
		default:
			g.step(e, false)
		}
		// same last-point trajectory
		if fl := w.steps[i].last; fl != g.box.LastPoint() {
			if !g.box.SetLastPoint(fl) {
				g.viol = append(g.viol, c05viol{sig: map[string]any{"kind": "projection-sync"}, detail: fmt.Sprintf("projection on %s: cannot move last point %s -> %s after %s",
					p, c05lpString(g.box.LastPoint()), c05lpString(fl), e.id())})
			}
		}
		g.steps[i].last = g.box.LastPoint()
	}
	return g
}

func (w *c05world) checkProjection(hist []c05ev, p c05sp, r *vlib.Run) {
	g := w.project(hist, p)
	if len(g.viol) > 0 {
		r.Add("projection_sync_failed", 1)
		return
	}
	r.Add("projections", 1)
	k := len(hist) - 1
	e := hist[k]
	fs, gs := w.steps[k], g.steps[k]
	lastBefore := isaac.LastPoint{}
	if k > 0 {
		lastBefore = w.steps[k-1].last
	}
	past := !lastBefore.IsZero() && p.sp().Compare(lastBefore.StagePoint) < 0
	releasedAnswer := map[string]string{"vote": "false", "voted": "", "missing": "|false|<nil>"}
	if ep, has := e.point(); has && ep == p && fs.ret != gs.ret && !(past && fs.ret == releasedAnswer[e.kind]) {
		w.fail(map[string]any{"kind": "other-points-change-result", "event": e.kind},
			"%s returned %q on the box with all stage points but %q on a box fed only the events of %s", e.id(), fs.ret, gs.ret, p)
	}
	var fe, ge []string
	for _, s := range fs.emitted {
		if s.point == p && s.embedded == "" {
			fe = append(fe, s.String())
		}
	}
	for _, s := range gs.emitted {
		if s.point == p && s.embedded == "" {
			ge = append(ge, s.String())
		}
	}
	if strings.Join(fe, ";") != strings.Join(ge, ";") {
		w.fail(map[string]any{"kind": "other-points-change-voteproof"},
			"after %s the box emitted for %s: [%s]; a box fed only that point's events emitted: [%s]", e.id(), p, strings.Join(fe, ";"), strings.Join(ge, ";"))
	}
	flive, glive := w.box.vrs.Map(), g.box.vrs.Map()
	last := w.box.LastPoint()
	for _, sc := range []bool{false, true} {
		key := c05key(p, sc)
		fr, fok := flive[key]
		gr, gok := glive[key]
		switch {
		case fok && gok:
			if a, b := w.recSum(fr).content(), g.recSum(gr).content(); a != b {
				w.fail(map[string]any{"kind": "other-points-change-record", "confirm_key": sc, "record_wiped": fr.sp.IsZero()},
					"record of %q differs: with all stage points %s; fed only its own events %s", key, a, b)
			}
		case fok && !gok:
			w.fail(map[string]any{"kind": "other-points-keep-record", "confirm_key": sc}, "key %q is live only on the box with all stage points", key)
		case !fok && gok:
			if last.IsZero() || p.sp().Compare(last.StagePoint) >= 0 {
				w.fail(map[string]any{"kind": "other-points-drop-record", "confirm_key": sc},
					"key %q is missing on the box with all stage points although the last point %s is not past it", key, c05lpString(last))
			}
		}
	}
}

func c05scenarios() []*c05scenario {
	P := func(h int64, r uint64, a bool) c05sp { return c05sp{h: h, r: r, accept: a} }
	p1, p2, p3, p4 := P(33, 0, false), P(33, 0, true), P(34, 0, false), P(34, 0, true)
	vote := func(who string, p c05sp, variant string, sc bool, vp string, ex ...string) c05ev {
		return c05ev{kind: "vote", v: c05vote{who: who, p: p, variant: variant, sc: sc, vp: vp, expels: ex}}
	}
	var out []*c05scenario
	// S1: solo suffrage: every vote completes its stage point (cleanup after every vote)
	out = append(out, &c05scenario{name: "solo", n: 1, th: 100, known: true, depth: [2]int{5, 8}, points: []c05sp{p1, p2, p3, p4},
		events: []c05ev{
			vote("n0", p1, "A", false, ""), vote("n0", p1, "A", true, ""),
			vote("n0", p2, "A", false, ""),
			vote("n0", p3, "A", false, ""), vote("n0", p3, "A", true, ""),
			vote("n0", p4, "A", false, ""),
			vote("n0", P(35, 0, false), "A", false, ""),
			{kind: "count"}, {kind: "missing", p: p1}, {kind: "missing", p: p3},
			{kind: "setlast", p: p2, maj: true}, {kind: "setlast", p: p3, maj: true},
		}})
	// S2: two members, threshold 100: two votes complete a stage point; ballots carry embedded voteproofs
	out = append(out, &c05scenario{name: "duo", n: 2, th: 100, known: true, depth: [2]int{5, 8}, points: []c05sp{p1, p2, p3},
		events: []c05ev{
			vote("n0", p1, "A", false, ""), vote("n1", p1, "A", false, ""), vote("n1", p1, "B", false, ""),
			vote("n0", p1, "A", true, ""), vote("n1", p1, "A", true, ""),
			vote("n0", p2, "A", false, "init:33.0"), vote("n1", p2, "A", false, "init:33.0"),
			vote("n0", p3, "A", false, "acc:33"), vote("n1", p3, "A", false, "acc:33"),
			{kind: "count"}, {kind: "missing", p: p1}, {kind: "setlast", p: p2, maj: true},
		}})
	// S3: three members, threshold 67: an INIT draw with a pending expel is held (hold timestamp in the record),
	// ballots with embedded ACCEPT voteproofs give cheap cleanup cycles
	q1, q2, q3 := P(34, 0, false), P(35, 0, false), P(36, 0, false)
	out = append(out, &c05scenario{name: "hold", n: 3, th: 67, known: true, depth: [2]int{5, 8}, points: []c05sp{p1, q1, q2, q3},
		events: []c05ev{
			vote("n0", p1, "E", false, "acc:32", "n2/n0,n1"), vote("n1", p1, "B", false, "acc:32"), vote("n1", p1, "E", false, "acc:32", "n2/n0,n1"),
			vote("n0", q1, "A", false, "acc:33"), vote("n0", q2, "A", false, "acc:34"), vote("n1", q3, "A", false, ""),
			{kind: "timepass"}, {kind: "tick"}, {kind: "count"}, {kind: "missing", p: p1},
		}})
	// S4: suffrage not yet known: ballots are parked in the records and counted once it is known
	out = append(out, &c05scenario{name: "unknown", n: 2, th: 100, known: false, depth: [2]int{5, 8}, points: []c05sp{p1, p2, p3},
		events: []c05ev{
			vote("n0", p1, "A", false, "acc:32"), vote("n1", p1, "A", false, "acc:32"), vote("x", p1, "A", false, "acc:32"),
			vote("n0", p2, "A", false, "init:33.0"), vote("n1", p2, "A", false, "init:33.0"),
			vote("n0", p3, "A", false, "acc:33"), vote("n1", p3, "A", false, "acc:33"),
			{kind: "known"}, {kind: "count"}, {kind: "missing", p: p1},
		}})
	return out
}

func TestVerifC05(t *testing.T) {
	r := vlib.Start("C05")
	defer r.Finish()
	r.Rule("sequential half: BFS with state dedup over event histories of each scenario (votes / suffrage-confirm votes / ballots with embedded voteproofs for consecutive stage points, Count, SetLastPoint, Voted, MissingNodes, ticker body, time passing) on a fresh real Ballotbox per history; state = canonical (last point, live records by key with contents, awaiting-recycle list, pool, record identity structure); non-trivial = history with at least two cleanup cycles and a record reused from the pool")
	r.Assume("Vote/VoteSignFact are executed as their bodies (checkBallot, vote, then the deferred count synchronously); the goroutine hand-off is the concurrent unit's job")
	r.Assume("a fresh box is the NewBallotbox object with fresh state fields, a 256-slot voteproof channel and a pinned shard hash; sync.Pool is the deterministic LIFO vsync.Pool (never drops)")
	r.Assume("zerolog.InterfaceMarshalFunc is stubbed (logging only)")
	scs := c05scenarios()
	tier := 0
	if r.Thorough() {
		tier = 1
	}
	item := 0
	for _, sc := range scs {
		fx := c05newFx(sc.n, sc.th)
		depth := sc.depth[tier]
		r.Set("depth_"+sc.name, depth)
		r.Set("events_"+sc.name, len(sc.events))
		for first := range sc.events {
			item++
			if !r.Mine(item) {
				continue
			}
			c05bfs(r, sc, fx, first, depth)
		}
	}
}

func c05bfs(r *vlib.Run, sc *c05scenario, fx *c05fx, first, depth int) {
	type node struct{ hist []int }
	frontier := []node{{hist: []int{first}}}
	seen := map[string]bool{}
	for d := 1; d <= depth && len(frontier) > 0; d++ {
		var next []node
		for _, nd := range frontier {
			var cands [][]int
			if d == 1 {
				cands = [][]int{nd.hist}
			} else {
				for ei := range sc.events {
					cands = append(cands, append(append([]int{}, nd.hist...), ei))
				}
			}
			for _, h := range cands {
				if r.Expired() {
					return
				}
				id := sc.name + "/" + c05histID(sc, h)
				if !r.WantPrefix(id) {
					continue
				}
				key, ok := c05runHistory(r, sc, fx, h, id)
				if !ok {
					continue
				}
				if !seen[key] {
					seen[key] = true
					r.State(sc.name + "|" + strconv.Itoa(first) + "|" + key)
					next = append(next, node{hist: h})
				}
			}
		}
		frontier = next
	}
}

func c05histID(sc *c05scenario, h []int) string {
	parts := make([]string, len(h))
	for i, e := range h {
		parts[i] = sc.events[e].id()
	}
	return strings.Join(parts, "/")
}

// c05runHistory replays the history on a fresh box, checks the last transition, returns the canonical key
func c05runHistory(r *vlib.Run, sc *c05scenario, fx *c05fx, h []int, id string) (string, bool) {
	c05resetPool()
	w := c05newWorld(sc, fx)
	var evs []c05ev
	evs = append(evs, sc.prefix...)
	for _, ei := range h {
		evs = append(evs, sc.events[ei])
	}
	for i, e := range evs {
		w.step(e, i == len(evs)-1)
		r.Transition()
	}
	r.Trace()
	r.Eval()
	last := w.steps[len(w.steps)-1]
	if len(w.viol) == 0 {
		for _, p := range sc.points {
			w.checkProjection(evs, p, r)
		}
	}
	r.Max("max_cleanup_cycles", int64(w.cleans))
	r.Max("max_records_reused", int64(w.reuses))
	if w.cleans >= 2 && w.reuses >= 1 {
		r.Nontrivial(id)
	}
	out := fmt.Sprintf("%s:%s:emit=%d:cleans=%d:reuse=%d", evs[len(evs)-1].kind, c05retClass(last.ret), len(last.emitted), c05min(w.cleans, 3), c05min(w.reuses, 2))
	r.Outcome(out)
	if len(h) == 5 {
		r.Sample(map[string]any{"scenario": sc.name, "history": id, "last_point": c05lpString(w.box.LastPoint()), "cleanup_cycles": w.cleans, "records_reused": w.reuses})
	}
	for _, v := range w.viol {
		r.Violation(id, v.sig, v.detail+" | history: "+id, nil)
	}
	// a violating state is not expanded further (its successors would repeat the report)
	return w.canon(), len(w.viol) == 0
}

func c05retClass(s string) string {
	switch {
	case s == "true" || s == "false" || s == "PANIC" || s == "":
		return s
	case strings.HasPrefix(s, "err:"):
		return "err"
	}
	return "val"
}

func c05min(a, b int) int {
	if a < b {
		return a
	}
	return b
}
