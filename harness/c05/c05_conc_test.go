//go:build verif

package isaacstates

import (
	"fmt"
	"sort"
	"strings"
	"testing"

	"github.com/spikeekips/mitum/base"
	"github.com/spikeekips/mitum/isaac"
	"github.com/spikeekips/mitum/zzverif/vlib"
	"github.com/spikeekips/mitum/zzverif/vsched"
)

// C05, concurrent half (engine S): isaac/states/ballotbox.go and util/lock.go run on the
// vsync / vatomic / channel shims; 2-3 threads call the real Vote / VoteSignFact / Count /
// MissingNodes / SetLastPoint on a box that a sequential setup brought to the brink of a
// cleanup cycle; the `go deferred()` goroutines of Vote are tracked threads. Every
// interleaving within the preemption bound is executed; at quiescence:
//   I1 every live key's record carries the key's stage point / confirm flag,
//   I2 no record identity twice over live map + awaiting-recycle list + pool, no double pool put,
//   IS every vote stored in a live record and every sign fact of an emitted voteproof belongs to
//      that record's / voteproof's stage point (no vote crosses stage points),
//   no panic, no deadlock.

type c05conc struct {
	name    string
	n       int
	th      base.Threshold
	unknown bool // the setup runs while the suffrage is unknown (votes are parked); it is known when the threads start
	setup   []c05ev
	threads [][]c05ev
	bound   [2]int // preemption bound quick, thorough (-1 = scenario not run in that tier)
}

func (c c05conc) id() string {
	var ts []string
	for _, t := range c.threads {
		var es []string
		for _, e := range t {
			es = append(es, e.id())
		}
		ts = append(ts, strings.Join(es, ","))
	}
	return c.name + "|" + strings.Join(ts, " || ")
}

type c05cobs struct {
	w       *c05world
	rets    [][]string
	putTwice []string
}

var c05concPut func(vr *voterecords)

func init() {
	orig := voterecordsPoolPut
	voterecordsPoolPut = func(vr *voterecords) {
		if c05concPut != nil {
			c05concPut(vr)
		}
		orig(vr)
	}
}

func c05concBuild(c c05conc, fx *c05fx) vsched.Scenario {
	c05resetPool()
	sc := &c05scenario{name: c.name, n: c.n, th: c.th, known: !c.unknown}
	w := c05newWorld(sc, fx)
	for _, e := range c.setup {
		w.step(e, false)
	}
	w.known = true
	setupViol := len(w.viol)
	o := &c05cobs{w: w, rets: make([][]string, len(c.threads))}
	c05concPut = func(vr *voterecords) {
		for _, it := range c05poolItems() {
			if it == vr {
				o.putTwice = append(o.putTwice, fmt.Sprintf("r%d(%s confirm=%v)", w.label(vr), c05spString(vr.sp), vr.isc))
			}
		}
	}
	box := w.box
	var roots []func()
	for ti := range c.threads {
		ti := ti
		ops := c.threads[ti]
		// fixture objects are built outside the controlled execution
		type built struct {
			sf base.BallotSignFact
			bl base.Ballot
		}
		bs := make([]built, len(ops))
		for i, e := range ops {
			if e.kind == "vote" {
				bs[i].sf, bs[i].bl = fx.build(e.v)
			}
		}
		roots = append(roots, func() {
			for i, e := range ops {
				var ret string
				switch e.kind {
				case "vote":
					var ok bool
					var err error
					if bs[i].bl != nil {
						ok, err = box.Vote(bs[i].bl)
					} else {
						ok, err = box.VoteSignFact(bs[i].sf)
					}
					ret = fmt.Sprintf("%v/%v", ok, err)
				case "count":
					ret = fmt.Sprint(box.Count())
				case "missing":
					nodes, ok, err := box.MissingNodes(e.p.sp())
					ret = fmt.Sprintf("%d/%v/%v", len(nodes), ok, err)
				case "voted":
					ret = fmt.Sprint(len(box.Voted(e.p.sp(), []base.Address{fx.nodes[0].Address(), fx.nodes[fx.n-1].Address()})))
				case "setlast":
					lp, err := isaac.NewLastPoint(e.p.sp(), e.maj, e.sc)
					if err != nil {
						panic(err)
					}
					ret = fmt.Sprint(box.SetLastPoint(lp))
				case "tick":
					box.countHoldeds()
				default:
					panic("unsupported op " + e.kind)
				}
				o.rets[ti] = append(o.rets[ti], ret)
			}
		})
	}
	fail := func(sig map[string]any, format string, a ...any) *vsched.Fail {
		return &vsched.Fail{Sig: sig, Detail: fmt.Sprintf(format, a...) + " | scenario " + c.id() + " | returns " + fmt.Sprint(o.rets)}
	}
	check := func(x *vsched.Exec) *vsched.Fail {
		c05concPut = nil
		if setupViol > 0 {
			v := w.viol[0]
			v.sig["phase"] = "setup"
			return fail(v.sig, "sequential setup already violates: %s", v.detail)
		}
		if x.Panic != nil {
			msg := fmt.Sprint(x.Panic)
			class := "other"
			if strings.Contains(msg, "nil pointer") || strings.Contains(msg, "invalid memory address") {
				class = "nil-deref"
			}
			return fail(map[string]any{"kind": "panic", "class": class, "phase": "concurrent", "site": c05panicSite(x.PanicStack)}, "panic: %v\n%s", x.Panic, x.PanicStack)
		}
		if x.Deadlock {
			return fail(map[string]any{"kind": "deadlock", "phase": "concurrent"}, "deadlock: %s", strings.Join(x.Blocked, "; "))
		}
		if len(o.putTwice) > 0 {
			return fail(map[string]any{"kind": "released-twice", "where": "pool-put", "phase": "concurrent"}, "records put into the pool while already in its free list: %v", o.putTwice)
		}
		live := box.vrs.Map()
		removed, _ := box.removed.Value()
		pool := c05poolItems()
		var lks []string
		for k := range live {
			lks = append(lks, k)
		}
		sort.Strings(lks)
		seen := map[*voterecords]string{}
		var dup *vsched.Fail
		note := func(vr *voterecords, where string) {
			if prev, ok := seen[vr]; ok && dup == nil {
				a, b := c05place(prev), c05place(where)
				if b < a {
					a, b = b, a
				}
				dup = fail(map[string]any{"kind": "record-identity-twice", "places": a + "+" + b, "phase": "concurrent"},
					"record r%d occurs twice: %s and %s", w.label(vr), prev, where)
			}
			seen[vr] = where
		}
		for _, k := range lks {
			vr := live[k]
			ksp, ksc, ok := c05parseKey(k)
			if !ok || vr.sp.IsZero() || c05spOf(vr.sp) != ksp || vr.isc != ksc {
				return fail(map[string]any{"kind": "key-record-mismatch", "confirm_key": ksc, "record_wiped": vr.sp.IsZero(), "phase": "concurrent"},
					"live key %q holds record r%d whose stage point is %s confirm=%v", k, w.label(vr), c05spString(vr.sp), vr.isc)
			}
			for _, m := range []map[string]base.BallotSignFact{vr.voted, vr.ballots} {
				for node, sf := range m {
					f := sf.Fact().(base.BallotFact)
					if !f.Point().Equal(vr.sp) || isaac.IsSuffrageConfirmBallotFact(f) != vr.isc {
						return fail(map[string]any{"kind": "vote-in-foreign-record", "phase": "concurrent"},
							"record of %q holds the vote %s of node %s, a sign fact of %s", k, fx.sfName(sf), node, c05spString(f.Point()))
					}
				}
			}
			note(vr, "live:"+k)
		}
		for i, vr := range removed {
			note(vr, fmt.Sprintf("removed:%d", i))
		}
		for i, vr := range pool {
			note(vr, fmt.Sprintf("pool:%d", i))
		}
		if dup != nil {
			return dup
		}
		for _, vp := range c05drain(box) {
			for _, sf := range vp.SignFacts() {
				if f := sf.Fact().(base.BallotFact); !f.Point().Equal(vp.Point()) {
					return fail(map[string]any{"kind": "voteproof-has-foreign-vote", "phase": "concurrent"},
						"voteproof of %s (%s) contains %s, a sign fact of %s", c05spString(vp.Point()), vp.Result(), fx.sfName(sf), c05spString(f.Point()))
				}
			}
		}
		return nil
	}
	outcome := func(*vsched.Exec) string {
		live := box.vrs.Map()
		var ks []string
		for k := range live {
			p, sc, _ := c05parseKey(k)
			s := p.String()
			if sc {
				s += "s"
			}
			ks = append(ks, s)
		}
		sort.Strings(ks)
		removed, _ := box.removed.Value()
		return fmt.Sprintf("last=%s live=%s removed=%d pool=%d rets=%v", c05lpString(box.LastPoint()), strings.Join(ks, ","), len(removed), len(c05poolItems()), o.rets)
	}
	return vsched.Scenario{Roots: roots, Check: check, Outcome: outcome}
}

// c05panicSite names the two innermost ballotbox.go frames of a panic stack ("callee<-caller")
func c05panicSite(stack string) string {
	var fr []string
	after := false
	for _, ln := range strings.Split(stack, "\n") {
		if strings.HasPrefix(ln, "panic(") {
			after = true
			continue
		}
		if !after || !strings.HasPrefix(ln, "github.com/spikeekips/mitum/isaac/states.") || strings.HasPrefix(ln, "github.com/spikeekips/mitum/isaac/states.c05") {
			continue
		}
		f := strings.TrimPrefix(ln, "github.com/spikeekips/mitum/isaac/states.")
		if i := strings.LastIndex(f, "("); i > 0 {
			f = f[:i]
		}
		f = strings.NewReplacer("(*", "", ")", "").Replace(f)
		fr = append(fr, f)
		if len(fr) == 2 {
			break
		}
	}
	return strings.Join(fr, "<-")
}

func c05concScenarios() []c05conc {
	P := func(h int64, r uint64, a bool) c05sp { return c05sp{h: h, r: r, accept: a} }
	p1, p2, p3, p4, p5 := P(33, 0, false), P(33, 0, true), P(34, 0, false), P(34, 0, true), P(35, 0, false)
	v := func(who string, p c05sp, variant string, sc bool, vp string) c05ev {
		return c05ev{kind: "vote", v: c05vote{who: who, p: p, variant: variant, sc: sc, vp: vp}}
	}
	// duo suffrage, threshold 100: n0 (local) has voted everywhere in the setup, one vote of n1 completes a stage point
	setup := []c05ev{v("n0", p1, "A", false, ""), v("n0", p1, "A", true, ""), v("n0", p2, "A", false, ""), v("n0", p3, "A", false, ""), v("n0", p4, "A", false, "")}
	return []c05conc{
		{name: "three-completions", n: 2, th: 100, setup: setup, bound: [2]int{1, 1}, threads: [][]c05ev{
			{v("n1", p1, "A", false, "")}, {v("n1", p2, "A", false, "")}, {v("n1", p3, "A", false, "")}}},
		{name: "stalled-voter-vs-two-cleanups", n: 2, th: 100, setup: setup, bound: [2]int{-1, 1}, threads: [][]c05ev{
			{v("n1", p1, "B", false, "")}, {v("n1", p2, "A", false, ""), v("n1", p3, "A", false, ""), v("n1", p5, "A", false, "")}}},
		// votes parked while the suffrage was unknown: one Count() completes 33.0A and 34.0I (two cleanup cycles in a row) while a
		// voter of 33.0I is in flight and a new stage point asks for a record
		{name: "stalled-voter-vs-count", n: 2, th: 100, unknown: true, bound: [2]int{1, 2},
			setup: []c05ev{v("n0", p1, "A", false, ""), v("n0", p2, "A", false, ""), v("n1", p2, "A", false, ""), v("n0", p3, "A", false, ""), v("n1", p3, "A", false, "")},
			threads: [][]c05ev{{v("n1", p1, "B", false, "")}, {{kind: "count"}}, {v("n0", p5, "A", false, "")}}},
		{name: "stalled-voter-vs-two-cleanups-3t", n: 2, th: 100, bound: [2]int{-1, 1},
			setup: []c05ev{v("n0", p1, "A", false, ""), v("n0", p2, "A", false, ""), v("n0", p3, "A", false, "")},
			threads: [][]c05ev{{v("n1", p1, "B", false, "")}, {v("n1", p2, "A", false, ""), v("n1", p3, "A", false, "")}, {v("n0", p5, "A", false, "")}}},
		{name: "count-vs-completion-vs-missing", n: 2, th: 100, setup: setup, bound: [2]int{1, 1}, threads: [][]c05ev{
			{{kind: "count"}}, {v("n1", p2, "A", false, ""), v("n1", p3, "A", false, "")}, {{kind: "missing", p: p1}}}},
		{name: "ballot-voters-and-setlast", n: 2, th: 100, setup: setup[:3], bound: [2]int{-1, 1}, threads: [][]c05ev{
			{v("n1", p1, "A", false, "acc:32")}, {v("n1", p2, "A", false, "init:33.0")}, {{kind: "setlast", p: p3, maj: true}, v("n1", p4, "A", false, "")}}},
		{name: "completions-then-new-point", n: 2, th: 100, setup: setup, bound: [2]int{1, 1}, threads: [][]c05ev{
			{v("n1", p2, "A", false, ""), v("n1", p3, "A", false, "")}, {v("n1", p4, "A", false, ""), v("n1", p5, "A", false, "")}}},
		{name: "voted-vs-two-cleanups", n: 2, th: 100, setup: setup, bound: [2]int{1, 2}, threads: [][]c05ev{
			{{kind: "voted", p: p1}}, {v("n1", p2, "A", false, ""), v("n1", p3, "A", false, "")}}},
	}
}

func TestVerifC05Conc(t *testing.T) {
	r := vlib.Start("C05")
	defer r.Finish()
	r.Rule("concurrent half: scenario = sequential setup + 2-3 threads of 1-2 calls (Vote, VoteSignFact, Count, MissingNodes, SetLastPoint) on the real Ballotbox; every interleaving within the preemption bound of the roots and the `go deferred()` goroutines; non-trivial = scenario with more than one observable outcome; states = distinct (scenario, outcome)")
	tier := vlib.Pick(r, 0, 1)
	cfgs := c05concScenarios()
	r.Set("conc_scenarios_enumerated", len(cfgs))
	fxs := map[string]*c05fx{}
	_, nsh := r.Shard()
	for i, c := range cfgs {
		c := c
		key := fmt.Sprintf("%d/%v", c.n, c.th)
		if fxs[key] == nil {
			fxs[key] = c05newFx(c.n, c.th)
		}
		fx := fxs[key]
		id := c.id()
		bound := c.bound[tier]
		r.Set("preemption_bound_"+c.name, bound)
		build := func() vsched.Scenario { return c05concBuild(c, fx) }
		if rid, rp := r.Replaying(); rp {
			k := strings.LastIndex(rid, "#")
			if k < 0 || rid[:k] != id {
				continue
			}
			sc := build()
			x := vsched.Run(vsched.Options{Prefix: vsched.ParseChoices(rid[k+1:])}, sc.Roots...)
			r.Trace()
			if f := sc.Check(x); f != nil {
				r.Violation(rid, f.Sig, f.Detail, nil)
			}
			continue
		}
		if r.Expired() || bound < 0 {
			continue
		}
		// every shard explores every scenario, each a disjoint set of first-level subtrees
		sh, _ := r.Shard()
		res := vsched.Explore(vsched.Config{Name: id, Bound: bound, Build: build, Expired: r.Expired, MaxFound: 2, Horizon: 20000,
			Mine: func(l int) bool { return nsh <= 1 || l%nsh == sh }, Secondary: sh != 0})
		if res.EngineError != "" {
			panic("engine error in " + id + ": " + res.EngineError)
		}
		r.TraceN(res.Executions)
		r.TransitionN(res.Points)
		r.EvalN(res.Executions)
		if sh == 0 {
			r.Add("conc_scenarios", 1)
		}
		if res.Capped != "" {
			r.Cap(res.Capped)
		} else {
			r.Min("bound_completed_"+c.name, int64(res.BoundCompleted))
		}
		r.Max("max_points_per_execution", int64(res.MaxPoints))
		if len(res.Outcomes) > 1 {
			r.Nontrivial("conc:" + id)
		}
		for o := range res.Outcomes {
			r.State("conc:" + id + "=>" + o)
			if strings.HasPrefix(o, "FAIL:") {
				r.Outcome("conc:" + o)
			} else {
				r.Outcome("conc:" + c.name + ":" + o[:strings.Index(o, " live=")])
			}
		}
		for _, f := range res.Found {
			r.Violation(id+"#"+vsched.ChoicesString(f.Choices), f.Fail.Sig, f.Fail.Detail+fmt.Sprintf(" (preemptions=%d)", f.Preempt), nil)
		}
		if sh == 0 {
			r.Set("executions_shard0_"+c.name, res.Executions)
		}
		if i < 3 {
			r.Sample(map[string]any{"scenario": id, "executions": res.Executions, "distinct_outcomes": len(res.Outcomes)})
		}
	}
}
