//go:build verif

package launch

import (
	"context"
	"fmt"
	"net"
	"strconv"
	"strings"
	"testing"
	"time"

	"github.com/spikeekips/mitum/base"
	"github.com/spikeekips/mitum/util"
	"github.com/spikeekips/mitum/util/valuehash"
	"github.com/spikeekips/mitum/zzverif/vlib"
)

// C36 (sequential part, engine Q): rate limiting picks the highest-precedence
// rule on the CURRENT rules at every request, and enforces it.
//
// Part P (histories): for every initial configuration x client address, every
// history of length <= depth over {request with client id -, c1, c2; AddNode
// n1, n2; replace one rule set; change suffrage membership / state hash} that
// ends with a request is run on a fresh real RateLimitHandler; the result that
// RateLimitHandler.Func puts into the context (rule set type, limiter, allowed)
// is compared with the textual precedence rule evaluated on the model's
// current rules. All configured rules are "1 per >= 1001 hours", so no token
// can be refilled during a run: for every limiter the code says it applies to
// an (addr, handler) the allowed count since the last rule change must stay
// <= its burst. No oracle reads the wall clock.
//
// Part E (inputs, explicit clock): the *rate.Limiter that mitum builds for a
// rule "b per d" (taken from the real handler) is driven with AllowN(t, 1) at
// explicit times on the grid {0, d/4, d/2, d, 2d}; in every window the allowed
// count must be <= b + (b/d) x window, in exact integer arithmetic.

const c36Handler = "h1"

type c36Event struct {
	op  string
	arg string
}

func (e c36Event) String() string {
	if e.arg == "" {
		return e.op
	}

	return e.op + "=" + e.arg
}

type c36Cfg struct {
	cid, nets, nodes string
	member           bool
	dm               string
	known            bool // the address already sent a request and is known as node n1 (AddNode) when the history starts
}

func (c c36Cfg) String() string {
	s := fmt.Sprintf("cid:%s,nets:%s,nodes:%s,member:%v,dm:%s", c.cid, c.nets, c.nodes, c.member, c.dm)
	if c.known {
		s += ",known:n1"
	}

	return s
}

type c36Env struct {
	rules    map[string]RateLimiterRule
	addrs    map[string]*net.UDPAddr
	nodes    map[string]base.Address
	ipnets   map[string]*net.IPNet
	lastTick int64
}

func c36NewEnv() *c36Env {
	e := &c36Env{
		rules:  map[string]RateLimiterRule{},
		addrs:  map[string]*net.UDPAddr{},
		nodes:  map[string]base.Address{},
		ipnets: map[string]*net.IPNet{},
	}

	for i, n := range []string{"cid-c1", "cid-c2", "net-8", "net-16", "node-n1", "suf", "suf2", "dm", "node-n2"} {
		e.rules[n] = NewRateLimiterRule(time.Hour*time.Duration(1001+i), 1)
	}

	// the two special rule values: no limit at all, and reject everything
	e.rules["nolimit"] = NoLimitRateLimiterRule()
	e.rules["zero"] = LimitRateLimiterRule()

	e.addrs["a1"] = &net.UDPAddr{IP: net.ParseIP("10.1.2.3"), Port: 4001}
	e.addrs["a2"] = &net.UDPAddr{IP: net.ParseIP("10.2.0.1"), Port: 4002}
	e.addrs["a3"] = &net.UDPAddr{IP: net.ParseIP("192.168.0.1"), Port: 4003}

	e.nodes["n1"] = base.NewStringAddress("n1-c36")
	e.nodes["n2"] = base.NewStringAddress("n2-c36")

	for k, s := range map[string]string{"8": "10.0.0.0/8", "16": "10.1.0.0/16"} {
		_, n, err := net.ParseCIDR(s)
		if err != nil {
			panic(err)
		}

		e.ipnets[k] = n
	}

	for _, v := range []string{"nolimit", "zero"} { // net 10/8 with a special rule value
		e.ipnets["8:"+v] = e.ipnets["8"]
		e.rules["net-8:"+v] = e.rules[v]
	}

	// every rule must be identifiable from the result's limiter string (the special values print alike under every rule set)
	seen := map[string]string{humanizeRateLimiter(defaultRateLimiter.Limit, defaultRateLimiter.Burst): "builtin"}

	for n, rl := range e.rules {
		h := humanizeRateLimiter(rl.Limit, rl.Burst)
		if h == "nolimit" || h == "0" {
			continue
		}

		if o, found := seen[h]; found {
			panic(fmt.Sprintf("rules %s and %s print alike: %s", n, o, h))
		}

		seen[h] = n
	}

	return e
}

// tick waits until the nanosecond clock has advanced, so that the updatedAt
// stamps that the code compares are ordered like the events.
func (e *c36Env) tick() {
	for {
		if n := time.Now().UnixNano(); n > e.lastTick {
			e.lastTick = n

			return
		}
	}
}

// c36Model is the textual precedence rule on the current rules.
type c36Model struct {
	cid     map[string]string // client id -> rule name; nil = no rule set
	nets    []string          // ordered ipnet keys; nil = no rule set
	nodes   map[string]string // node -> rule name; nil = no rule set
	suf     string            // rule name of the suffrage rule set
	members map[string]bool
	dm      map[string]string // handler -> rule name
	node    string            // node known for the address ("" = none)
}

func (m *c36Model) choose(env *c36Env, ip net.IP, cid string) (string, string) {
	if m.cid != nil && cid != "" {
		if r, found := m.cid[cid]; found {
			return "clientid", r
		}
	}

	for _, k := range m.nets {
		if env.ipnets[k].Contains(ip) {
			return "net", "net-" + k
		}
	}

	if m.node != "" && m.nodes != nil {
		if r, found := m.nodes[m.node]; found {
			return "node", r
		}
	}

	if m.node != "" && m.members[m.node] {
		return "suffrage", m.suf
	}

	if r, found := m.dm[c36Handler]; found {
		return "defaultmap", r
	}

	return "default", "builtin"
}

type c36Sys struct {
	env   *c36Env
	h     *RateLimitHandler
	m     *c36Model
	addr  *net.UDPAddr
	sthash util.Hash

	// enforcement bookkeeping, per limiter identity the code reports, since the last rule change
	allowed     map[string]int
	lastServed  string
	prevLimiter string // never reset
	interleaved map[string]bool
}

func c36NewSys(env *c36Env, cfg c36Cfg, addr *net.UDPAddr) *c36Sys {
	return c36NewSysWith(env, cfg, addr, nil)
}

// c36NewSysWith: setargs may change the handler arguments (MaxAddrs, ExpireAddr) before the handler is made.
func c36NewSysWith(env *c36Env, cfg c36Cfg, addr *net.UDPAddr, setargs func(*RateLimitHandlerArgs)) *c36Sys {
	args := NewRateLimitHandlerArgs()
	args.PoolSizes = []uint64{2, 2}
	args.Rules = NewRateLimiterRules()

	if setargs != nil {
		setargs(args)
	}

	h, err := NewRateLimitHandler(args)
	if err != nil {
		panic(err)
	}

	s := &c36Sys{
		env: env, h: h, addr: addr,
		m:           &c36Model{members: map[string]bool{}},
		sthash:      valuehash.NewSHA256([]byte("c36-state-1")),
		allowed:     map[string]int{},
		interleaved: map[string]bool{},
	}

	s.apply(c36Event{"member", map[bool]string{true: "on", false: "off"}[cfg.member]})
	s.apply(c36Event{"suf", "suf"})
	s.apply(c36Event{"cid", cfg.cid})
	s.apply(c36Event{"nets", cfg.nets})
	s.apply(c36Event{"nodes", cfg.nodes})
	s.apply(c36Event{"dm", cfg.dm})

	if cfg.known {
		// AddNode only works for an address that is in the pool already
		s.apply(c36Event{"req", "-"})
		s.apply(c36Event{"addnode", "n1"})

		if s.m.node != "n1" {
			panic("setup: AddNode did not register the node")
		}
	}

	return s
}

func (s *c36Sys) rulemap(name string) RateLimiterRuleMap {
	r := s.env.rules[name]

	return NewRateLimiterRuleMap(&r, nil)
}

type c36Result struct {
	typ, limiter string
	allowed      bool
	cachedBefore string
	reused       bool // the cached limiter was handed back untouched (no rule evaluation updated it)
	prevLimiter  string // what served the previous request of the address ("" = first request)
	burst        int
}

// apply runs one event on the real handler and on the model; for a request it
// returns what the handler reported.
func (s *c36Sys) apply(ev c36Event) *c36Result {
	s.env.tick()

	rules := s.h.rules
	changed := true

	switch ev.op {
	case "req":
		return s.request(ev.arg)
	case "addnode":
		changed = false

		if s.h.AddNode(s.addr, s.env.nodes[ev.arg]) {
			s.m.node = ev.arg
		}
	case "cid":
		switch ev.arg {
		case "nil":
			_ = rules.SetClientIDRuleSet(nil)
			s.m.cid = nil
		case "c1":
			_ = rules.SetClientIDRuleSet(NewClientIDRateLimiterRuleSet(map[string]RateLimiterRuleMap{"c1": s.rulemap("cid-c1")}))
			s.m.cid = map[string]string{"c1": "cid-c1"}
		case "c1c2":
			_ = rules.SetClientIDRuleSet(NewClientIDRateLimiterRuleSet(map[string]RateLimiterRuleMap{
				"c1": s.rulemap("cid-c1"), "c2": s.rulemap("cid-c2"),
			}))
			s.m.cid = map[string]string{"c1": "cid-c1", "c2": "cid-c2"}
		case "c1:nolimit", "c1:zero": // c1 with a special rule value
			v := strings.TrimPrefix(ev.arg, "c1:")
			_ = rules.SetClientIDRuleSet(NewClientIDRateLimiterRuleSet(map[string]RateLimiterRuleMap{"c1": s.rulemap(v)}))
			s.m.cid = map[string]string{"c1": v}
		}
	case "nets":
		switch ev.arg {
		case "nil":
			_ = rules.SetNetRuleSet(nil)
			s.m.nets = nil
		default:
			rs := NewNetRateLimiterRuleSet()
			s.m.nets = []string{}

			for _, k := range strings.Split(ev.arg, ">") {
				rs.Add(s.env.ipnets[k], s.rulemap("net-"+k))
				s.m.nets = append(s.m.nets, k)
			}

			if err := rs.IsValid(nil); err != nil {
				panic(err)
			}

			_ = rules.SetNetRuleSet(rs)
		}
	case "nodes":
		switch ev.arg {
		case "nil":
			_ = rules.SetNodeRuleSet(nil)
			s.m.nodes = nil
		case "n1n2": // both nodes have a rule of their own (part A)
			_ = rules.SetNodeRuleSet(NewNodeRateLimiterRuleSet(map[string]RateLimiterRuleMap{
				s.env.nodes["n1"].String(): s.rulemap("node-n1"),
				s.env.nodes["n2"].String(): s.rulemap("node-n2"),
			}))
			s.m.nodes = map[string]string{"n1": "node-n1", "n2": "node-n2"}
		default:
			_ = rules.SetNodeRuleSet(NewNodeRateLimiterRuleSet(map[string]RateLimiterRuleMap{
				s.env.nodes["n1"].String(): s.rulemap("node-n1"),
			}))
			s.m.nodes = map[string]string{"n1": "node-n1"}
		}
	case "suf": // replace the suffrage rule set
		if err := rules.SetSuffrageRuleSet(NewSuffrageRateLimiterRuleSet(s.rulemap(ev.arg))); err != nil {
			panic(err)
		}

		s.m.suf = ev.arg
	case "member": // n1 joins / leaves the consensus nodes; "rotate": new suffrage state, same members
		switch ev.arg {
		case "on":
			s.m.members["n1"] = true
		case "off":
			s.m.members["n1"] = false
		case "rotate":
			s.sthash = valuehash.NewSHA256(append([]byte("r"), s.sthash.Bytes()...))
		}

		st, member := s.sthash, s.m.members["n1"]
		n1 := s.env.nodes["n1"]

		rules.SetIsInConsensusNodesFunc(func() (util.Hash, func(base.Address) bool, error) {
			return st, func(a base.Address) bool { return member && a.Equal(n1) }, nil
		})
	case "dm":
		switch ev.arg {
		case "hit":
			_ = rules.SetDefaultRuleMap(NewRateLimiterRuleMap(nil, map[string]RateLimiterRule{c36Handler: s.env.rules["dm"]}))
			s.m.dm = map[string]string{c36Handler: "dm"}
		case "miss":
			_ = rules.SetDefaultRuleMap(NewRateLimiterRuleMap(nil, map[string]RateLimiterRule{"other-handler": s.env.rules["dm"]}))
			s.m.dm = map[string]string{"other-handler": "dm"}
		case "nolimit", "zero":
			_ = rules.SetDefaultRuleMap(NewRateLimiterRuleMap(nil, map[string]RateLimiterRule{c36Handler: s.env.rules[ev.arg]}))
			s.m.dm = map[string]string{c36Handler: ev.arg}
		}
	default:
		panic("unknown event " + ev.op)
	}

	if changed {
		// the rules changed: limiters may legitimately start afresh
		s.allowed = map[string]int{}
		s.interleaved = map[string]bool{}
		s.lastServed = ""
	}

	s.env.tick()

	return nil
}

// cached returns type and updatedAt of the limiter the pool holds for the address ("none" if there is none).
func (s *c36Sys) cached() (string, int64) {
	m, found := s.h.pool.l.Value(s.addr.String())
	if !found || m == nil {
		return "none", 0
	}

	l, found := m.Value(c36Handler)
	if !found || l == nil {
		return "none", 0
	}

	return l.Type(), l.UpdatedAt()
}

func (s *c36Sys) request(cid string) *c36Result {
	res := &c36Result{}

	var stampBefore int64

	res.cachedBefore, stampBefore = s.cached()

	ctx := context.WithValue(context.Background(), RateLimiterLimiterNameContextKey, c36Handler)
	if cid != "-" {
		ctx = context.WithValue(ctx, RateLimiterClientIDContextKey, cid)
	}

	called := false

	rctx, err := s.h.Func(ctx, s.addr, func(c context.Context) (context.Context, error) {
		called = true

		return c, nil
	})

	f, ok := rctx.Value(RateLimiterResultContextKey).(func() RateLimiterResult)
	if !ok {
		panic("no rate limiter result in the context")
	}

	rr := f()
	res.typ, res.limiter, res.allowed = rr.RulesetType, rr.Limiter, rr.Allowed

	if _, stampAfter := s.cached(); res.cachedBefore != "none" && stampAfter == stampBefore {
		res.reused = true
	}

	if res.allowed != called || res.allowed != (err == nil) {
		panic(fmt.Sprintf("inconsistent result: allowed=%v handler called=%v err=%v", res.allowed, called, err))
	}

	if i := strings.IndexByte(res.limiter, '/'); i > 0 {
		res.burst, _ = strconv.Atoi(res.limiter[:i])
	}

	id := res.typ + " " + res.limiter

	// another limiter serves the address after k had allowed requests
	for k, n := range s.allowed {
		if n > 0 && k != id {
			s.interleaved[k] = true
		}
	}

	s.lastServed = id
	res.prevLimiter, s.prevLimiter = s.prevLimiter, res.limiter

	if res.allowed {
		s.allowed[id]++
	}

	return res
}

func TestVerifC36(t *testing.T) {
	r := vlib.Start("C36")
	defer r.Finish()
	r.Rule("P: every (initial rules configuration x client address) x every event history of length <= depth that ends with a request, each on a fresh RateLimitHandler; " +
		"non-trivial = the final request finds a cached limiter for its address (an earlier request was served) AND the event before it is a rule change, an AddNode or a request with another client id. " +
		"E: per rule (b per d) every non-decreasing placement of k <= 2b+2 requests on the time grid {0,d/4,d/2,d,2d}")
	r.Assume("limiters are scoped per (client address, handler) as in the code; counts restart at every rule-set replacement or suffrage membership change")
	r.Assume("time.Now() advances between events (the harness waits for the nanosecond clock to tick), so updatedAt stamps are ordered like the events")
	r.Assume("all configured rules of part P need >= 1001 hours per token and a run is bounded by its deadline, so no token is refilled during a run; the built-in 33/3s default is excluded from the enforcement count")
	r.Assume("part E trusts golang.org/x/time/rate for the explicit-time calls; RateLimiter.Allow itself reads time.Now() and is not driven on a virtual clock (no time shim in the engine)")

	started := time.Now()
	env := c36NewEnv()

	depth := vlib.Pick(r, 3, 4)
	r.Set("depth", depth)

	var cfgs []c36Cfg

	for _, cid := range []string{"nil", "c1"} {
		for _, nets := range []string{"nil", "8", "16>8", "8>16"} {
			for _, nodes := range []string{"nil", "n1"} {
				for _, member := range []bool{false, true} {
					for _, dm := range []string{"hit", "miss"} {
						cfgs = append(cfgs, c36Cfg{cid: cid, nets: nets, nodes: nodes, member: member, dm: dm})

						// node and suffrage rules only apply to a known node, which takes two events
						// (request, AddNode) to reach: start from there too
						if nodes != "nil" || member {
							cfgs = append(cfgs, c36Cfg{cid: cid, nets: nets, nodes: nodes, member: member, dm: dm, known: true})
						}
					}
				}
			}
		}
	}

	alphabet := []c36Event{
		{"req", "-"}, {"req", "c1"}, {"req", "c2"},
		{"addnode", "n1"}, {"addnode", "n2"},
		{"cid", "nil"}, {"cid", "c1"}, {"cid", "c1c2"},
		{"nets", "nil"}, {"nets", "8"}, {"nets", "16>8"}, {"nets", "8>16"},
		{"nodes", "nil"}, {"nodes", "n1"},
		{"member", "on"}, {"member", "off"}, // n1 joins / leaves the consensus nodes, SAME suffrage state hash
		{"member", "rotate"}, // new suffrage state hash, same members
		{"suf", "suf2"},
		{"dm", "hit"}, {"dm", "miss"},
	}

	r.Set("configurations", len(cfgs))
	r.Set("addresses", []string{"10.1.2.3", "10.2.0.1", "192.168.0.1"})
	r.Set("alphabet", len(alphabet))

	item := 0

	for _, cfg := range cfgs {
		for _, an := range []string{"a1", "a2", "a3"} {
			if cfg.known && an == "a1" {
				continue // for a known node a2 (in 10/8 only) and a3 (in no net) cover the net interplay
			}

			mine := r.Mine(item)
			item++

			if !mine || r.Expired() {
				continue
			}

			prefix := "P/" + cfg.String() + "/" + an
			hist := make([]c36Event, 0, depth)

			var rec func()
			rec = func() {
				if len(hist) <= 1 && r.Expired() {
					return
				}

				for _, ev := range alphabet {
					last := len(hist)+1 == depth
					if last && ev.op != "req" {
						continue // a history is only evaluated at its final request
					}

					hist = append(hist, ev)

					if ev.op == "req" {
						c36RunHistory(r, env, cfg, an, prefix, hist)
					}

					if !last {
						rec()
					}

					hist = hist[:len(hist)-1]
				}
			}

			rec()
		}
	}

	item = c36SpecialValues(r, env, item)

	c36Enforcement(r, env, item)

	if time.Since(started) > 100*time.Hour {
		r.Cap("run took longer than the no-refill assumption allows")
	}
}

// c36SpecialValues (part P0): the rule values "nolimit" and "0" (reject all)
// and the transitions between them and a finite rule, by replacing the default
// map, the client-id rule set or the net rule set, on a cached limiter and on
// an address that has none yet. Oracle: the usual precedence comparison;
// under "0" no request is allowed, under "nolimit" every request is.
func c36SpecialValues(r *vlib.Run, env *c36Env, item int) int {
	depth := vlib.Pick(r, 4, 5)
	alphabet := []c36Event{
		{"req", "-"}, {"req", "c1"},
		{"dm", "hit"}, {"dm", "nolimit"}, {"dm", "zero"},
		{"cid", "nil"}, {"cid", "c1"}, {"cid", "c1:nolimit"}, {"cid", "c1:zero"},
		{"nets", "nil"}, {"nets", "8"}, {"nets", "8:nolimit"}, {"nets", "8:zero"},
	}

	r.Set("special_values_depth", depth)
	r.Set("special_values_alphabet", len(alphabet))

	cfg := c36Cfg{cid: "nil", nets: "nil", nodes: "nil", member: false, dm: "hit"}

	for ai, first := range alphabet { // shard on the first event
		mine := r.Mine(item)
		item++

		if !mine || r.Expired() {
			continue
		}

		_ = ai
		prefix := "P0/" + cfg.String() + "/a1"
		hist := []c36Event{first}

		var rec func()
		rec = func() {
			if hist[len(hist)-1].op == "req" {
				c36RunHistory(r, env, cfg, "a1", prefix, hist)
			}

			if len(hist) == depth {
				return
			}

			for _, ev := range alphabet {
				if len(hist)+1 == depth && ev.op != "req" {
					continue
				}

				hist = append(hist, ev)
				rec()
				hist = hist[:len(hist)-1]
			}
		}

		rec()
	}

	return item
}

func c36RunHistory(r *vlib.Run, env *c36Env, cfg c36Cfg, an, prefix string, hist []c36Event) {
	var sb strings.Builder

	sb.WriteString(prefix)

	for _, e := range hist {
		sb.WriteString("/")
		sb.WriteString(e.String())
	}

	id := sb.String()
	if !r.Want(id) {
		return
	}

	addr := env.addrs[an]
	s := c36NewSys(env, cfg, addr)

	prevReq := ""

	for _, e := range hist[:len(hist)-1] {
		if s.apply(e) != nil {
			prevReq = e.arg
		}
	}

	ev := hist[len(hist)-1]
	res := s.apply(ev)

	r.Eval()
	r.Trace()
	r.TransitionN(int64(len(hist)))

	wtyp, wrule := s.m.choose(env, addr.IP, map[bool]string{true: "", false: ev.arg}[ev.arg == "-"])

	var wlim string
	if wrule == "builtin" {
		wlim = humanizeRateLimiter(defaultRateLimiter.Limit, defaultRateLimiter.Burst)
	} else {
		wlim = humanizeRateLimiter(env.rules[wrule].Limit, env.rules[wrule].Burst)
	}

	// canonical state = what decides this request and every later one
	r.State(fmt.Sprintf("%s|%s|cached=%s|node=%s|cid=%v nets=%v nodes=%v suf=%s mem=%v dm=%v|req=%s|prev=%s|%v",
		cfg, an, res.cachedBefore, s.m.node, s.m.cid, s.m.nets, s.m.nodes, s.m.suf, s.m.members, s.m.dm, ev.arg, prevReq, s.allowed))

	if res.cachedBefore != "none" && len(hist) > 1 {
		prev := hist[len(hist)-2]
		if prev.op != "req" || prev.arg != ev.arg {
			r.Nontrivial(id)
		}
	}

	if res.typ != wtyp || res.limiter != wlim {
		class := c36PrecedenceClass(res, wtyp)

		r.Outcome("precedence-mismatch/" + class + "/want=" + wtyp + "/got=" + res.typ)
		r.Violation(id, map[string]any{
			"kind": "precedence", "class": class, "reused_cached": res.reused,
			"cached": res.cachedBefore, "want": wtyp, "got": res.typ, "same_type_other_rule": res.typ == wtyp,
		}, fmt.Sprintf("%s: request (addr %s, node %q, client id %q) was served by rule set %q limiter %s; the precedence rule on the current rules gives %q limiter %s (rule %s); cached limiter before the request: %s, handed back without evaluating the rules: %v",
			id, addr, s.m.node, ev.arg, res.typ, res.limiter, wtyp, wlim, wrule, res.cachedBefore, res.reused),
			map[string]any{"case": id})

		return
	}

	lid := res.typ + " " + res.limiter

	prev := res.prevLimiter
	if prev != "" && prev != "nolimit" && prev != "0" {
		prev = "finite"
	}

	switch {
	case wrule == "builtin":
		r.Outcome(fmt.Sprintf("ok/%s/allowed=%v", wtyp, res.allowed))
	case wlim == "0" && res.allowed:
		r.Outcome("zero-rule-allowed/" + wtyp)
		r.Violation(id, map[string]any{
			"kind": "enforcement", "class": "zero-rule-allowed", "rule_type": wtyp, "cached": res.cachedBefore, "previous_limiter": prev,
		}, fmt.Sprintf("%s: the request was allowed although the rule in force (%s, and reported as limiter %q) rejects everything; the previous request of the address was served by %q, cached limiter type before: %s",
			id, wtyp, res.limiter, res.prevLimiter, res.cachedBefore), map[string]any{"case": id})
	case wlim == "nolimit" && !res.allowed:
		r.Outcome("nolimit-rule-denied/" + wtyp)
		r.Violation(id, map[string]any{
			"kind": "enforcement", "class": "nolimit-rule-denied", "rule_type": wtyp, "cached": res.cachedBefore, "previous_limiter": prev,
		}, fmt.Sprintf("%s: the request was rejected although the rule in force (%s) is nolimit; previous limiter %q, cached limiter type before: %s",
			id, wtyp, res.prevLimiter, res.cachedBefore), map[string]any{"case": id})
	case wlim == "0" || wlim == "nolimit":
		r.Outcome(fmt.Sprintf("ok/%s/%s/after-%s/allowed=%v", wtyp, wlim, prev, res.allowed))

		if prev != "" && res.prevLimiter != wlim {
			r.Sample(map[string]any{"history": id, "served_by": lid, "allowed": res.allowed, "previous_limiter": res.prevLimiter})
		}
	case s.allowed[lid] > res.burst:
		r.Outcome("over-burst/" + wtyp)
		r.Violation(id, map[string]any{
			"kind": "enforcement", "class": "over-burst", "rule_type": wtyp, "interleaved_other_rule": s.interleaved[lid],
		}, fmt.Sprintf("%s: %d requests were allowed under %q (burst %d, one token per >= 1001h) for the same address and handler without any rule change; another rule served the address in between: %v",
			id, s.allowed[lid], lid, res.burst, s.interleaved[lid]),
			map[string]any{"case": id})
	default:
		r.Outcome(fmt.Sprintf("ok/%s/allowed=%v", wtyp, res.allowed))

		if res.cachedBefore != "none" && res.cachedBefore != wtyp {
			r.Sample(map[string]any{"history": id, "served_by": lid, "allowed": res.allowed, "cached_before": res.cachedBefore})
		}
	}
}

// c36PrecedenceClass names the structural cause of a precedence mismatch.
// "cached-*": the limiter cached for the address was handed back untouched
// (its updatedAt did not move), i.e. the rules were not evaluated for this
// request; everything else is a wrong result of an actual rule evaluation.
func c36PrecedenceClass(res *c36Result, want string) string {
	if !res.reused {
		// ruleByNode refreshes a cached suffrage limiter from the suffrage rule set alone when the suffrage state changed
		if res.cachedBefore == "suffrage" && res.typ == "suffrage" && want != "suffrage" {
			return "cached-suffrage-refreshed-in-place-hides-" + want
		}

		if res.typ == want {
			return "evaluated-right-rule-set-but-limiter-differs" // e.g. burst or special value of the limiter is not the rule's
		}

		return "evaluated-wrong-rule"
	}

	switch c := res.cachedBefore; {
	case c == "clientid":
		return "cached-clientid-serves-other-clientid"
	case c == "net" && want == "clientid":
		return "cached-net-hides-clientid"
	case (c == "node" || c == "suffrage") && want == "clientid":
		return "cached-node-or-suffrage-hides-clientid"
	case c == want:
		return "cached-" + c + "-limiter-differs-from-rule"
	default:
		return "cached-" + c + "-hides-" + want
	}
}

// ---- part E: explicit-time enforcement ----

func c36Enforcement(r *vlib.Run, env *c36Env, item int) {
	type rd struct {
		d time.Duration
		b int
	}

	rules := []rd{{time.Second, 1}, {time.Second, 2}, {time.Second * 2, 4}, {time.Second * 3, 3}, {time.Hour, 2}, {time.Second * 7, 3}, {time.Second * 3, 33}}
	r.Set("enforcement_rules", func() []string {
		var l []string
		for _, x := range rules {
			l = append(l, fmt.Sprintf("%d/%s", x.b, x.d))
		}

		return l
	}())

	for ri, x := range rules {
		mine := r.Mine(item + ri)
		if !mine {
			continue
		}

		grid := []time.Duration{0, x.d / 4, x.d / 2, x.d, 2 * x.d}
		base0 := time.Now().Add(time.Hour * 24 * 365) // any time after the limiter was made: the bucket is full there

		newLimiter := func() *RateLimiter {
			args := NewRateLimitHandlerArgs()
			args.PoolSizes = []uint64{2, 2}
			args.Rules = NewRateLimiterRules()
			_ = args.Rules.SetDefaultRuleMap(NewRateLimiterRuleMap(nil, map[string]RateLimiterRule{c36Handler: NewRateLimiterRule(x.d, x.b)}))

			h, err := NewRateLimitHandler(args)
			if err != nil {
				panic(err)
			}

			l, _ := h.allow(env.addrs["a3"], c36Handler, RateLimitRuleHint{})
			if l == nil || l.Limiter == nil {
				panic("no limiter")
			}

			return l
		}

		run := func(id string, sched []int) {
			if !r.Want(id) {
				return
			}

			l := newLimiter()
			r.Eval()
			r.Trace()
			r.StatesN(1)

			if l.Burst() != x.b {
				r.Violation(id, map[string]any{"kind": "enforcement", "class": "limiter-burst", "dir": c36Dir(l.Burst(), x.b)},
					fmt.Sprintf("rule %d/%s got a limiter with burst %d", x.b, x.d, l.Burst()), map[string]any{"case": id})

				return
			}

			allowedAt := make([]bool, len(sched))
			for i, g := range sched {
				allowedAt[i] = l.Limiter.AllowN(base0.Add(grid[g]), 1)
			}

			nallowed := 0

			for i := range sched {
				if allowedAt[i] {
					nallowed++
				}
			}

			// every window [t_i, t_j]: allowed * d <= b*d + b*w   (integers, nanoseconds)
			for i := range sched {
				n := int64(0)

				for j := i; j < len(sched); j++ {
					if allowedAt[j] {
						n++
					}

					w := int64(grid[sched[j]] - grid[sched[i]])
					if n*int64(x.d) > int64(x.b)*int64(x.d)+int64(x.b)*w {
						r.Outcome("over-rate")
						r.Violation(id, map[string]any{"kind": "enforcement", "class": "over-rate-explicit-clock"},
							fmt.Sprintf("rule %d/%s: %d requests allowed in a window of %s (requests %d..%d of schedule %v on grid %v); bound %d + %d*%s/%s",
								x.b, x.d, n, time.Duration(w), i, j, sched, grid, x.b, x.b, time.Duration(w), x.d), map[string]any{"case": id})

						return
					}
				}
			}

			if len(sched) > x.b {
				r.NontrivialN(1)
			}

			r.Outcome(fmt.Sprintf("E-ok/allowed=%d-of-%d", nallowed, len(sched)))

			if len(sched) == 2*x.b+2 && sched[0] == 0 && sched[len(sched)-1] == 4 {
				r.Sample(map[string]any{"rule": fmt.Sprintf("%d/%s", x.b, x.d), "schedule_grid_index": append([]int{}, sched...), "allowed": allowedAt})
			}
		}

		prefix := fmt.Sprintf("E/%d per %s", x.b, x.d)

		if x.b <= 4 {
			maxk := 2*x.b + 2
			sched := make([]int, 0, maxk)

			var rec func(from int)
			rec = func(from int) {
				if len(sched) > 0 {
					run(prefix+"/"+c36Ints(sched), sched)
				}

				if len(sched) == maxk {
					return
				}

				for g := from; g < len(grid); g++ {
					sched = append(sched, g)
					rec(g)
					sched = sched[:len(sched)-1]
				}
			}

			rec(0)
		} else {
			// large burst: at every grid time either nothing or b+1 requests
			for mask := 1; mask < 1<<len(grid); mask++ {
				var sched []int

				for g := range grid {
					if mask&(1<<g) != 0 {
						for k := 0; k < x.b+1; k++ {
							sched = append(sched, g)
						}
					}
				}

				run(fmt.Sprintf("%s/mask=%d", prefix, mask), sched)
			}
		}
	}
}

func c36Ints(l []int) string {
	var sb strings.Builder
	for _, i := range l {
		sb.WriteString(strconv.Itoa(i))
	}

	return sb.String()
}

func c36Dir(got, want int) string {
	if got > want {
		return "over"
	}

	return "under"
}
