//go:build verif

package launch

import (
	"context"
	"fmt"
	"net"
	"sort"
	"strings"
	"testing"
	"time"

	"github.com/spikeekips/mitum/base"
	"github.com/spikeekips/mitum/util"
	"github.com/spikeekips/mitum/util/valuehash"
	"github.com/spikeekips/mitum/zzverif/vlib"
	"github.com/spikeekips/mitum/zzverif/vsched"
)

// C36, virtual-clock and concurrent part (engine S). launch/ratelimit.go,
// util/lock.go and golang.org/x/time/rate/rate.go run on the shims, so inside a
// controlled execution time.Now() - also the one inside rate.Limiter.Allow - is
// the virtual clock and every Lock/RLock/atomic operation is a scheduling point.
//
// Part V (one thread, controlled clock): per rule "b per d" every
// non-decreasing placement of k <= 2b+2 requests on the time grid
// {0, d/4, d/2, d, 2d} goes through RateLimitHandler.Func; in every window the
// allowed count must be <= b + (b/d) x window (exact integers).
//
// Part C (interleavings): two threads send k requests each from the same
// address to the same handler while a third thread replaces one rule set or
// calls AddNode; every interleaving within the preemption bound. Oracles: the
// rule that served a request is the reference answer on the rules before or
// after the replacement if the request overlaps it, the one before if it
// returned before the replacement began, the one after if it was called after
// the replacement returned; the total of allowed requests is <= burst x number
// of rules in force (no refill: the clock only moves by nanoseconds); no
// panic, no deadlock.

type c36Hash = util.Hash

var c36FixedHash util.Hash = valuehash.NewSHA256([]byte("c36-state-1"))

type c36cObs struct {
	clock  int
	reqs   []*c36cReq
	mStart int
	mEnd   int
	mDone  bool
	addOK  bool // AddNode of the mutator registered the node
	preOK  bool // AddNode among the pre events registered the node
}

func (o *c36cObs) tick() int { o.clock++; return o.clock }

type c36cReq struct {
	thread  int
	n       int
	cid     string
	call    int
	ret     int
	typ     string
	limiter string
	allowed bool
}

type c36cScenario struct {
	name    string
	cfg     c36Cfg   // initial rules (applied inside the execution)
	addr    string   // a1 | a2 | a3
	cids    []string // client id used by requester thread i ("-" = none)
	k       int
	mutator *c36Event // nil = no third thread
	pre     []c36Event // events before the threads start (same thread as the setup)
}

func (s c36cScenario) id() string {
	m := "none"
	if s.mutator != nil {
		m = s.mutator.String()
	}

	var pre []string
	for _, e := range s.pre {
		pre = append(pre, e.String())
	}

	return fmt.Sprintf("C/%s|%s|%s|pre=%s|cids=%s|k=%d|mut=%s", s.name, s.cfg, s.addr, strings.Join(pre, ","), strings.Join(s.cids, ","), s.k, m)
}

// c36cModelRef evaluates the textual precedence rule for the scenario's rules with / without the mutator applied.
func c36cRefs(env *c36Env, sc c36cScenario, preOK, addOK bool) (before, after map[string]string) {
	refs := func(withMut bool) map[string]string {
		sys := &c36Sys{env: env, m: &c36Model{members: map[string]bool{}}}
		evs := []c36Event{
			{"member", map[bool]string{true: "on", false: "off"}[sc.cfg.member]}, {"suf", "suf"}, {"cid", sc.cfg.cid},
			{"nets", sc.cfg.nets}, {"nodes", sc.cfg.nodes}, {"dm", sc.cfg.dm},
		}
		for _, e := range append(evs, sc.pre...) {
			sys.applyModel(e, preOK)
		}

		if withMut && sc.mutator != nil {
			sys.applyModel(*sc.mutator, addOK)
		}

		out := map[string]string{}

		for _, cid := range sc.cids {
			q := cid
			if q == "-" {
				q = ""
			}

			_, rule := sys.m.choose(env, env.addrs[sc.addr].IP, q)
			out[cid] = c36Humanize(env, rule)
		}

		return out
	}

	return refs(false), refs(true)
}

func c36Humanize(env *c36Env, rule string) string {
	if rule == "builtin" {
		return humanizeRateLimiter(defaultRateLimiter.Limit, defaultRateLimiter.Burst)
	}

	return humanizeRateLimiter(env.rules[rule].Limit, env.rules[rule].Burst)
}

// applyModel is the model half of c36Sys.apply (no real handler).
func (s *c36Sys) applyModel(ev c36Event, addOK bool) {
	switch ev.op {
	case "req":
	case "addnode":
		if addOK && s.m.node == "" {
			s.m.node = ev.arg
		}
	case "cid":
		switch ev.arg {
		case "nil":
			s.m.cid = nil
		case "c1":
			s.m.cid = map[string]string{"c1": "cid-c1"}
		case "c1c2":
			s.m.cid = map[string]string{"c1": "cid-c1", "c2": "cid-c2"}
		case "c1'": // c1 with another rule
			s.m.cid = map[string]string{"c1": "cid-c2"}
		}
	case "nets":
		switch ev.arg {
		case "nil":
			s.m.nets = nil
		case "8'": // the same net with another rule
			s.m.nets = []string{"8'"}
		default:
			s.m.nets = strings.Split(ev.arg, ">")
		}
	case "nodes":
		switch ev.arg {
		case "nil":
			s.m.nodes = nil
		case "n1'":
			s.m.nodes = map[string]string{"n1": "suf2"}
		default:
			s.m.nodes = map[string]string{"n1": "node-n1"}
		}
	case "suf":
		s.m.suf = ev.arg
	case "member":
		switch ev.arg {
		case "on":
			s.m.members["n1"] = true
		case "off":
			s.m.members["n1"] = false
		}
	case "dm":
		switch ev.arg {
		case "hit":
			s.m.dm = map[string]string{c36Handler: "dm"}
		case "hit'":
			s.m.dm = map[string]string{c36Handler: "suf2"}
		case "miss":
			s.m.dm = map[string]string{"other-handler": "dm"}
		}
	}
}

// c36cApplyReal applies a rules event to the real handler (inside the execution).
func c36cApplyReal(env *c36Env, h *RateLimitHandler, addr *net.UDPAddr, ev c36Event) (addOK bool) {
	rm := func(name string) RateLimiterRuleMap {
		r := env.rules[name]

		return NewRateLimiterRuleMap(&r, nil)
	}

	rules := h.rules

	switch ev.op {
	case "addnode":
		return h.AddNode(addr, env.nodes[ev.arg])
	case "cid":
		switch ev.arg {
		case "nil":
			_ = rules.SetClientIDRuleSet(nil)
		case "c1":
			_ = rules.SetClientIDRuleSet(NewClientIDRateLimiterRuleSet(map[string]RateLimiterRuleMap{"c1": rm("cid-c1")}))
		case "c1c2":
			_ = rules.SetClientIDRuleSet(NewClientIDRateLimiterRuleSet(map[string]RateLimiterRuleMap{"c1": rm("cid-c1"), "c2": rm("cid-c2")}))
		case "c1'":
			_ = rules.SetClientIDRuleSet(NewClientIDRateLimiterRuleSet(map[string]RateLimiterRuleMap{"c1": rm("cid-c2")}))
		}
	case "nets":
		switch ev.arg {
		case "nil":
			_ = rules.SetNetRuleSet(nil)
		case "8'":
			rs := NewNetRateLimiterRuleSet()
			rs.Add(env.ipnets["8"], rm("net-8'"))
			_ = rules.SetNetRuleSet(rs)
		default:
			rs := NewNetRateLimiterRuleSet()
			for _, k := range strings.Split(ev.arg, ">") {
				rs.Add(env.ipnets[k], rm("net-"+k))
			}

			_ = rules.SetNetRuleSet(rs)
		}
	case "nodes":
		switch ev.arg {
		case "nil":
			_ = rules.SetNodeRuleSet(nil)
		case "n1'":
			_ = rules.SetNodeRuleSet(NewNodeRateLimiterRuleSet(map[string]RateLimiterRuleMap{env.nodes["n1"].String(): rm("suf2")}))
		default:
			_ = rules.SetNodeRuleSet(NewNodeRateLimiterRuleSet(map[string]RateLimiterRuleMap{env.nodes["n1"].String(): rm("node-n1")}))
		}
	case "suf":
		if err := rules.SetSuffrageRuleSet(NewSuffrageRateLimiterRuleSet(rm(ev.arg))); err != nil {
			panic(err)
		}
	case "member":
		member := ev.arg == "on"
		n1 := env.nodes["n1"]
		st := c36FixedHash

		rules.SetIsInConsensusNodesFunc(func() (c36Hash, func(base.Address) bool, error) {
			return st, func(a base.Address) bool { return member && a.Equal(n1) }, nil
		})
	case "dm":
		switch ev.arg {
		case "hit":
			_ = rules.SetDefaultRuleMap(NewRateLimiterRuleMap(nil, map[string]RateLimiterRule{c36Handler: env.rules["dm"]}))
		case "hit'":
			_ = rules.SetDefaultRuleMap(NewRateLimiterRuleMap(nil, map[string]RateLimiterRule{c36Handler: env.rules["suf2"]}))
		case "miss":
			_ = rules.SetDefaultRuleMap(NewRateLimiterRuleMap(nil, map[string]RateLimiterRule{"other-handler": env.rules["dm"]}))
		}
	default:
		panic("unknown event " + ev.op)
	}

	return false
}

func c36cRequest(h *RateLimitHandler, addr *net.UDPAddr, cid string) (typ, limiter string, allowed bool) {
	ctx := context.WithValue(context.Background(), RateLimiterLimiterNameContextKey, c36Handler)
	if cid != "-" {
		ctx = context.WithValue(ctx, RateLimiterClientIDContextKey, cid)
	}

	rctx, _ := h.Func(ctx, addr, func(c context.Context) (context.Context, error) { return c, nil })

	f, ok := rctx.Value(RateLimiterResultContextKey).(func() RateLimiterResult)
	if !ok {
		panic("no rate limiter result in the context")
	}

	// Allowed is captured when Func decided; the limiter description is read now, right after the return
	rr := f()

	return rr.RulesetType, rr.Limiter, rr.Allowed
}

func c36cBuild(env *c36Env, sc c36cScenario) (vsched.Scenario, *c36cObs) {
	o := &c36cObs{}
	addr := env.addrs[sc.addr]

	var h *RateLimitHandler

	ready := false

	setup := func() {
		args := NewRateLimitHandlerArgs()
		args.PoolSizes = []uint64{2, 2}
		args.Rules = NewRateLimiterRules()

		var err error

		h, err = NewRateLimitHandler(args)
		if err != nil {
			panic(err)
		}

		evs := []c36Event{
			{"member", map[bool]string{true: "on", false: "off"}[sc.cfg.member]}, {"suf", "suf"}, {"cid", sc.cfg.cid},
			{"nets", sc.cfg.nets}, {"nodes", sc.cfg.nodes}, {"dm", sc.cfg.dm},
		}

		for _, e := range append(evs, sc.pre...) {
			vsched.Advance(1)

			if e.op == "req" {
				c36cRequest(h, addr, e.arg)

				continue
			}

			if c36cApplyReal(env, h, addr, e) {
				o.preOK = true
			}
		}

		vsched.Advance(time.Millisecond) // every later stamp is strictly after the setup
		ready = true
	}

	requester := func(ti int, cid string) func() {
		return func() {
			if ti == 0 {
				setup()
			} else {
				vsched.Point("wait-setup", func() bool { return ready })
			}

			for n := 0; n < sc.k; n++ {
				q := &c36cReq{thread: ti, n: n, cid: cid}
				o.reqs = append(o.reqs, q)

				vsched.Advance(1)
				q.call = o.tick()
				q.typ, q.limiter, q.allowed = c36cRequest(h, addr, cid)
				q.ret = o.tick()
			}
		}
	}

	var roots []func()
	for i, cid := range sc.cids {
		roots = append(roots, requester(i, cid))
	}

	if sc.mutator != nil {
		roots = append(roots, func() {
			vsched.Point("wait-setup", func() bool { return ready })
			// Advance is a scheduling point, then the clock move and the stamp of the new rule set are one step
			vsched.Advance(1)
			o.mStart = o.tick()
			o.addOK = c36cApplyReal(env, h, addr, *sc.mutator)
			o.mEnd = o.tick()
			o.mDone = true
		})
	}

	fail := func(sig map[string]any, detail string) *vsched.Fail {
		return &vsched.Fail{Sig: sig, Detail: detail + " | " + sc.id() + " | " + c36cDump(o)}
	}

	nrules := 1
	if sc.mutator != nil {
		nrules = 2
	}

	return vsched.Scenario{
		Roots: roots,
		Outcome: func(*vsched.Exec) string {
			var parts []string
			for _, q := range o.reqs {
				parts = append(parts, fmt.Sprintf("T%d.%d:%s:%v", q.thread, q.n, q.limiter, q.allowed))
			}

			sort.Strings(parts)

			return strings.Join(parts, " ")
		},
		Check: func(x *vsched.Exec) *vsched.Fail {
			if x.Panic != nil {
				return fail(map[string]any{"kind": "conc-panic"}, fmt.Sprintf("panic: %v\n%s", x.Panic, x.PanicStack))
			}

			if x.Deadlock {
				return fail(map[string]any{"kind": "conc-deadlock"}, strings.Join(x.Blocked, "; "))
			}

			before, after := c36cRefs(env, sc, o.preOK, o.addOK)

			nallowed := 0

			for _, q := range o.reqs {
				if q.ret == 0 {
					return fail(map[string]any{"kind": "conc-request-not-finished"}, fmt.Sprintf("request T%d.%d never returned", q.thread, q.n))
				}

				if q.allowed {
					nallowed++
				}

				okBefore := q.limiter == before[q.cid]
				okAfter := q.limiter == after[q.cid]

				var rel string

				switch {
				case sc.mutator == nil || q.ret < o.mStart:
					rel = "before"
				case q.call > o.mEnd:
					rel = "after"
				default:
					rel = "overlap"
				}

				good := (rel == "before" && okBefore) || (rel == "after" && okAfter) || (rel == "overlap" && (okBefore || okAfter))
				if good {
					continue
				}

				class := "rule-of-neither-state"

				switch {
				case rel == "after" && okBefore:
					class = "stale-rule-after-replacement-returned"
				case rel == "before" && okAfter:
					class = "new-rule-before-replacement-began"
				}

				mut := "none"
				if sc.mutator != nil {
					mut = sc.mutator.op
				}

				// the known race needs a request that evaluated the rules while the replacement was in flight
				overlapped := false

				for _, p := range o.reqs {
					if sc.mutator != nil && p.call < o.mEnd && p.ret > o.mStart {
						overlapped = true
					}
				}

				return fail(map[string]any{"kind": "conc-precedence", "class": class, "mutator": mut, "a_request_overlapped_the_replacement": overlapped},
					fmt.Sprintf("request T%d.%d (client id %q, logical time %d..%d, %s the replacement %d..%d) was served by limiter %s (%s); reference before: %s, after: %s",
						q.thread, q.n, q.cid, q.call, q.ret, rel, o.mStart, o.mEnd, q.limiter, q.typ, before[q.cid], after[q.cid]))
			}

			// all rules of this part have burst 1 and need >= 1001 h per token
			if nallowed > nrules {
				return fail(map[string]any{"kind": "conc-enforcement", "class": "over-burst-concurrent", "rules_in_force": nrules},
					fmt.Sprintf("%d requests allowed, but only %d rule(s) of burst 1 were in force and the clock moved by nanoseconds", nallowed, nrules))
			}

			return nil
		},
	}, o
}

func c36cDump(o *c36cObs) string {
	var parts []string
	for _, q := range o.reqs {
		parts = append(parts, fmt.Sprintf("{T%d.%d cid=%s %d..%d %s %s allowed=%v}", q.thread, q.n, q.cid, q.call, q.ret, q.typ, q.limiter, q.allowed))
	}

	return fmt.Sprintf("mutator=%d..%d addOK=%v preOK=%v %s", o.mStart, o.mEnd, o.addOK, o.preOK, strings.Join(parts, " "))
}

func TestVerifC36Conc(t *testing.T) {
	r := vlib.Start("C36")
	defer r.Finish()
	r.Rule("V: per rule (b per d) every non-decreasing placement of k <= 2b+2 requests on the virtual-time grid {0,d/4,d/2,d,2d}, each one execution through RateLimitHandler.Func; non-trivial = more requests than the burst. " +
		"C: scenario = initial rules x client ids of two requester threads x k requests each x one mutator event of a third thread; all interleavings within the preemption bound; non-trivial = more than one observable outcome; states = distinct (scenario, outcome)")
	r.Assume("launch/ratelimit.go, util/lock.go and golang.org/x/time/rate/rate.go (pinned v0.7.0) are compiled with sync->vsync, sync/atomic->vatomic, time.Now->virtual clock; scheduling points before every Lock/RLock/atomic op; unsynchronised accesses (e.g. RateLimiterRules.IsInConsensusNodesFunc) are invisible to the scheduler and not claimed")
	r.Assume("every thread moves the virtual clock by 1 ns before each of its operations, so stamps taken by different operations differ as on a nanosecond clock")

	env := c36NewEnv()
	env.rules["net-8'"] = env.rules["suf2"] // "the same net with another rule"
	env.ipnets["8'"] = env.ipnets["8"]

	item := c36cVirtualClock(r, env)
	c36cInterleavings(r, env, item)
}

// ---- part V ----

func c36cVirtualClock(r *vlib.Run, env *c36Env) int {
	type rd struct {
		d time.Duration
		b int
	}

	rules := []rd{{time.Second, 1}, {time.Second, 2}, {time.Second * 2, 4}, {time.Second * 3, 3}, {time.Hour, 2}, {time.Second * 7, 3}, {time.Second * 3, 33}}
	if !r.Thorough() {
		rules = []rd{{time.Second, 1}, {time.Second, 2}, {time.Second * 3, 3}, {time.Second * 3, 33}}
	}

	r.Set("virtual_clock_rules", func() []string {
		var l []string
		for _, x := range rules {
			l = append(l, fmt.Sprintf("%d/%s", x.b, x.d))
		}

		return l
	}())

	item := 0

	for _, x := range rules {
		x := x
		grid := []time.Duration{0, x.d / 4, x.d / 2, x.d, 2 * x.d}
		want := humanizeRateLimiter(NewRateLimiterRule(x.d, x.b).Limit, x.b)

		run := func(id string, sched []int) {
			mine := r.Mine(item)
			item++

			if !mine || !r.Want(id) || r.Expired() {
				return
			}

			allowedAt := make([]bool, len(sched))
			limiters := make([]string, len(sched))

			ex := vsched.Run(vsched.Options{}, func() {
				args := NewRateLimitHandlerArgs()
				args.PoolSizes = []uint64{2, 2}
				args.Rules = NewRateLimiterRules()
				_ = args.Rules.SetDefaultRuleMap(NewRateLimiterRuleMap(nil, map[string]RateLimiterRule{c36Handler: NewRateLimiterRule(x.d, x.b)}))

				h, err := NewRateLimitHandler(args)
				if err != nil {
					panic(err)
				}

				vsched.Advance(time.Millisecond)

				cur := time.Duration(0)

				for i, g := range sched {
					if grid[g] > cur {
						vsched.Advance(grid[g] - cur)
						cur = grid[g]
					}

					_, limiters[i], allowedAt[i] = c36cRequest(h, env.addrs["a3"], "-")
				}
			})

			r.Eval()
			r.Trace()
			r.TransitionN(int64(len(ex.Points())))
			r.StatesN(1)

			if ex.Panic != nil || ex.Deadlock || ex.Diverged != "" {
				panic(fmt.Sprintf("part V execution failed: panic=%v deadlock=%v %s", ex.Panic, ex.Deadlock, ex.Diverged))
			}

			nallowed := 0

			for i := range sched {
				if limiters[i] != want {
					r.Violation(id, map[string]any{"kind": "conc-precedence", "class": "virtual-clock-wrong-limiter"},
						fmt.Sprintf("rule %d/%s: request %d served by limiter %s, expected %s", x.b, x.d, i, limiters[i], want), nil)

					return
				}

				if allowedAt[i] {
					nallowed++
				}
			}

			for i := range sched {
				n := int64(0)

				for j := i; j < len(sched); j++ {
					if allowedAt[j] {
						n++
					}

					w := int64(grid[sched[j]] - grid[sched[i]])
					if n*int64(x.d) > int64(x.b)*int64(x.d)+int64(x.b)*w {
						r.Outcome("V-over-rate")
						r.Violation(id, map[string]any{"kind": "enforcement", "class": "over-rate-virtual-clock"},
							fmt.Sprintf("rule %d/%s through RateLimitHandler.Func on the virtual clock: %d requests allowed in a window of %s (requests %d..%d of schedule %v on grid %v, allowed %v); bound %d + %d*%s/%s",
								x.b, x.d, n, time.Duration(w), i, j, sched, grid, allowedAt, x.b, x.b, time.Duration(w), x.d), nil)

						return
					}
				}
			}

			if len(sched) > x.b {
				r.NontrivialN(1)
			}

			r.Outcome(fmt.Sprintf("V-ok/allowed=%d-of-%d", nallowed, len(sched)))

			if len(sched) == 2*x.b+2 && sched[0] == 0 && sched[len(sched)-1] == 4 {
				r.Sample(map[string]any{"rule": fmt.Sprintf("%d/%s", x.b, x.d), "schedule_grid_index": append([]int{}, sched...), "allowed": allowedAt})
			}
		}

		prefix := fmt.Sprintf("V/%d per %s", x.b, x.d)

		if x.b <= 4 {
			maxk := 2*x.b + 2
			sched := make([]int, 0, maxk)

			var rec func(from int)
			rec = func(from int) {
				if len(sched) > 0 {
					run(prefix+"/"+c36Ints(sched), sched)
				}

				if len(sched) == maxk {
					return
				}

				for g := from; g < len(grid); g++ {
					sched = append(sched, g)
					rec(g)
					sched = sched[:len(sched)-1]
				}
			}

			rec(0)
		} else {
			for mask := 1; mask < 1<<len(grid); mask++ {
				var sched []int

				for g := range grid {
					if mask&(1<<g) != 0 {
						for k := 0; k < x.b+1; k++ {
							sched = append(sched, g)
						}
					}
				}

				run(fmt.Sprintf("%s/mask=%d", prefix, mask), sched)
			}
		}
	}

	// the special rule values on the virtual clock: "nolimit" allows every request, "0" none, at any time
	for _, v := range []string{"nolimit", "zero"} {
		v := v
		rule := env.rules[v]
		want := humanizeRateLimiter(rule.Limit, rule.Burst)
		grid := []time.Duration{0, time.Second / 4, time.Second / 2, time.Second, 2 * time.Second}

		sched := make([]int, 0, 4)

		var rec func(from int)
		rec = func(from int) {
			if len(sched) > 0 {
				id := "V/" + v + "/" + c36Ints(sched)

				mine := r.Mine(item)
				item++

				if mine && r.Want(id) && !r.Expired() {
					allowedAt := make([]bool, len(sched))
					limiters := make([]string, len(sched))

					ex := vsched.Run(vsched.Options{}, func() {
						args := NewRateLimitHandlerArgs()
						args.PoolSizes = []uint64{2, 2}
						args.Rules = NewRateLimiterRules()
						_ = args.Rules.SetDefaultRuleMap(NewRateLimiterRuleMap(nil, map[string]RateLimiterRule{c36Handler: rule}))

						h, err := NewRateLimitHandler(args)
						if err != nil {
							panic(err)
						}

						cur := time.Duration(0)

						for i, g := range sched {
							if grid[g] > cur {
								vsched.Advance(grid[g] - cur)
								cur = grid[g]
							}

							_, limiters[i], allowedAt[i] = c36cRequest(h, env.addrs["a3"], "-")
						}
					})

					if ex.Panic != nil || ex.Deadlock || ex.Diverged != "" {
						panic(fmt.Sprintf("part V execution failed: panic=%v deadlock=%v %s", ex.Panic, ex.Deadlock, ex.Diverged))
					}

					r.Eval()
					r.Trace()
					r.StatesN(1)
					r.NontrivialN(1)

					ok := true

					for i := range sched {
						if limiters[i] != want || allowedAt[i] != (v == "nolimit") {
							ok = false

							r.Violation(id, map[string]any{"kind": "enforcement", "class": "special-value-virtual-clock", "value": v},
								fmt.Sprintf("rule %q: request %d of schedule %v served by limiter %s, allowed=%v", v, i, sched, limiters[i], allowedAt[i]), nil)

							break
						}
					}

					if ok {
						r.Outcome("V-ok/" + v)
					}
				}
			}

			if len(sched) == 4 {
				return
			}

			for g := from; g < len(grid); g++ {
				sched = append(sched, g)
				rec(g)
				sched = sched[:len(sched)-1]
			}
		}

		rec(0)
	}

	return item
}

// ---- part C ----

func c36cScenarios(r *vlib.Run) []c36cScenario {
	base0 := c36Cfg{cid: "nil", nets: "nil", nodes: "nil", member: false, dm: "hit"}
	with := func(f func(*c36Cfg)) c36Cfg {
		c := base0
		f(&c)

		return c
	}
	ev := func(op, arg string) *c36Event { return &c36Event{op, arg} }

	k := 2

	l := []c36cScenario{
		// no third thread: the limiter of the address is made once
		{name: "same-rule", cfg: base0, addr: "a3", cids: []string{"-", "-"}, k: k},
		{name: "same-rule-net", cfg: with(func(c *c36Cfg) { c.nets = "8" }), addr: "a1", cids: []string{"-", "-"}, k: k},
		{name: "same-client", cfg: with(func(c *c36Cfg) { c.cid = "c1" }), addr: "a3", cids: []string{"c1", "c1"}, k: k},
		// a higher-order rule set appears / disappears
		{name: "cid-install", cfg: base0, addr: "a3", cids: []string{"c1", "c1"}, k: k, mutator: ev("cid", "c1")},
		{name: "cid-remove", cfg: with(func(c *c36Cfg) { c.cid = "c1" }), addr: "a3", cids: []string{"c1", "c1"}, k: k, mutator: ev("cid", "nil")},
		{name: "net-install", cfg: base0, addr: "a1", cids: []string{"-", "-"}, k: k, mutator: ev("nets", "8")},
		{name: "net-remove", cfg: with(func(c *c36Cfg) { c.nets = "8" }), addr: "a1", cids: []string{"-", "-"}, k: k, mutator: ev("nets", "nil")},
		// the rule set that serves the address is replaced by one with another rule
		{name: "cid-replace", cfg: with(func(c *c36Cfg) { c.cid = "c1" }), addr: "a3", cids: []string{"c1", "c1"}, k: k, mutator: ev("cid", "c1'")},
		{name: "net-replace", cfg: with(func(c *c36Cfg) { c.nets = "8" }), addr: "a1", cids: []string{"-", "-"}, k: k, mutator: ev("nets", "8'")},
		{name: "dm-replace", cfg: base0, addr: "a3", cids: []string{"-", "-"}, k: k, mutator: ev("dm", "hit'")},
		// the address becomes a known node
		{name: "addnode", cfg: with(func(c *c36Cfg) { c.nodes = "n1" }), addr: "a3", cids: []string{"-", "-"}, k: k,
			pre: []c36Event{{"req", "-"}}, mutator: ev("addnode", "n1")},
		{name: "addnode-suffrage", cfg: with(func(c *c36Cfg) { c.member = true }), addr: "a3", cids: []string{"-", "-"}, k: k,
			pre: []c36Event{{"req", "-"}}, mutator: ev("addnode", "n1")},
		// n1 leaves the consensus nodes while the suffrage state hash stays the same; the suffrage limiter is cached
		{name: "suffrage-leave-same-hash", cfg: with(func(c *c36Cfg) { c.member = true }), addr: "a3", cids: []string{"-", "-"}, k: k,
			pre: []c36Event{{"req", "-"}, {"addnode", "n1"}, {"req", "-"}}, mutator: ev("member", "off")},
		{name: "node-remove", cfg: with(func(c *c36Cfg) { c.nodes = "n1" }), addr: "a3", cids: []string{"-", "-"}, k: k,
			pre: []c36Event{{"req", "-"}, {"addnode", "n1"}}, mutator: ev("nodes", "nil")},
		{name: "node-replace", cfg: with(func(c *c36Cfg) { c.nodes = "n1" }), addr: "a3", cids: []string{"-", "-"}, k: k,
			pre: []c36Event{{"req", "-"}, {"addnode", "n1"}}, mutator: ev("nodes", "n1'")},
	}

	if r.Thorough() {
		l = append(l,
			c36cScenario{name: "same-rule-k3", cfg: base0, addr: "a3", cids: []string{"-", "-"}, k: 3},
			c36cScenario{name: "net-replace-with-client", cfg: with(func(c *c36Cfg) { c.nets = "8"; c.cid = "c1" }), addr: "a1", cids: []string{"-", "c2"}, k: k, mutator: ev("nets", "8'")},
			c36cScenario{name: "three-requesters", cfg: base0, addr: "a3", cids: []string{"-", "-", "-"}, k: 1},
		)
	}

	return l
}

func c36cInterleavings(r *vlib.Run, env *c36Env, item int) {
	bound := vlib.Pick(r, 1, 2)
	r.Set("preemption_bound", bound)

	scs := c36cScenarios(r)
	r.Set("interleaving_scenarios", len(scs))

	for _, sc := range scs {
		sc := sc

		mine := r.Mine(item)
		item++

		if !mine || r.Expired() {
			continue
		}

		id := sc.id()
		build := func() vsched.Scenario {
			s, _ := c36cBuild(env, sc)

			return s
		}

		if rid, rp := r.Replaying(); rp {
			k := strings.LastIndex(rid, "#")
			if k < 0 || rid[:k] != id {
				continue
			}

			s := build()
			x := vsched.Run(vsched.Options{Prefix: vsched.ParseChoices(rid[k+1:])}, s.Roots...)
			r.Trace()

			if f := s.Check(x); f != nil {
				r.Violation(rid, f.Sig, f.Detail, nil)
			}

			continue
		}

		res := vsched.Explore(vsched.Config{Name: id, Bound: bound, Build: build, Expired: r.Expired, MaxFound: 3, Horizon: 5000, DeadlockIsFailure: true})
		if res.EngineError != "" {
			panic("engine error in " + id + ": " + res.EngineError)
		}

		r.TraceN(res.Executions)
		r.TransitionN(res.Points)
		r.EvalN(res.Executions)
		r.Add("interleaving_scenarios_run", 1)

		if res.Capped != "" {
			r.Cap(res.Capped)
		} else {
			r.Min("preemption_bound_completed", int64(res.BoundCompleted))
		}

		r.Max("max_points_per_execution", int64(res.MaxPoints))

		if len(res.Outcomes) > 1 {
			r.Nontrivial(id)
		}

		for o := range res.Outcomes {
			r.State(id + "=>" + o)

			if strings.HasPrefix(o, "FAIL:") {
				r.Outcome(o)
			}
		}

		r.Outcome(fmt.Sprintf("C-outcomes=%d", len(res.Outcomes)))

		for _, f := range res.Found {
			r.Violation(id+"#"+vsched.ChoicesString(f.Choices), f.Fail.Sig, f.Fail.Detail+fmt.Sprintf(" (preemptions=%d)", f.Preempt), nil)
		}

		r.Sample(map[string]any{"scenario": id, "executions": res.Executions, "distinct_outcomes": len(res.Outcomes), "max_points": res.MaxPoints})
	}
}
