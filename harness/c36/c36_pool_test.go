//go:build verif

package launch

import (
	"context"
	"fmt"
	"net"
	"strings"
	"testing"
	"time"

	"github.com/spikeekips/mitum/zzverif/vlib"
)

// C36, part A (sequential, engine Q): the address pool bookkeeping behind the
// node / suffrage rule. Which node a request belongs to is what the pool
// remembers for the client address (AddNode after the node challenge); the pool
// forgets addresses when more than MaxAddrs are known (oldest first) and when
// they were idle longer than ExpireAddr. The histories of part P never evict.
//
// Here a handler with a small MaxAddrs gets, besides requests and AddNode of
// the main address, requests from NEW addresses (172.16.0.k, no node), the
// shrink step of the handler's daemon (RateLimitHandler.shrink with an
// ExpireAddr that never passes: overflow eviction only) and the same step with
// an explicit expiry point (addrPool.shrink: every address is idle / every
// address not touched by the previous event is idle). No wall clock is waited
// for; the expiry point is a time stamp the harness took between two events.
//
// Oracle (the precedence sentence of the property, nothing else): the node of
// an address is the node of the first AddNode since the address (re)entered
// the pool; an address that the pool does not hold any more has no node. So a
// request of an evicted address is evaluated like one of an unknown address
// (net rule, default map, built-in), and after a later AddNode with the rule
// of THAT node. Whether an address is held is observed on the real pool
// (addrPool.l), not predicted: how many and which addresses are evicted is not
// part of the property.

type c36PoolCfg struct {
	c36Cfg
	maxAddrs uint64
}

func (c c36PoolCfg) String() string {
	return fmt.Sprintf("%s,maxaddrs:%d", c.c36Cfg.String(), c.maxAddrs)
}

type c36PoolSys struct {
	*c36Sys
	stamps  []time.Time // harness time before every event of the history
	touched time.Time   // harness time after the last event that touched the main address
	lastNew *net.UDPAddr
	nnew    int

	evictions       int
	evictedBy       string // how the main address was evicted last: "" (never), overflow, expiry
	nodeWhenEvicted string
	everAllowed     map[string]int // allowed requests of the main address per limiter identity, evictions included
}

func c36NewPoolSys(env *c36Env, cfg c36PoolCfg, addr *net.UDPAddr) *c36PoolSys {
	s := c36NewSysWith(env, cfg.c36Cfg, addr, func(args *RateLimitHandlerArgs) {
		args.MaxAddrs = cfg.maxAddrs
		args.ExpireAddr = time.Hour * 24 * 365 // "shrink" alone never expires anything
	})

	env.tick()

	ever := map[string]int{}
	for k, n := range s.allowed { // the request of the "known" setup
		ever[k] = n
	}

	return &c36PoolSys{c36Sys: s, touched: time.Now(), everAllowed: ever}
}

func (p *c36PoolSys) held() bool {
	return p.h.pool.l.Exists(p.addr.String())
}

// apply runs one event of part A; a request returns what the handler reported.
func (p *c36PoolSys) apply(ev c36Event) *c36Result {
	p.env.tick()
	p.stamps = append(p.stamps, time.Now())
	p.env.tick()

	held := p.held()

	var res *c36Result

	var point time.Time

	switch ev.op {
	case "req":
		res = p.c36Sys.apply(ev)

		if res.allowed {
			p.everAllowed[res.typ+" "+res.limiter]++
		}

		p.env.tick()
		p.touched = time.Now()
	case "addnode":
		// the node challenge succeeded from this address: the first one since the address entered the pool counts
		_ = p.h.AddNode(p.addr, p.env.nodes[ev.arg])

		if held && p.m.node == "" {
			p.m.node = ev.arg

			p.env.tick()
			p.touched = time.Now()
		}
	case "reqnew":
		// a request, without node, from an address that never sent one
		p.nnew++
		p.lastNew = &net.UDPAddr{IP: net.IPv4(172, 16, 0, byte(p.nnew)), Port: 5000 + p.nnew}

		saved := *p.c36Sys
		m := *p.m
		m.node = ""

		p.c36Sys.addr, p.c36Sys.m = p.lastNew, &m
		p.c36Sys.allowed, p.c36Sys.interleaved = map[string]int{}, map[string]bool{}
		p.c36Sys.lastServed, p.c36Sys.prevLimiter = "", ""

		res = p.c36Sys.apply(c36Event{"req", "-"})

		*p.c36Sys = saved
	case "shrink": // the daemon's step; nothing is idle long enough: only the MaxAddrs overflow evicts
		_ = p.h.shrink(context.Background())
	case "expire":
		point = time.Now() // every address was idle for ExpireAddr

		if ev.arg == "older" && len(p.stamps) > 1 {
			point = p.stamps[len(p.stamps)-2] // only what the previous event touched was not idle for ExpireAddr
		}

		_ = p.h.pool.shrink(context.Background(), point, p.h.args.MaxAddrs)
	default:
		panic("unknown event " + ev.op)
	}

	if held && !p.held() {
		// the pool dropped the main address: it is an unknown address from now on
		p.evictions++
		p.evictedBy = "overflow"

		if ev.op == "expire" && p.touched.Before(point) {
			p.evictedBy = "expiry"
		}

		p.nodeWhenEvicted = p.m.node
		p.m.node = ""

		// its limiters went with it (see the assumption in TestVerifC36Pool)
		p.allowed, p.interleaved = map[string]int{}, map[string]bool{}
		p.lastServed, p.prevLimiter = "", ""
	}

	p.env.tick()

	return res
}

func TestVerifC36Pool(t *testing.T) {
	r := vlib.Start("C36")
	defer r.Finish()
	r.Rule("A: every (rules configuration with a node rule or a consensus node x MaxAddrs x main address unknown / known as node n1) x every event history of length <= pool_depth over {request, AddNode n1, AddNode n2, request from a new address, shrink (overflow), expire all, expire all but what the previous event touched} that ends with a request, each on a fresh RateLimitHandler; " +
		"non-trivial = the final request comes from the main address after the pool had evicted it while it was known as a node")
	r.Assume("part A: whether the pool still holds an address is read from the real pool (addrPool.l); which and how many addresses a shrink evicts is not judged")
	r.Assume("part A: the limiters of an evicted address are dropped with it, so the allowed count of the address restarts at an eviction (a rule whose refill time is longer than the idle expiry gets a full bucket again after the expiry; recorded as outcome bucket-restarted-after-eviction, not judged)")
	r.Assume("part A: time.Now() advances between events (the harness waits for the nanosecond clock to tick); the expiry point is a stamp taken between two events, no wall-clock duration is waited for")

	env := c36NewEnv()

	depth := vlib.Pick(r, 5, 6)
	r.Set("pool_depth", depth)

	var cfgs []c36PoolCfg

	for _, maxAddrs := range []uint64{1, 2} {
		for _, nets := range []string{"nil", "8"} {
			for _, nodes := range []string{"nil", "n1", "n1n2"} {
				for _, member := range []bool{false, true} {
					if nodes == "nil" && !member {
						continue // no rule depends on the node of the address
					}

					for _, dm := range []string{"hit", "miss"} {
						for _, known := range []bool{false, true} {
							cfgs = append(cfgs, c36PoolCfg{
								c36Cfg:   c36Cfg{cid: "nil", nets: nets, nodes: nodes, member: member, dm: dm, known: known},
								maxAddrs: maxAddrs,
							})
						}
					}
				}
			}
		}
	}

	alphabet := []c36Event{
		{"req", "-"}, {"reqnew", ""},
		{"addnode", "n1"}, {"addnode", "n2"},
		{"shrink", ""}, {"expire", "all"}, {"expire", "older"},
	}

	r.Set("pool_configurations", len(cfgs))
	r.Set("pool_alphabet", len(alphabet))
	r.Set("pool_max_addrs", []int{1, 2})

	for item, cfg := range cfgs {
		if !r.Mine(item) || r.Expired() {
			continue
		}

		prefix := "A/" + cfg.String() + "/a2"
		hist := make([]c36Event, 0, depth)

		var rec func()
		rec = func() {
			if len(hist) <= 2 && r.Expired() {
				return
			}

			for _, ev := range alphabet {
				isreq := ev.op == "req" || ev.op == "reqnew"

				last := len(hist)+1 == depth
				if last && !isreq {
					continue // a history is only evaluated at its final request
				}

				hist = append(hist, ev)

				if isreq {
					c36PoolRunHistory(r, env, cfg, prefix, hist)
				}

				if !last {
					rec()
				}

				hist = hist[:len(hist)-1]
			}
		}

		rec()
	}
}

func c36PoolRunHistory(r *vlib.Run, env *c36Env, cfg c36PoolCfg, prefix string, hist []c36Event) {
	var sb strings.Builder

	sb.WriteString(prefix)

	for _, e := range hist {
		sb.WriteString("/")
		sb.WriteString(e.String())
	}

	id := sb.String()
	if !r.Want(id) {
		return
	}

	p := c36NewPoolSys(env, cfg, env.addrs["a2"])

	for _, e := range hist[:len(hist)-1] {
		_ = p.apply(e)
	}

	ev := hist[len(hist)-1]
	heldBefore := p.held()
	res := p.apply(ev)

	r.Eval()
	r.Trace()
	r.TransitionN(int64(len(hist)))

	isnew := ev.op == "reqnew"

	// the reference: the precedence sentence on the rules, with the node the address is known as
	m := *p.m
	addr := p.addr

	if isnew {
		m.node = ""
		addr = p.lastNew
	}

	wtyp, wrule := m.choose(env, addr.IP, "")
	wlim := c36Humanize(env, wrule)

	nodeNow := "none"

	switch {
	case isnew:
		nodeNow = "new-address"
	case m.node == "":
	case p.evictions > 0 && p.nodeWhenEvicted != "" && m.node != p.nodeWhenEvicted:
		nodeNow = "other-than-when-evicted"
	case p.evictions > 0 && p.nodeWhenEvicted != "":
		nodeNow = "same-as-when-evicted"
	default:
		nodeNow = "node"
	}

	evicted := p.evictedBy
	if evicted == "" {
		evicted = "never"
	}

	forgotten := p.evictions > 0 && p.nodeWhenEvicted != ""

	r.State(fmt.Sprintf("%s|new=%v|held=%v|cached=%s|node=%s|evicted=%s,%s|queue=%d|allowed=%v",
		cfg, isnew, heldBefore, res.cachedBefore, m.node, evicted, p.nodeWhenEvicted, p.h.pool.addrsQueue.Len(), p.allowed))

	if !isnew && forgotten {
		r.Nontrivial(id)
	}

	if res.typ != wtyp || res.limiter != wlim {
		class := c36PrecedenceClass(res, wtyp)

		switch {
		case isnew:
			class = "new-address/" + class
		case forgotten && m.node == "" && (res.typ == "node" || res.typ == "suffrage"):
			class = "evicted-address-served-as-the-node-it-was-before"
		case forgotten && nodeNow == "other-than-when-evicted":
			class = "evicted-address-with-new-node-not-served-by-its-rule"
		}

		r.Outcome("pool-precedence-mismatch/" + class + "/want=" + wtyp + "/got=" + res.typ)
		r.Violation(id, map[string]any{
			"kind": "pool-precedence", "class": class, "want": wtyp, "got": res.typ,
			"evicted_by": evicted, "node_forgotten_at_eviction": forgotten, "node_now": nodeNow,
		}, fmt.Sprintf("%s: request from %s (node known for the address: %q; main address evicted %d times, last by %s while known as %q; pool holds the main address: %v, %d addresses queued, MaxAddrs %d) was served by rule set %q limiter %s; the precedence rule gives %q limiter %s (rule %s); cached limiter before the request: %s",
			id, addr, m.node, p.evictions, evicted, p.nodeWhenEvicted, p.held(), p.h.pool.addrsQueue.Len(), cfg.maxAddrs,
			res.typ, res.limiter, wtyp, wlim, wrule, res.cachedBefore),
			map[string]any{"case": id})

		return
	}

	lid := res.typ + " " + res.limiter

	if !isnew && wrule != "builtin" && p.allowed[lid] > res.burst {
		r.Outcome("over-burst/" + wtyp)
		r.Violation(id, map[string]any{
			"kind": "enforcement", "class": "over-burst", "rule_type": wtyp, "interleaved_other_rule": p.interleaved[lid],
		}, fmt.Sprintf("%s: %d requests were allowed under %q (burst %d, one token per >= 1001h) for the same address and handler without any rule change or eviction; another rule served the address in between: %v",
			id, p.allowed[lid], lid, res.burst, p.interleaved[lid]),
			map[string]any{"case": id})

		return
	}

	r.Outcome(fmt.Sprintf("A-ok/%s/evicted=%s/node=%s/allowed=%v", wtyp, evicted, nodeNow, res.allowed))

	if !isnew && p.evictions > 0 && res.allowed && wrule != "builtin" && p.everAllowed[lid] > res.burst {
		r.Outcome("bucket-restarted-after-eviction/" + evicted)
		r.Add("pool_bucket_restarted_after_eviction", 1)
	}

	if !isnew && forgotten && len(hist) >= 4 {
		r.Sample(map[string]any{"history": id, "served_by": lid, "allowed": res.allowed, "evicted_by": evicted, "node_now": nodeNow})
	}
}
