//go:build verif

package base

import (
	"fmt"
	"testing"

	"github.com/spikeekips/mitum/zzverif/vlib"
)

// C02: Threshold.Threshold(n) == ceil(n*t/100) exactly, on the full grid
// n in 0..N x t in 51.0..100.0 step 0.1. Reference: integer arithmetic on tenths.
func TestVerifC02(t *testing.T) {
	r := vlib.Start("C02")
	defer r.Finish()
	r.Rule("exhaustive grid n in 0..N (0 = empty set of voters, as memberlist's broadcastEnsured passes when every remote is excluded) x t in {51.0,51.1,...,100.0}; every (n,t) is a distinct input; non-trivial = n*t10 not a multiple of 1000 (ceiling actually rounds)")
	N := vlib.Pick(r, 5000, 100000)
	r.Set("n_max", N)
	r.Set("thresholds", 491)
	_, nsh := r.Shard()
	for n := 0; n <= N; n++ {
		if !r.Mine(n) {
			continue
		}
		if n > 0 && n%1024 == 0 && r.Expired() {
			r.Min("n_completed_below", int64(n))
			break
		}
		var nt int64
		for t10 := 510; t10 <= 1000; t10++ {
			id := fmt.Sprintf("n=%d,t10=%d", n, t10)
			if _, rp := r.Replaying(); rp && !r.Want(id) {
				continue
			}
			th := Threshold(float64(t10) / 10)
			// the protocol parses thresholds from one-decimal text; make sure we test that value
			var th2 Threshold
			if err := th2.UnmarshalText([]byte(fmt.Sprintf("%d.%d", t10/10, t10%10))); err != nil {
				t.Fatal(err)
			}
			want := uint((int64(n)*int64(t10) + 999) / 1000)
			for vi, tv := range []Threshold{th, th2} {
				got := tv.Threshold(uint(n))
				if got != want {
					r.Violation(id, map[string]any{"kind": "wrong-count", "dir": dir(got, want)},
						fmt.Sprintf("Threshold(%v).Threshold(%d) = %d, exact ceil(n*t/100) = %d (variant %d)", tv, n, got, want, vi),
						map[string]any{"n": n, "t10": t10})
					break
				}
			}
			if (int64(n)*int64(t10))%1000 != 0 {
				nt++
			}
		}
		r.EvalN(491)
		r.StatesN(491)
		r.NontrivialN(nt)
		if n <= 3*nsh && n%nsh == 0 {
			r.Sample(map[string]any{"n": n, "t": "67.0", "required": Threshold(67).Threshold(uint(n))})
		}
	}
	// the threshold a node counts with is the one that was configured: two different one-decimal thresholds are
	// never "equal" (the node's parameter write handler keeps the old threshold when Equal says so), and the text
	// form round-trips
	if r.Mine(0) {
		ths := make([]Threshold, 0, 491)
		for t10 := 510; t10 <= 1000; t10++ {
			var th Threshold
			if err := th.UnmarshalText([]byte(fmt.Sprintf("%d.%d", t10/10, t10%10))); err != nil {
				t.Fatal(err)
			}
			ths = append(ths, th)
			if back, err := th.MarshalText(); err != nil || string(back) != fmt.Sprintf("%d.%d", t10/10, t10%10) {
				r.Violation(fmt.Sprintf("text,t10=%d", t10), map[string]any{"kind": "text-roundtrip"},
					fmt.Sprintf("threshold %d.%d prints as %q (%v)", t10/10, t10%10, back, err), map[string]any{"t10": t10})
			}
		}
		for i, a := range ths {
			id := fmt.Sprintf("equal,t10=%d", 510+i)
			if _, rp := r.Replaying(); rp && !r.Want(id) {
				continue
			}
			for j, b := range ths {
				if got := a.Equal(b); got != (i == j) {
					r.Violation(id, map[string]any{"kind": "equal-wrong", "adjacent": i-j == 1 || j-i == 1, "got": got},
						fmt.Sprintf("Threshold(%v).Equal(%v) = %v; required counts differ e.g. for n=1000: %d vs %d", a, b, got, a.Threshold(1000), b.Threshold(1000)),
						map[string]any{"t10": 510 + i, "other_t10": 510 + j})
					break
				}
			}
			r.EvalN(491)
			r.StatesN(491)
			r.NontrivialN(490)
		}
		r.Add("threshold_pairs_compared", 491*491)
	}
	r.Outcome("ok")
	if r.Violations() > 0 {
		r.Outcome("mismatch")
	}
}

func dir(got, want uint) string {
	if got > want {
		return "over"
	}
	return "under"
}
