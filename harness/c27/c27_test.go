//go:build verif

package launch

// C27: every hinted protocol object decodes from its JSON encoding to an object
// with the same hash and the same IsValid verdict, and re-encoding the decoded
// object gives the same bytes.
//
// Per type family a finite shape grammar is enumerated completely (each optional
// field present/absent, each variant, list lengths 0..2 (0..3 for voters)); every
// shape is built with the real constructors, encoded with the node's JSON
// encoder (all launch.Hinters loaded) and decoded back.

import (
	"bytes"
	"encoding/json"
	"fmt"
	"reflect"
	"sort"
	"strings"
	"testing"
	"time"

	"github.com/pkg/errors"
	"github.com/spikeekips/mitum/base"
	"github.com/spikeekips/mitum/isaac"
	isaacblock "github.com/spikeekips/mitum/isaac/block"
	isaacnetwork "github.com/spikeekips/mitum/isaac/network"
	isaacoperation "github.com/spikeekips/mitum/isaac/operation"
	isaacstates "github.com/spikeekips/mitum/isaac/states"
	"github.com/spikeekips/mitum/network/quicmemberlist"
	"github.com/spikeekips/mitum/network/quicstream"
	quicstreamheader "github.com/spikeekips/mitum/network/quicstream/header"
	"github.com/spikeekips/mitum/util"
	jsonenc "github.com/spikeekips/mitum/util/encoder/json"
	"github.com/spikeekips/mitum/util/fixedtree"
	"github.com/spikeekips/mitum/util/hint"
	"github.com/spikeekips/mitum/zzverif/vlib"
)

const (
	c27Doc      = iota // hinted document, decoded by enc.Decode (hint read from "_hint")
	c27WithHint        // document without "_hint"; decoded by enc.DecodeWithHint (tree nodes)
	c27PrivStr         // type-suffixed string, base.DecodePrivatekeyFromString
	c27PubStr          // type-suffixed string, base.DecodePublickeyFromString
	c27AddrStr         // type-suffixed string, base.DecodeAddress
)

type c27Case struct {
	fam   string
	id    string
	ht    hint.Hint
	mode  int
	build func() any
}

type c27Gen struct{ cases []c27Case }

func (g *c27Gen) add(fam, id string, ht hint.Hint, mode int, build func() any) {
	g.cases = append(g.cases, c27Case{fam: fam, id: fam + "/" + id, ht: ht, mode: mode, build: build})
}

func c27opt(b bool, s string) string {
	if b {
		return s
	}

	return "no-" + s
}

var c27bools = []bool{false, true}

func c27Cases(thorough bool) []c27Case {
	g := &c27Gen{}

	maxl := 2 // list lengths 0..maxl
	if thorough {
		maxl = 3
	}

	// ---- keys, address, node
	for i := 0; i < 2; i++ {
		i := i
		g.add("key", fmt.Sprintf("priv-%d", i), base.MPrivatekeyHint, c27PrivStr, func() any { return vfxN(i).priv })
		g.add("key", fmt.Sprintf("pub-%d", i), base.MPublickeyHint, c27PubStr, func() any { return vfxN(i).pub })
	}

	for _, s := range []string{"vnode00", "abc", "a-b_c.d0", "A!$*@z", "x", "has blank"} {
		s := s
		g.add("address", fmt.Sprintf("%q", s), base.StringAddressHint, c27AddrStr, func() any { return base.NewStringAddress(s) })
	}

	for _, hasPub := range c27bools {
		for _, hasAddr := range c27bools {
			hasPub, hasAddr := hasPub, hasAddr
			g.add("node", c27opt(hasPub, "pub")+","+c27opt(hasAddr, "addr"), isaac.NodeHint, c27Doc, func() any {
				var pub base.Publickey
				var addr base.Address
				if hasPub {
					pub = vfxN(0).pub
				}
				if hasAddr {
					addr = vfxN(0).addr
				}

				return isaac.NewNode(pub, addr)
			})
		}
	}

	// ---- ballot facts: kind x point x expel facts 0..2 x optional hashes
	points := []base.Point{base.GenesisPoint, base.RawPoint(33, 0), base.RawPoint(33, 2)}

	for k := vfxKINIT; k <= vfxKNotProcessed; k++ {
		for _, point := range points {
			for nexp := 0; nexp <= maxl; nexp++ {
				if (k == vfxKEmptyProposal || k == vfxKEmptyOperations || k == vfxKNotProcessed) && nexp > 0 {
					continue
				}

				for _, has1 := range c27bools {
					for _, has2 := range c27bools {
						if (k == vfxKEmptyOperations || k == vfxKNotProcessed) && !has2 {
							continue // the second hash is drawn by the constructor
						}

						k, point, nexp, has1, has2 := k, point, nexp, has1, has2
						g.add("ballot-fact",
							fmt.Sprintf("%s,%s,expels=%d,%s,%s", k, point, nexp, c27opt(has1, "h1"), c27opt(has2, "h2")),
							k.hint(), c27Doc, func() any {
								var h1, h2 util.Hash
								if has1 {
									h1 = vfxH("h1")
								}
								if has2 {
									h2 = vfxH("h2")
								}

								return vfxBallotFact(k, point, h1, h2, vfxHs("expelfact", nexp))
							})
					}
				}
			}
		}
	}

	// ---- ballot sign facts: fact kind x expel facts {0,2} x signed / unsigned
	for k := vfxKINIT; k <= vfxKNotProcessed; k++ {
		for _, nexp := range []int{0, 2} {
			if (k == vfxKEmptyProposal || k == vfxKEmptyOperations || k == vfxKNotProcessed) && nexp > 0 {
				continue
			}

			if k == vfxKSuffrageConfirm && nexp == 0 {
				continue
			}

			for _, signed := range c27bools {
				k, nexp, signed := k, nexp, signed
				ht := isaac.INITBallotSignFactHint
				if !k.isINIT() {
					ht = isaac.ACCEPTBallotSignFactHint
				}

				g.add("ballot-sign-fact", fmt.Sprintf("%s,expels=%d,%s", k, nexp, c27opt(signed, "signed")), ht, c27Doc, func() any {
					return vfxSignFact(vfxBallotFact(k, base.RawPoint(33, 0), vfxH("h1"), vfxH("h2"), vfxHs("expelfact", nexp)), vfxN(0), signed)
				})
			}
		}
	}

	// ---- voteproofs: stage x variant x result x voters 0..3 x expels 0..2 x finished
	for _, stage := range []base.Stage{base.StageINIT, base.StageACCEPT} {
		for _, variant := range []string{"plain", "expel", "stuck"} {
			for _, result := range []string{"majority", "majority-special", "draw", "split"} {
				if variant == "stuck" && result != "draw" {
					continue
				}

				for nvoters := 0; nvoters <= 3; nvoters++ {
					if result == "split" && nvoters < 2 {
						continue
					}

					for nexp := 0; nexp <= maxl; nexp++ {
						if variant == "plain" && nexp > 0 {
							continue
						}

						for _, finished := range c27bools {
							if !finished && !(nvoters == 2 && nexp <= 1) {
								continue
							}

							stage, variant, result, nvoters, nexp, finished := stage, variant, result, nvoters, nexp, finished
							g.add("voteproof",
								fmt.Sprintf("%s,%s,%s,voters=%d,expels=%d,%s", stage, variant, result, nvoters, nexp, c27opt(finished, "finished")),
								vfxVPHint(stage, variant), c27Doc, func() any {
									return vfxShapeVoteproof(stage, variant, result, nvoters, nexp, finished)
								})
						}
					}
				}
			}
		}
	}

	// ---- voteproofs with one dissenting vote in every position (2..3 voters), every family
	for _, stage := range []base.Stage{base.StageINIT, base.StageACCEPT} {
		for _, variant := range []string{"plain", "expel", "stuck"} {
			results := []string{"majority", "majority-special"}
			if variant == "stuck" {
				results = []string{"draw"}
			}

			for _, result := range results {
				for nvoters := 2; nvoters <= 3; nvoters++ {
					for pos := 0; pos < nvoters; pos++ {
						for nexp := 0; nexp <= 2; nexp++ {
							if (variant == "plain") != (nexp == 0) {
								continue
							}

							stage, variant, nvoters, nexp := stage, variant, nvoters, nexp
							res := fmt.Sprintf("%s,dissent@%d", result, pos)

							g.add("voteproof", fmt.Sprintf("%s,%s,%s,voters=%d,expels=%d", stage, variant, res, nvoters, nexp),
								vfxVPHint(stage, variant), c27Doc, func() any {
									return vfxShapeVoteproof(stage, variant, res, nvoters, nexp, true)
								})
						}
					}
				}
			}
		}
	}

	// ---- ballots
	for nexp := 0; nexp <= maxl; nexp++ {
		nexp := nexp
		g.add("ballot", fmt.Sprintf("init,accept-voteproof,expels=%d", nexp), isaac.INITBallotHint, c27Doc, func() any { return vfxINITBallot(nexp) })
		g.add("ballot", fmt.Sprintf("accept,expels=%d", nexp), isaac.ACCEPTBallotHint, c27Doc, func() any { return vfxACCEPTBallot(nexp, vfxKACCEPT) })

		if nexp > 0 {
			g.add("ballot", fmt.Sprintf("init,suffrage-confirm,expels=%d", nexp), isaac.INITBallotHint, c27Doc, func() any { return vfxSuffrageConfirmBallot(nexp) })
		}
	}

	g.add("ballot", "init,round1,init-draw-voteproof", isaac.INITBallotHint, c27Doc, func() any { return vfxINITBallotNextRound(base.StageINIT) })
	g.add("ballot", "init,round1,accept-draw-voteproof", isaac.INITBallotHint, c27Doc, func() any { return vfxINITBallotNextRound(base.StageACCEPT) })
	g.add("ballot", "accept,empty-operations", isaac.ACCEPTBallotHint, c27Doc, func() any { return vfxACCEPTBallot(0, vfxKEmptyOperations) })
	g.add("ballot", "accept,not-processed", isaac.ACCEPTBallotHint, c27Doc, func() any { return vfxACCEPTBallot(0, vfxKNotProcessed) })
	g.add("ballot", "init,no-voteproof", isaac.INITBallotHint, c27Doc, func() any {
		bl := vfxINITBallot(0)

		return isaac.NewINITBallot(nil, bl.BallotSignFact().(isaac.INITBallotSignFact), nil) //nolint:forcetypeassert //...
	})
	g.add("ballot", "init,empty-proposal-fact", isaac.INITBallotHint, c27Doc, func() any {
		bl := vfxINITBallot(0)
		fact := isaac.NewEmptyProposalINITBallotFact(base.RawPoint(33, 0), vfxH("block-32"), vfxH("proposal-33"))

		return isaac.NewINITBallot(bl.Voteproof(), vfxSignFact(fact, vfxN(0), true).(isaac.INITBallotSignFact), nil) //nolint:forcetypeassert //...
	})
	g.add("ballot", "accept,unsigned", isaac.ACCEPTBallotHint, c27Doc, func() any {
		bl := vfxACCEPTBallot(0, vfxKACCEPT)
		sf := vfxSignFact(bl.BallotSignFact().BallotFact(), vfxN(0), false).(isaac.ACCEPTBallotSignFact) //nolint:forcetypeassert //...

		return isaac.NewACCEPTBallot(bl.Voteproof().(base.INITVoteproof), sf, nil) //nolint:forcetypeassert //...
	})

	// ---- proposal fact / sign fact
	for _, point := range points {
		for nops := 0; nops <= maxl; nops++ {
			point, nops := point, nops
			g.add("proposal", fmt.Sprintf("fact,%s,ops=%d", point, nops), isaac.ProposalFactHint, c27Doc, func() any {
				return vfxProposalFact(point, vfxN(0), nops)
			})

			for _, signed := range c27bools {
				signed := signed
				g.add("proposal", fmt.Sprintf("sign-fact,%s,ops=%d,%s", point, nops, c27opt(signed, "signed")), isaac.ProposalSignFactHint, c27Doc, func() any {
					return vfxProposal(point, vfxN(0), nops, signed)
				})
			}
		}
	}

	// a list of length 0 has two Go shapes (nil / empty); vfxOps(0) is the empty one
	g.add("proposal", "fact,nil-operations", isaac.ProposalFactHint, c27Doc, func() any {
		return isaac.NewProposalFact(base.RawPoint(33, 0), vfxN(0).addr, vfxH("previous-block"), nil)
	})
	g.add("proposal", "sign-fact,nil-operations", isaac.ProposalSignFactHint, c27Doc, func() any {
		sf := isaac.NewProposalSignFact(isaac.NewProposalFact(base.RawPoint(33, 0), vfxN(0).addr, vfxH("previous-block"), nil))
		vfxMust(sf.Sign(vfxN(0).priv, vfxNID))

		return sf
	})
	g.add("proposal", "fact,operations-in-descending-order", isaac.ProposalFactHint, c27Doc, func() any {
		ops := vfxOps(3)
		ops[0], ops[2] = ops[2], ops[0]

		return isaac.NewProposalFact(base.RawPoint(33, 0), vfxN(0).addr, vfxH("previous-block"), ops)
	})
	g.add("proposal", "fact,no-proposer", isaac.ProposalFactHint, c27Doc, func() any {
		return isaac.NewProposalFact(base.RawPoint(33, 0), nil, vfxH("previous-block"), vfxOps(1))
	})
	g.add("proposal", "fact,height33-no-previous", isaac.ProposalFactHint, c27Doc, func() any {
		return isaac.NewProposalFact(base.RawPoint(33, 0), vfxN(0).addr, nil, vfxOps(1))
	})

	// ---- manifest: height x each optional hash present/absent
	for _, height := range []base.Height{base.GenesisHeight, 33} {
		for mask := 0; mask < 32; mask++ {
			height, mask := height, mask
			g.add("manifest", fmt.Sprintf("height=%d,fields=%05b", height, mask), isaac.ManifestHint, c27Doc, func() any {
				hs := make([]util.Hash, 5)
				for i := range hs {
					if mask&(1<<i) != 0 {
						hs[i] = vfxH(fmt.Sprintf("manifest-%d", i))
					}
				}

				return isaac.NewManifest(height, hs[0], hs[1], hs[2], hs[3], hs[4], vfxTime)
			})
		}
	}

	g.add("manifest", "zero-time", isaac.ManifestHint, c27Doc, func() any {
		m := vfxManifest(33, true)

		return isaac.NewManifest(33, m.Previous(), m.Proposal(), nil, nil, nil, time.Time{})
	})
	g.add("manifest", "submillisecond-time", isaac.ManifestHint, c27Doc, func() any {
		m := vfxManifest(33, true)

		return isaac.NewManifest(33, m.Previous(), m.Proposal(), nil, nil, nil, vfxTime.Add(123456))
	})

	// ---- block map: manifest trees x item set x signed
	itemsets := map[string][]base.BlockItemType{
		"none":     nil,
		"required": {base.BlockItemProposal, base.BlockItemVoteproofs},
		"all":      vfxAllItemTypes,
		"one":      {base.BlockItemProposal},
	}

	for _, trees := range c27bools {
		for _, is := range []string{"none", "one", "required", "all"} {
			for _, signed := range c27bools {
				trees, is, signed := trees, is, signed
				g.add("blockmap", fmt.Sprintf("%s,items=%s,%s", c27opt(trees, "trees"), is, c27opt(signed, "signed")), isaacblock.BlockMapHint, c27Doc, func() any {
					var signer *vfxNode
					if signed {
						n := vfxN(0)
						signer = &n
					}

					return vfxBlockMap(vfxManifest(33, trees), itemsets[is], signer)
				})
			}
		}
	}

	g.add("blockmap", "genesis", isaacblock.BlockMapHint, c27Doc, func() any {
		n := vfxN(0)

		return vfxBlockMap(vfxManifest(base.GenesisHeight, true), vfxAllItemTypes, &n)
	})

	// ---- block item file(s)
	files := map[string]func() isaac.BlockItemFile{
		"localfs":        func() isaac.BlockItemFile { return isaac.NewLocalFSBlockItemFile("proposal.json", "") },
		"localfs-gz":     func() isaac.BlockItemFile { return isaac.NewLocalFSBlockItemFile("operations.ndjson.gz", "gz") },
		"localfs-empty":  func() isaac.BlockItemFile { return isaac.NewLocalFSBlockItemFile("", "") },
		"file":           func() isaac.BlockItemFile { return isaac.NewFileBlockItemFile("/a/b/voteproofs.json", "") },
		"http":           func() isaac.BlockItemFile { return isaac.NewBlockItemFile(vfxURL("https://example.com:8443/a/b.json?x=1#f"), "gz") },
		"http-no-host":   func() isaac.BlockItemFile { return isaac.NewBlockItemFile(vfxURL("https:///a/b.json"), "") },
		"empty-uri":      func() isaac.BlockItemFile { return isaac.NewBlockItemFile(vfxURL(""), "") },
		"escaped-in-uri": func() isaac.BlockItemFile { return isaac.NewBlockItemFile(vfxURL("https://example.com/a%20b/c%2Fd.json"), "") },
	}

	fnames := make([]string, 0, len(files))
	for k := range files {
		fnames = append(fnames, k)
	}
	sort.Strings(fnames)

	for _, k := range fnames {
		f := files[k]
		g.add("block-item-file", k, isaac.BlockItemFileHint, c27Doc, func() any { return f() })
	}

	for _, n := range []int{0, 1, 3, 5} {
		n := n
		g.add("block-item-files", fmt.Sprintf("items=%d", n), isaac.BlockItemFilesHint, c27Doc, func() any {
			types := []base.BlockItemType{base.BlockItemMap, base.BlockItemProposal, base.BlockItemVoteproofs, base.BlockItemOperations, base.BlockItemStates}
			m := map[base.BlockItemType]base.BlockItemFile{}
			for i := 0; i < n; i++ {
				m[types[i]] = isaac.NewLocalFSBlockItemFile(string(types[i])+".json", "")
			}

			return isaac.NewBlockItemFiles(m)
		})
	}

	// ---- state values and states
	type sv struct {
		name string
		ht   hint.Hint
		f    func() base.StateValue
	}

	var svs []sv

	for n := 0; n <= maxl; n++ {
		n := n
		svs = append(svs,
			sv{fmt.Sprintf("suffrage-nodes=%d", n), isaac.SuffrageNodesStateValueHint, func() base.StateValue { return vfxSuffrageNodesValue(3, n, 33) }},
			sv{fmt.Sprintf("candidates=%d", n), isaac.SuffrageCandidatesStateValueHint, func() base.StateValue { return vfxCandidatesValue(n) }},
		)
	}

	svs = append(svs,
		sv{"suffrage-nodes,nil-height", isaac.SuffrageNodesStateValueHint, func() base.StateValue {
			return isaac.NewSuffrageNodesStateValue(base.NilHeight, nil)
		}},
		sv{"suffrage-node", isaac.SuffrageNodeStateValueHint, func() base.StateValue { return isaac.NewSuffrageNodeStateValue(vfxN(0).node, 33) }},
		sv{"suffrage-node,nil-height", isaac.SuffrageNodeStateValueHint, func() base.StateValue {
			return isaac.NewSuffrageNodeStateValue(vfxN(0).node, base.NilHeight)
		}},
		sv{"candidate", isaac.SuffrageCandidateStateValueHint, func() base.StateValue {
			return isaac.NewSuffrageCandidateStateValue(vfxN(20).node, 33, 66)
		}},
		sv{"candidate,start>deadline", isaac.SuffrageCandidateStateValueHint, func() base.StateValue {
			return isaac.NewSuffrageCandidateStateValue(vfxN(20).node, 66, 33)
		}},
		sv{"network-policy", isaac.NetworkPolicyStateValueHint, func() base.StateValue {
			return isaac.NewNetworkPolicyStateValue(isaac.DefaultNetworkPolicy())
		}},
	)

	for i := range svs {
		s := svs[i]
		g.add("state-value", s.name, s.ht, c27Doc, func() any { return s.f() })

		for _, hasprev := range c27bools {
			for nops := 0; nops <= maxl; nops++ {
				hasprev, nops := hasprev, nops
				g.add("state", fmt.Sprintf("%s,%s,ops=%d", s.name, c27opt(hasprev, "previous"), nops), base.BaseStateHint, c27Doc, func() any {
					var prev util.Hash
					if hasprev {
						prev = vfxH("previous-state")
					}

					return base.NewBaseState(33, "state-key", s.f(), prev, vfxHs("state-op", nops))
				})
			}
		}
	}

	g.add("state", "empty-operations", base.BaseStateHint, c27Doc, func() any {
		return base.NewBaseState(33, "state-key", vfxCandidatesValue(1), nil, []util.Hash{})
	})
	g.add("state", "operations-in-descending-order", base.BaseStateHint, c27Doc, func() any {
		ops := vfxHs("state-op", 3)
		sort.Slice(ops, func(i, j int) bool { return ops[i].String() > ops[j].String() })

		return base.NewBaseState(33, "state-key", vfxCandidatesValue(1), nil, ops)
	})
	g.add("state-value", "suffrage-nodes,nil-list", isaac.SuffrageNodesStateValueHint, c27Doc, func() any {
		return isaac.NewSuffrageNodesStateValue(3, nil)
	})
	g.add("state-value", "candidates,nil-list", isaac.SuffrageCandidatesStateValueHint, c27Doc, func() any {
		return isaac.NewSuffrageCandidatesStateValue(nil)
	})
	g.add("ballot-fact", "init,empty-expelfacts-list", isaac.INITBallotFactHint, c27Doc, func() any {
		return isaac.NewINITBallotFact(base.RawPoint(33, 0), vfxH("h1"), vfxH("h2"), []util.Hash{})
	})
	g.add("ballot-fact", "accept,empty-expelfacts-list", isaac.ACCEPTBallotFactHint, c27Doc, func() any {
		return isaac.NewACCEPTBallotFact(base.RawPoint(33, 0), vfxH("h1"), vfxH("h2"), []util.Hash{})
	})
	g.add("state", "nil-value", base.BaseStateHint, c27Doc, func() any { return base.NewBaseState(33, "state-key", nil, nil, nil) })
	g.add("state", "empty-key", base.BaseStateHint, c27Doc, func() any {
		return base.NewBaseState(33, "", vfxCandidatesValue(1), nil, vfxHs("state-op", 1))
	})
	g.add("state", "nil-height", base.BaseStateHint, c27Doc, func() any {
		return base.NewBaseState(base.NilHeight, "state-key", vfxCandidatesValue(1), nil, vfxHs("state-op", 1))
	})

	// ---- network policy, limiter rule, params
	for _, limit := range []uint64{0, 1, 33} {
		limit := limit
		g.add("policy", fmt.Sprintf("fixed-limiter-rule=%d", limit), isaac.FixedSuffrageCandidateLimiterRuleHint, c27Doc, func() any {
			return isaac.NewFixedSuffrageCandidateLimiterRule(limit)
		})
	}

	g.add("policy", "network-policy,default", isaac.NetworkPolicyHint, c27Doc, func() any { return isaac.DefaultNetworkPolicy() })
	g.add("policy", "network-policy,custom", isaac.NetworkPolicyHint, c27Doc, func() any {
		p := isaac.DefaultNetworkPolicy()
		p.SetMaxOperationsInProposal(7)
		p.SetSuffrageCandidateLifespan(9)
		p.SetMaxSuffrageSize(11)
		p.SetSuffrageExpelLifespan(13)
		p.SetSuffrageCandidateLimiterRule(isaac.NewFixedSuffrageCandidateLimiterRule(3))
		p.SetEmptyProposalNoBlock(true)

		return p
	})
	g.add("policy", "network-policy,zero-max-operations", isaac.NetworkPolicyHint, c27Doc, func() any {
		p := isaac.DefaultNetworkPolicy()
		p.SetMaxOperationsInProposal(0)

		return p
	})
	g.add("policy", "params,default", isaac.ParamsHint, c27Doc, func() any { return isaac.DefaultParams(vfxNID) })
	g.add("policy", "params,empty", isaac.ParamsHint, c27Doc, func() any { return isaac.NewParams(vfxNID) })
	g.add("policy", "params,custom", isaac.ParamsHint, c27Doc, func() any {
		p := isaac.DefaultParams(vfxNID)
		vfxMust(p.SetThreshold(77.7))
		vfxMust(p.SetIntervalBroadcastBallot(3333333333))
		vfxMust(p.SetStateCacheSize(7))

		return p
	})

	// ---- suffrage proof: tree sizes 1..4 x genesis / later
	for _, height := range []base.Height{base.GenesisHeight, 33} {
		for ntree := 1; ntree <= 4; ntree++ {
			height, ntree := height, ntree
			g.add("suffrage-proof", fmt.Sprintf("height=%d,tree=%d", height, ntree), isaacblock.SuffrageProofHint, c27Doc, func() any {
				return vfxSuffrageProof(height, ntree)
			})
		}
	}

	g.add("suffrage-proof", "height-mismatch", isaacblock.SuffrageProofHint, c27Doc, func() any {
		p := vfxSuffrageProof(33, 3)
		q := vfxSuffrageProof(34, 3)

		return isaacblock.NewSuffrageProof(p.Map(), q.State(), p.Proof())
	})

	// ---- operations and their facts
	g.add("operation-fact", "expel", isaac.SuffrageExpelFactHint, c27Doc, func() any { return vfxExpelFact(vfxN(10), 33, "reason") })
	g.add("operation-fact", "expel,blank-reason", isaac.SuffrageExpelFactHint, c27Doc, func() any { return vfxExpelFact(vfxN(10), 33, " ") })
	g.add("operation-fact", "expel,genesis-start", isaac.SuffrageExpelFactHint, c27Doc, func() any { return vfxExpelFact(vfxN(10), 0, "reason") })
	g.add("operation-fact", "candidate", isaacoperation.SuffrageCandidateFactHint, c27Doc, func() any { return vfxCandidateOp(nil).Fact() })
	g.add("operation-fact", "candidate,empty-token", isaacoperation.SuffrageCandidateFactHint, c27Doc, func() any {
		return isaacoperation.NewSuffrageCandidateFact(nil, vfxN(20).addr, vfxN(20).pub)
	})
	g.add("operation-fact", "join", isaacoperation.SuffrageJoinFactHint, c27Doc, func() any { return vfxJoinOp(nil).Fact() })
	g.add("operation-fact", "disjoin", isaacoperation.SuffrageDisjoinFactHint, c27Doc, func() any { return vfxDisjoinOp(nil).Fact() })
	g.add("operation-fact", "network-policy", isaacoperation.NetworkPolicyFactHint, c27Doc, func() any { return vfxNetworkPolicyOp(nil).Fact() })
	g.add("operation-fact", "genesis-network-policy", isaacoperation.GenesisNetworkPolicyFactHint, c27Doc, func() any {
		return vfxGenesisNetworkPolicyOp(false).Fact()
	})

	for n := 0; n <= maxl; n++ {
		n := n
		g.add("operation-fact", fmt.Sprintf("genesis-join,nodes=%d", n), isaacoperation.SuffrageGenesisJoinFactHint, c27Doc, func() any { return vfxGenesisJoinFact(n) })
	}

	signersets := [][]int{{}, {20}, {0}, {20, 0}, {0, 20}, {20, 0, 1}}
	for _, ss := range signersets {
		ss := ss
		name := fmt.Sprintf("signers=%v", ss)
		g.add("operation", "expel,"+name, isaac.SuffrageExpelOperationHint, c27Doc, func() any { return vfxExpelOp(vfxN(20), 33, "reason", vfxNs(ss...)) })
		g.add("operation", "candidate,"+name, isaacoperation.SuffrageCandidateHint, c27Doc, func() any { return vfxCandidateOp(vfxNs(ss...)) })
		g.add("operation", "join,"+name, isaacoperation.SuffrageJoinHint, c27Doc, func() any { return vfxJoinOp(vfxNs(ss...)) })
		g.add("operation", "disjoin,"+name, isaacoperation.SuffrageDisjoinHint, c27Doc, func() any { return vfxDisjoinOp(vfxNs(ss...)) })
		g.add("operation", "network-policy,"+name, isaacoperation.NetworkPolicyHint, c27Doc, func() any { return vfxNetworkPolicyOp(vfxNs(ss...)) })
	}

	for _, signed := range c27bools {
		signed := signed
		g.add("operation", "genesis-network-policy,"+c27opt(signed, "signed"), isaacoperation.GenesisNetworkPolicyHint, c27Doc, func() any {
			return vfxGenesisNetworkPolicyOp(signed)
		})

		for n := 0; n <= maxl; n++ {
			n := n
			g.add("operation", fmt.Sprintf("genesis-join,nodes=%d,%s", n, c27opt(signed, "signed")), isaacoperation.SuffrageGenesisJoinHint, c27Doc, func() any {
				return vfxGenesisJoinOp(n, signed)
			})
		}
	}

	// ---- fixed tree nodes, operation reason
	g.add("tree-node", "state,with-hash", base.StateFixedtreeHint, c27WithHint, func() any {
		return fixedtree.NewBaseNode(vfxH("state").String()).SetHash(vfxH("node-hash"))
	})
	g.add("tree-node", "state,no-hash", base.StateFixedtreeHint, c27WithHint, func() any { return fixedtree.NewBaseNode(vfxH("state").String()) })
	g.add("tree-node", "state,empty", base.StateFixedtreeHint, c27WithHint, func() any { return fixedtree.EmptyBaseNode() })
	g.add("tree-node", "state,empty-key", base.StateFixedtreeHint, c27WithHint, func() any { return fixedtree.NewBaseNode("").SetHash(vfxH("node-hash")) })

	for _, instate := range c27bools {
		for _, reason := range []string{"", "some reason"} {
			for _, hashash := range c27bools {
				instate, reason, hashash := instate, reason, hashash
				g.add("tree-node", fmt.Sprintf("operation,%s,reason=%q,%s", c27opt(instate, "instate"), reason, c27opt(hashash, "hash")),
					base.OperationFixedtreeHint, c27WithHint, func() any {
						var n base.OperationFixedtreeNode
						if instate {
							n = base.NewInStateOperationFixedtreeNode(vfxH("opfact"), reason)
						} else {
							n = base.NewNotInStateOperationFixedtreeNode(vfxH("opfact"), reason)
						}

						if hashash {
							return n.SetHash(vfxH("node-hash"))
						}

						return n
					})
			}
		}
	}

	g.add("reason", "message", base.BaseOperationProcessReasonErrorHint, c27Doc, func() any { return base.NewBaseOperationProcessReason("some reason") })
	g.add("reason", "empty", base.BaseOperationProcessReasonErrorHint, c27Doc, func() any { return base.NewBaseOperationProcessReason("") })

	c27HeaderCases(g)
	c27MessageCases(g, maxl)

	return g.cases
}

func c27HeaderCases(g *c27Gen) {
	h := vfxH("header-hash")
	n0 := vfxN(0)
	ci := vfxConnInfo("1.2.3.4:4321#tls_insecure")

	// every request header: with and without client id
	type mk struct {
		name string
		ht   hint.Hint
		f    func(cid string) any
	}

	hs := []mk{
		{"operation", isaacnetwork.OperationRequestHeaderHint, func(c string) any { x := isaacnetwork.NewOperationRequestHeader(h); x.SetClientID(c); return x }},
		{"operation,nil-hash", isaacnetwork.OperationRequestHeaderHint, func(c string) any {
			x := isaacnetwork.NewOperationRequestHeader(nil)
			x.SetClientID(c)

			return x
		}},
		{"send-operation", isaacnetwork.SendOperationRequestHeaderHint, func(c string) any { x := isaacnetwork.NewSendOperationRequestHeader(); x.SetClientID(c); return x }},
		{"request-proposal", isaacnetwork.RequestProposalRequestHeaderHint, func(c string) any {
			x := isaacnetwork.NewRequestProposalRequestHeader(base.RawPoint(33, 1), n0.addr, h)
			x.SetClientID(c)

			return x
		}},
		{"request-proposal,genesis,no-previous", isaacnetwork.RequestProposalRequestHeaderHint, func(c string) any {
			x := isaacnetwork.NewRequestProposalRequestHeader(base.GenesisPoint, n0.addr, nil)
			x.SetClientID(c)

			return x
		}},
		{"request-proposal,no-proposer", isaacnetwork.RequestProposalRequestHeaderHint, func(c string) any {
			x := isaacnetwork.NewRequestProposalRequestHeader(base.RawPoint(33, 1), nil, h)
			x.SetClientID(c)

			return x
		}},
		{"proposal", isaacnetwork.ProposalRequestHeaderHint, func(c string) any { x := isaacnetwork.NewProposalRequestHeader(h); x.SetClientID(c); return x }},
		{"last-suffrage-proof", isaacnetwork.LastSuffrageProofRequestHeaderHint, func(c string) any {
			x := isaacnetwork.NewLastSuffrageProofRequestHeader(h)
			x.SetClientID(c)

			return x
		}},
		{"last-suffrage-proof,no-state", isaacnetwork.LastSuffrageProofRequestHeaderHint, func(c string) any {
			x := isaacnetwork.NewLastSuffrageProofRequestHeader(nil)
			x.SetClientID(c)

			return x
		}},
		{"suffrage-proof", isaacnetwork.SuffrageProofRequestHeaderHint, func(c string) any {
			x := isaacnetwork.NewSuffrageProofRequestHeader(33)
			x.SetClientID(c)

			return x
		}},
		{"suffrage-proof,nil-height", isaacnetwork.SuffrageProofRequestHeaderHint, func(c string) any {
			x := isaacnetwork.NewSuffrageProofRequestHeader(base.NilHeight)
			x.SetClientID(c)

			return x
		}},
		{"last-blockmap", isaacnetwork.LastBlockMapRequestHeaderHint, func(c string) any { x := isaacnetwork.NewLastBlockMapRequestHeader(h); x.SetClientID(c); return x }},
		{"last-blockmap,no-manifest", isaacnetwork.LastBlockMapRequestHeaderHint, func(c string) any {
			x := isaacnetwork.NewLastBlockMapRequestHeader(nil)
			x.SetClientID(c)

			return x
		}},
		{"blockmap", isaacnetwork.BlockMapRequestHeaderHint, func(c string) any { x := isaacnetwork.NewBlockMapRequestHeader(33); x.SetClientID(c); return x }},
		{"block-item", isaacnetwork.BlockItemRequestHeaderHint, func(c string) any {
			x := isaacnetwork.NewBlockItemRequestHeader(33, base.BlockItemVoteproofs)
			x.SetClientID(c)

			return x
		}},
		{"block-item,unknown-type", isaacnetwork.BlockItemRequestHeaderHint, func(c string) any {
			x := isaacnetwork.NewBlockItemRequestHeader(33, base.BlockItemType("what"))
			x.SetClientID(c)

			return x
		}},
		{"block-item-files", isaacnetwork.BlockItemFilesRequestHeaderHint, func(c string) any {
			x := isaacnetwork.NewBlockItemFilesRequestHeader(33, n0.pub)
			x.SetClientID(c)

			return x
		}},
		{"block-item-files,no-acluser", isaacnetwork.BlockItemFilesRequestHeaderHint, func(c string) any {
			x := isaacnetwork.NewBlockItemFilesRequestHeader(33, nil)
			x.SetClientID(c)

			return x
		}},
		{"node-challenge", isaacnetwork.NodeChallengeRequestHeaderHint, func(c string) any {
			x := isaacnetwork.NewNodeChallengeRequestHeader([]byte("input"), n0.addr, n0.pub)
			x.SetClientID(c)

			return x
		}},
		{"node-challenge,no-me", isaacnetwork.NodeChallengeRequestHeaderHint, func(c string) any {
			x := isaacnetwork.NewNodeChallengeRequestHeader([]byte("input"), nil, nil)
			x.SetClientID(c)

			return x
		}},
		{"node-challenge,me-without-pub", isaacnetwork.NodeChallengeRequestHeaderHint, func(c string) any {
			x := isaacnetwork.NewNodeChallengeRequestHeader([]byte("input"), n0.addr, nil)
			x.SetClientID(c)

			return x
		}},
		{"node-challenge,no-input", isaacnetwork.NodeChallengeRequestHeaderHint, func(c string) any {
			x := isaacnetwork.NewNodeChallengeRequestHeader(nil, n0.addr, n0.pub)
			x.SetClientID(c)

			return x
		}},
		{"suffrage-node-conninfo", isaacnetwork.SuffrageNodeConnInfoRequestHeaderHint, func(c string) any {
			x := isaacnetwork.NewSuffrageNodeConnInfoRequestHeader()
			x.SetClientID(c)

			return x
		}},
		{"sync-source-conninfo", isaacnetwork.SyncSourceConnInfoRequestHeaderHint, func(c string) any {
			x := isaacnetwork.NewSyncSourceConnInfoRequestHeader()
			x.SetClientID(c)

			return x
		}},
		{"state", isaacnetwork.StateRequestHeaderHint, func(c string) any { x := isaacnetwork.NewStateRequestHeader("key", h); x.SetClientID(c); return x }},
		{"state,no-hash", isaacnetwork.StateRequestHeaderHint, func(c string) any { x := isaacnetwork.NewStateRequestHeader("key", nil); x.SetClientID(c); return x }},
		{"state,no-key", isaacnetwork.StateRequestHeaderHint, func(c string) any { x := isaacnetwork.NewStateRequestHeader("", h); x.SetClientID(c); return x }},
		{"exists-instate-operation", isaacnetwork.ExistsInStateOperationRequestHeaderHint, func(c string) any {
			x := isaacnetwork.NewExistsInStateOperationRequestHeader(h)
			x.SetClientID(c)

			return x
		}},
		{"node-info", isaacnetwork.NodeInfoRequestHeaderHint, func(c string) any { x := isaacnetwork.NewNodeInfoRequestHeader(); x.SetClientID(c); return x }},
		{"send-ballots", isaacnetwork.SendBallotsHeaderHint, func(c string) any { x := isaacnetwork.NewSendBallotsHeader(); x.SetClientID(c); return x }},
		{"set-allow-consensus,true", isaacnetwork.SetAllowConsensusHeaderHint, func(c string) any {
			x := isaacnetwork.NewSetAllowConsensusHeader(true)
			x.SetClientID(c)

			return x
		}},
		{"set-allow-consensus,false", isaacnetwork.SetAllowConsensusHeaderHint, func(c string) any {
			x := isaacnetwork.NewSetAllowConsensusHeader(false)
			x.SetClientID(c)

			return x
		}},
		{"stream-operations", isaacnetwork.StreamOperationsHeaderHint, func(c string) any {
			x := isaacnetwork.NewStreamOperationsHeader([]byte("offset"))
			x.SetClientID(c)

			return x
		}},
		{"stream-operations,no-offset", isaacnetwork.StreamOperationsHeaderHint, func(c string) any {
			x := isaacnetwork.NewStreamOperationsHeader(nil)
			x.SetClientID(c)

			return x
		}},
		{"start-handover", isaacnetwork.StartHandoverHeaderHint, func(c string) any {
			x := isaacnetwork.NewStartHandoverHeader(ci, n0.addr, n0.pub)
			x.SetClientID(c)

			return x
		}},
		{"start-handover,no-acluser", isaacnetwork.StartHandoverHeaderHint, func(c string) any {
			x := isaacnetwork.NewStartHandoverHeader(ci, n0.addr, nil)
			x.SetClientID(c)

			return x
		}},
		{"check-handover", isaacnetwork.CheckHandoverHeaderHint, func(c string) any {
			x := isaacnetwork.NewCheckHandoverHeader(ci, n0.addr, n0.pub)
			x.SetClientID(c)

			return x
		}},
		{"ask-handover", isaacnetwork.AskHandoverHeaderHint, func(c string) any { x := isaacnetwork.NewAskHandoverHeader(ci, n0.addr); x.SetClientID(c); return x }},
		{"ask-handover,secure-conninfo", isaacnetwork.AskHandoverHeaderHint, func(c string) any {
			x := isaacnetwork.NewAskHandoverHeader(vfxConnInfo("1.2.3.4:4321"), n0.addr)
			x.SetClientID(c)

			return x
		}},
		{"cancel-handover", isaacnetwork.CancelHandoverHeaderHint, func(c string) any { x := isaacnetwork.NewCancelHandoverHeader(n0.pub); x.SetClientID(c); return x }},
		{"handover-message", isaacnetwork.HandoverMessageHeaderHint, func(c string) any { x := isaacnetwork.NewHandoverMessageHeader(); x.SetClientID(c); return x }},
		{"check-handover-x", isaacnetwork.CheckHandoverXHeaderHint, func(c string) any { x := isaacnetwork.NewCheckHandoverXHeader(n0.addr); x.SetClientID(c); return x }},
		// launch's own headers
		{"event-logging", EventLoggingHeaderHint, func(c string) any {
			x := NewEventLoggingHeader(AllEventLogger, [2]int64{3, 0}, 33, true, n0.pub)
			x.SetClientID(c)

			return x
		}},
		{"event-logging,bad-offsets", EventLoggingHeaderHint, func(c string) any {
			x := NewEventLoggingHeader(NodeEventLogger, [2]int64{1, 2}, 0, false, n0.pub)
			x.SetClientID(c)

			return x
		}},
		{"read-node", ReadNodeHeaderHint, func(c string) any { x := NewReadNodeHeader("key", n0.pub); x.SetClientID(c); return x }},
		{"read-node,no-key", ReadNodeHeaderHint, func(c string) any { x := NewReadNodeHeader("", n0.pub); x.SetClientID(c); return x }},
		{"write-node", WriteNodeHeaderHint, func(c string) any { x := NewWriteNodeHeader("key", n0.pub); x.SetClientID(c); return x }},
		{"write-node,no-acluser", WriteNodeHeaderHint, func(c string) any { x := NewWriteNodeHeader("key", nil); x.SetClientID(c); return x }},
	}

	for i := range hs {
		m := hs[i]
		for _, cid := range []string{"", "client-id"} {
			cid := cid
			g.add("header", fmt.Sprintf("%s,client=%q", m.name, cid), m.ht, c27Doc, func() any { return m.f(cid) })
		}
	}

	// response headers: ok x error
	for _, ok := range c27bools {
		for _, haserr := range c27bools {
			ok, haserr := ok, haserr

			var err error
			if haserr {
				err = errors.Errorf("some error")
			}

			name := c27opt(ok, "ok") + "," + c27opt(haserr, "error")
			g.add("header", "default-response,"+name, quicstreamheader.DefaultResponseHeaderHint, c27Doc, func() any {
				return quicstreamheader.NewDefaultResponseHeader(ok, err)
			})

			for _, id := range []string{"", "broker-id"} {
				id := id
				g.add("header", fmt.Sprintf("ask-handover-response,%s,id=%q", name, id), isaacnetwork.AskHandoverResponseHeaderHint, c27Doc, func() any {
					return isaacnetwork.NewAskHandoverResponseHeader(ok, err, id)
				})
			}

			for _, u := range []string{"", "https://example.com/a/b.json", "file:///a/b.json.gz"} {
				for _, cf := range []string{"", "gz"} {
					u, cf := u, cf
					g.add("header", fmt.Sprintf("block-item-response,%s,uri=%q,compress=%q", name, u, cf), isaacnetwork.BlockItemResponseHeaderHint, c27Doc, func() any {
						return isaacnetwork.NewBlockItemResponseHeader(ok, err, vfxURL(u), cf)
					})
				}
			}
		}
	}
}

func c27MessageCases(g *c27Gen, maxl int) {
	n0 := vfxN(0)
	ci := vfxConnInfo("1.2.3.4:4321#tls_insecure")
	sp := base.NewStagePoint(base.RawPoint(33, 1), base.StageACCEPT)

	// isaacnetwork.NodeInfo
	for _, full := range c27bools {
		for nnodes := 0; nnodes <= maxl; nnodes++ {
			full, nnodes := full, nnodes
			g.add("node-info", fmt.Sprintf("network,%s,consensus-nodes=%d", c27opt(full, "full"), nnodes), isaacnetwork.NodeInfoHint, c27Doc, func() any {
				u := isaacnetwork.NewNodeInfoUpdater(vfxNID, n0.node, util.MustNewVersion("v1.2.3"))

				if full {
					u.SetLastManifest(vfxManifest(33, true))
					u.SetSuffrageHeight(44)
					u.SetNetworkPolicy(isaac.DefaultNetworkPolicy())
					u.SetLocalParams(isaac.DefaultParams(vfxNID))
					u.SetConnInfo(ci.String())
					u.SetConsensusState(isaacstates.StateConsensus)
					u.SetLastVote(sp, base.VoteResultMajority)
				}

				nodes := make([]base.Node, nnodes)
				for i := range nodes {
					nodes[i] = vfxN(i).node
				}

				u.SetConsensusNodes(nodes)

				return u.NodeInfo()
			})
		}
	}

	g.add("node-info", "launch,default", DefaultNodeInfoHint, c27Doc, func() any {
		return NewDefaultNodeInfo("node-id", vfxNID, util.MustNewVersion("v1.2.3"))
	})
	g.add("node-info", "launch,updated", DefaultNodeInfoHint, c27Doc, func() any {
		return NewDefaultNodeInfo("node-id", vfxNID, util.MustNewVersion("v1.2.3-alpha+build")).UpdateLastStartedAt()
	})
	g.add("node-info", "launch,no-id", DefaultNodeInfoHint, c27Doc, func() any {
		return NewDefaultNodeInfo("", vfxNID, util.MustNewVersion("v1.2.3"))
	})

	// isaacstates messages
	for nnodes := 0; nnodes <= maxl; nnodes++ {
		nnodes := nnodes
		g.add("message", fmt.Sprintf("missing-ballots,nodes=%d", nnodes), isaacstates.MissingBallotsRequestsMessageHint, c27Doc, func() any {
			nodes := make([]base.Address, nnodes)
			for i := range nodes {
				nodes[i] = vfxN(i).addr
			}

			return isaacstates.NewMissingBallotsRequestsMessage(sp, nodes, ci)
		})
	}

	for _, id := range []string{"", "handover-id"} {
		id := id

		for _, haserr := range c27bools {
			haserr := haserr

			var err error
			if haserr {
				err = errors.Errorf("some error")
			}

			g.add("message", fmt.Sprintf("handover-cancel,id=%q,%s", id, c27opt(haserr, "error")), isaacstates.HandoverMessageCancelHint, c27Doc, func() any {
				return isaacstates.NewHandoverMessageCancel(id, err)
			})

			for _, ok := range c27bools {
				ok := ok
				g.add("message", fmt.Sprintf("handover-challenge-response,id=%q,%s,%s", id, c27opt(ok, "ok"), c27opt(haserr, "error")),
					isaacstates.HandoverMessageChallengeResponseHint, c27Doc, func() any {
						return vfxHandoverChallengeResponse(id, sp, ok, err)
					})
			}
		}

		g.add("message", fmt.Sprintf("handover-challenge-stagepoint,id=%q", id), isaacstates.HandoverMessageChallengeStagePointHint, c27Doc, func() any {
			return vfxHandoverChallengeStagePoint(id, sp)
		})
		g.add("message", fmt.Sprintf("handover-challenge-blockmap,id=%q", id), isaacstates.HandoverMessageChallengeBlockMapHint, c27Doc, func() any {
			return vfxHandoverChallengeBlockMap(id, base.NewStagePoint(base.RawPoint(33, 0), base.StageINIT), vfxBlockMap(vfxManifest(33, true), vfxAllItemTypes, &n0))
		})

		for _, haspr := range c27bools {
			haspr := haspr
			g.add("message", fmt.Sprintf("handover-finish,id=%q,%s", id, c27opt(haspr, "proposal")), isaacstates.HandoverMessageFinishHint, c27Doc, func() any {
				ifact := isaac.NewINITBallotFact(base.RawPoint(33, 0), vfxH("block-32"), vfxH("proposal-33"), nil)
				ivp := vfxMajorityVP(ifact, vfxNs(0, 1, 2), nil).(base.INITVoteproof) //nolint:forcetypeassert //...

				var pr base.ProposalSignFact
				if haspr {
					pr = vfxProposal(base.RawPoint(33, 0), n0, 1, true)
				}

				return vfxHandoverFinish(id, ivp, pr)
			})
		}
	}

	g.add("message", "handover-challenge-stagepoint,zero-point", isaacstates.HandoverMessageChallengeStagePointHint, c27Doc, func() any {
		return vfxHandoverChallengeStagePoint("handover-id", base.ZeroStagePoint)
	})
	g.add("message", "handover-challenge-blockmap,height-mismatch", isaacstates.HandoverMessageChallengeBlockMapHint, c27Doc, func() any {
		return vfxHandoverChallengeBlockMap("handover-id", sp.SetStage(base.StageINIT), vfxBlockMap(vfxManifest(34, true), vfxAllItemTypes, &n0))
	})

	datas := []struct {
		name string
		dt   isaacstates.HandoverMessageDataType
		f    func() any
	}{
		{"voteproof", isaacstates.HandoverMessageDataTypeVoteproof, func() any {
			return vfxMajorityVP(isaac.NewACCEPTBallotFact(base.RawPoint(33, 0), vfxH("proposal-33"), vfxH("block-33"), nil), vfxNs(0, 1, 2), nil)
		}},
		{"init-voteproof,with-proposal", isaacstates.HandoverMessageDataTypeINITVoteproof, func() any {
			ivp := vfxMajorityVP(isaac.NewINITBallotFact(base.RawPoint(33, 0), vfxH("block-32"), vfxH("proposal-33"), nil), vfxNs(0, 1, 2), nil)

			return []interface{}{vfxProposal(base.RawPoint(33, 0), n0, 1, true), ivp}
		}},
		{"init-voteproof,no-proposal", isaacstates.HandoverMessageDataTypeINITVoteproof, func() any {
			ivp := vfxMajorityVP(isaac.NewINITBallotFact(base.RawPoint(33, 0), vfxH("block-32"), vfxH("proposal-33"), nil), vfxNs(0, 1, 2), nil)

			return []interface{}{nil, ivp}
		}},
		{"ballot", isaacstates.HandoverMessageDataTypeBallot, func() any { return vfxINITBallot(1) }},
		{"proposal", isaacstates.HandoverMessageDataTypeProposal, func() any { return vfxProposal(base.RawPoint(33, 0), n0, 2, true) }},
		{"operation", isaacstates.HandoverMessageDataTypeOperation, func() any { return vfxJoinOp(vfxNs(20, 0)) }},
		{"suffrage-voting", isaacstates.HandoverMessageDataTypeSuffrageVoting, func() any { return vfxExpelOp(vfxN(10), 33, "reason", vfxNs(0, 1)) }},
		{"unknown", isaacstates.HandoverMessageDataTypeUnknown, func() any { return nil }},
		{"nil-data-for-ballot", isaacstates.HandoverMessageDataTypeBallot, func() any { return nil }},
		{"wrong-data-for-proposal", isaacstates.HandoverMessageDataTypeProposal, func() any { return vfxINITBallot(0) }},
	}

	for i := range datas {
		d := datas[i]
		g.add("message", "handover-data,"+d.name, isaacstates.HandoverMessageDataHint, c27Doc, func() any {
			return vfxHandoverData("handover-id", d.dt, d.f())
		})
	}

	// quicmemberlist
	for _, id := range []string{"", "broadcast-id"} {
		id := id
		g.add("memberlist", fmt.Sprintf("conninfo-broadcast,id=%q", id), quicmemberlist.ConnInfoBroadcastMessageHint, c27Doc, func() any {
			return quicmemberlist.NewConnInfoBroadcastMessage(id, ci)
		})
		g.add("memberlist", fmt.Sprintf("callback-broadcast-header,id=%q", id), quicmemberlist.CallbackBroadcastMessageHeaderHint, c27Doc, func() any {
			return quicmemberlist.NewCallbackBroadcastMessageHeader(id, quicstream.HashPrefix("verif-handler"))
		})
		g.add("memberlist", fmt.Sprintf("ensure-broadcast-header,id=%q", id), quicmemberlist.EnsureBroadcastMessageHeaderHint, c27Doc, func() any {
			h, err := quicmemberlist.NewEnsureBroadcastMessageHeader(id, quicstream.HashPrefix("verif-handler"), n0.addr, n0.priv, vfxNID)
			vfxMust(err)

			return h
		})
	}

	g.add("memberlist", "conninfo-broadcast,zero-conninfo", quicmemberlist.ConnInfoBroadcastMessageHint, c27Doc, func() any {
		return quicmemberlist.NewConnInfoBroadcastMessage("broadcast-id", quicstream.ConnInfo{})
	})

	for _, publish := range []string{"", "localhost:4321", "9.8.7.6:4321"} {
		for _, insecure := range c27bools {
			publish, insecure := publish, insecure
			g.add("memberlist", fmt.Sprintf("member,publish=%q,%s", publish, c27opt(insecure, "tlsinsecure")), quicmemberlist.MemberHint, c27WithHint, func() any {
				m, err := quicmemberlist.NewMember("member-name", vfxUDPAddr("1.2.3.4:4321"), n0.addr, n0.pub, publish, insecure)
				vfxMust(err)

				return m
			})
		}
	}
}

// ---------------------------------------------------------------- the check

func c27Decode(enc *jsonenc.Encoder, c c27Case, b []byte) (any, error) {
	switch c.mode {
	case c27Doc:
		return enc.Decode(b)
	case c27WithHint:
		return enc.DecodeWithHint(b, c.ht)
	}

	var s string
	if err := json.Unmarshal(b, &s); err != nil {
		return nil, err
	}

	switch c.mode {
	case c27PrivStr:
		return base.DecodePrivatekeyFromString(s, enc)
	case c27PubStr:
		return base.DecodePublickeyFromString(s, enc)
	default:
		i, err := base.DecodeAddress(s, enc)
		if err == nil && i == nil {
			return nil, errors.Errorf("nil address")
		}

		return i, err
	}
}

func c27Hash(x any) (string, bool) {
	switch t := x.(type) {
	case util.Hasher:
		h := t.Hash()
		if h == nil {
			return "<nil>", true
		}

		return h.String(), true
	case util.HashByter:
		return fmt.Sprintf("%x", t.HashBytes()), true
	}

	if t, ok := x.(interface{ HashBytes() []byte }); ok {
		return fmt.Sprintf("%x", t.HashBytes()), true
	}

	return "", false
}

// c27DiffPath: first differing leaf path of two JSON documents (array indices as []).
func c27DiffPath(a, b []byte) string {
	var x, y any
	if json.Unmarshal(a, &x) != nil || json.Unmarshal(b, &y) != nil {
		return "<not-json>"
	}

	return c27diff("", x, y)
}

func c27diff(p string, x, y any) string {
	switch xt := x.(type) {
	case map[string]any:
		yt, ok := y.(map[string]any)
		if !ok {
			return p
		}

		keys := map[string]bool{}
		for k := range xt {
			keys[k] = true
		}
		for k := range yt {
			keys[k] = true
		}

		ks := make([]string, 0, len(keys))
		for k := range keys {
			ks = append(ks, k)
		}
		sort.Strings(ks)

		for _, k := range ks {
			xv, xok := xt[k]
			yv, yok := yt[k]
			q := strings.TrimPrefix(p+"."+k, ".")

			if xok != yok {
				return q
			}

			if d := c27diff(q, xv, yv); d != "" {
				return d
			}
		}

		return ""
	case []any:
		yt, ok := y.([]any)
		if !ok || len(xt) != len(yt) {
			return p + "[]"
		}

		for i := range xt {
			if d := c27diff(p+"[]", xt[i], yt[i]); d != "" {
				return d
			}
		}

		return ""
	default:
		if !reflect.DeepEqual(x, y) {
			return p
		}

		return ""
	}
}

// c27Hints: every "_hint" value in a document, by type (for the nested-coverage counters).
func c27Hints(b []byte, f func(string)) {
	var x any
	if json.Unmarshal(b, &x) != nil {
		return
	}

	var walk func(any)
	walk = func(v any) {
		switch t := v.(type) {
		case map[string]any:
			for k, w := range t {
				if s, ok := w.(string); ok && k == "_hint" {
					if ht, err := hint.ParseHint(s); err == nil {
						f(ht.Type().String())
					}

					continue
				}

				walk(w)
			}
		case []any:
			for i := range t {
				walk(t[i])
			}
		}
	}

	walk(x)
}

func TestVerifC27(t *testing.T) {
	r := vlib.Start("C27")
	defer r.Finish()

	r.Rule("per type family a finite shape grammar (optional fields present/absent, every variant, list lengths 0..2, voters 0..3), enumerated completely; " +
		"each shape is built by the real constructors, JSON-encoded, decoded with the encoder holding all launch.Hinters, and compared (type, hint, hash/HashBytes, IsValid verdict, re-encoded bytes); " +
		"non-trivial = the object is valid and its document nests at least one other hinted object or a list; " +
		"every case is repeated (a) built by the same constructors at fixed instants of a virtual clock (whole second / millisecond / microsecond / nanoseconds; " +
		"then every time field of the built object moved to a non-UTC location, and the k-th time field set to the zero time, by reflection), " +
		"(b) decoded after four decode histories in which every string of the document was first decoded in the other role (address / public key), " +
		"(c) decoded by an encoder in which every decoder is registered under a compatible but different version than the document carries " +
		"(patch+1, minor+1, below the data; thorough: two registrations in either order) - the decoded object must keep the hint of the data")
	r.Assume("objects are built through exported constructors only; the five isaacstates handover messages with unexported constructors are built field-for-field by reflection")
	r.Assume("in the plain cases signing times come from the real constructors (wall clock); voteproof ids and uuid fields are random; they are data, not control flow")
	r.Assume("in the time variants localtime.Now() reads the virtual clock of vsched (util/localtime/time_sync.go compiled with time.Now -> vtime.Now); " +
		"a non-UTC location / a zero time is set on the built object by reflection: for fields that only a constructor fills (always UTC) this is a state the public API does not produce")
	r.Set("time_instants", vlib.Pick(r, "whole-second, nanoseconds, whole-millisecond, whole-microsecond", "whole-second, nanoseconds, whole-millisecond, whole-microsecond, tenth-of-second, last-nanosecond-of-second, last-second-of-day"))
	r.Set("decode_histories", []string{"strings-seen-as-address", "strings-seen-as-publickey", "strings-seen-as-address-then-publickey", "strings-seen-as-publickey-then-address"})

	enc := vfxNewEncoder()
	cases := c27Cases(r.Thorough())

	// version skew: the same decoders registered under compatible but different versions
	unversioned := c27UnversionedTypes(cases)
	skews := c27SkewEncoders(r.Thorough(), unversioned)

	{
		names := make([]string, len(skews))
		for i := range skews {
			names[i] = skews[i].name
		}

		r.Set("version_skews", names)

		var uv []string
		for ty := range unversioned {
			uv = append(uv, ty.String())
		}

		sort.Strings(uv)
		r.Set("version_skew_not_applied_to_string_decoded_types", uv)
	}

	// registry coverage, computed from launch.Hinters
	covered := map[string]int{}
	fams := map[string]int{}

	for i := range cases {
		covered[cases[i].ht.Type().String()]++
		fams[cases[i].fam]++
	}

	all := vfxAllHintTypes()

	var cov, notcov []string

	for _, ty := range all {
		if covered[ty] > 0 {
			cov = append(cov, fmt.Sprintf("%s(%d)", ty, covered[ty]))
		} else {
			notcov = append(notcov, ty)
		}
	}

	for ty := range covered {
		found := false
		for _, a := range all {
			if a == ty {
				found = true
			}
		}

		if !found {
			t.Fatalf("case for unregistered hint %s", ty)
		}
	}

	if notcov == nil {
		notcov = []string{}
	}

	r.Set("registered_hints", len(all))
	r.Set("hints_covered", cov)
	r.Set("hints_not_covered", notcov)
	r.Set("cases_total", len(cases))
	r.Set("list_lengths", vlib.Pick(r, "0..2", "0..3"))
	r.Set("cases_by_family", fams)

	seen := map[string]bool{}

	for i := range cases {
		c := cases[i]

		if seen[c.id] {
			t.Fatalf("duplicate case id %s", c.id)
		}

		seen[c.id] = true

		if !r.Mine(i) {
			continue
		}

		if r.Expired() {
			break
		}

		// every case starts from an empty decoder cache (base.objcache)
		c27FreshCache()

		if r.Want(c.id) {
			c27Check(t, r, enc, c, c27Variant{})
		}

		c27TimeVariants(t, r, enc, c)
		c27CacheVariants(t, r, enc, c)
		c27SkewVariants(t, r, skews, c)
	}

	c27FreshCache()
}

// c27Variant: one more point of a dimension that is orthogonal to the shape of
// the case (time values, decode history). The zero value is the plain case.
type c27Variant struct {
	id     string         // case id ("" = c.id)
	prefix string         // prefix of counters and outcome classes ("" = the plain case)
	sig    map[string]any // additional signature keys of a violation
	build  func() any     // nil = c.build
}

func c27Check(t *testing.T, r *vlib.Run, enc *jsonenc.Encoder, c c27Case, v c27Variant) {
	plain := v.prefix == ""
	pf := v.prefix

	if v.id != "" {
		c.id = v.id
	}

	var x any
	if v.build != nil {
		x = v.build()
	} else {
		x = c.build()
	}

	ty := c.ht.Type().String()

	if hr, ok := x.(hint.Hinter); ok && !hr.Hint().Equal(c.ht) {
		t.Fatalf("%s: built object has hint %s, declared %s", c.id, hr.Hint(), c.ht)
	}

	r.Eval()
	r.Trace()
	r.State(c.id)

	vio := func(kind, field, detail string, b []byte) {
		sig := map[string]any{"kind": kind, "hint": ty}
		if field != "" {
			sig["field"] = field
		}

		for k := range v.sig {
			sig[k] = v.sig[k]
		}

		r.Outcome(pf + "violation:" + kind)
		r.Violation(c.id, sig, fmt.Sprintf("%s: %s; encoded=%s", c.id, detail, vfxShort(b)), map[string]any{"case": c.id})
	}

	// vx: "valid" | "invalid" | "panic" | "n/a" (no IsValid method: judged like a valid object)
	vx, dx := vfxValidity(x, vfxNID)
	strict := vx == "valid" || vx == "n/a"

	if vx == "panic" && plain {
		r.Add("isvalid_panics_on_constructed."+ty, 1)
		r.Sample(map[string]any{"case": c.id, "isvalid_panic": vfxShort([]byte(dx))})
	}

	b1, err := enc.Marshal(x)
	if err != nil {
		if strict {
			vio("encode-error", "", "valid object fails to encode: "+err.Error(), nil)
		} else {
			r.Outcome(pf + vx + ":unencodable")
		}

		return
	}

	r.Add(pf+"encoded_bytes", int64(len(b1)))

	nested := 0

	c27Hints(b1, func(s string) {
		nested++

		if plain {
			r.Add("hint_occurrences."+s, 1)
		}
	})

	var y any

	panicked, pmsg := vfxCatch(func() { y, err = c27Decode(enc, c, b1) })

	switch {
	case panicked:
		vio("decode-panic", "", "decoding panics: "+pmsg, b1)

		return
	case err != nil && strict:
		vio("valid-object-undecodable", "", "valid object does not decode: "+err.Error(), b1)

		return
	case err != nil:
		r.Outcome(pf + vx + ":undecodable")

		if !plain {
			return
		}

		r.Sample(map[string]any{"case": c.id, "verdict": vx, "why": vfxShort([]byte(dx)), "decode_error": vfxShort([]byte(err.Error()))})

		return
	case y == nil:
		if strict {
			vio("valid-object-decodes-to-nil", "", "valid object decodes to nil", b1)
		} else {
			r.Outcome(pf + vx + ":decodes-to-nil")
		}

		return
	}

	r.Transition()

	ok := true
	stable := true

	// An object that IsValid rejects is not a protocol object: it must stay
	// rejected (or undecodable) after the round trip; hash / byte stability of
	// rejected objects is recorded as an outcome class, not demanded.
	diff := func(kind, field, detail string) {
		if strict {
			vio(kind, field, detail, b1)

			ok = false

			return
		}

		stable = false

		r.Add(pf+"rejected_object_unstable."+kind+"."+ty, 1)
	}

	if tx, ty2 := reflect.TypeOf(x), reflect.TypeOf(y); tx != ty2 {
		diff("type-differs", "", fmt.Sprintf("decoded type %s, original %s", ty2, tx))
	}

	if hx, isx := x.(hint.Hinter); isx {
		if hy, isy := y.(hint.Hinter); !isy || !hx.Hint().Equal(hy.Hint()) {
			diff("hint-differs", "", fmt.Sprintf("decoded hint differs from %s", hx.Hint()))
		}
	}

	if hx, has := c27Hash(x); has {
		if hy, _ := c27Hash(y); hx != hy {
			diff("hash-differs", "", fmt.Sprintf("hash %s before, %s after decode", vfxShort([]byte(hx)), vfxShort([]byte(hy))))
		}
	}

	vy, dy := vfxValidity(y, vfxNID)

	switch {
	case vx == vy:
	case vx == "invalid" && vy == "panic", vx == "panic" && vy == "invalid":
		// both rejected; a panic of IsValid on a decoded document is reported separately
	default:
		vio("verdict-differs", "", fmt.Sprintf("IsValid %s(%s) before, %s(%s) after decode", vx, vfxShort([]byte(dx)), vy, vfxShort([]byte(dy))), b1)

		ok = false
	}

	if vy == "panic" && plain {
		// reachable from the wire: a peer can send these bytes
		r.Add("isvalid_panics_on_decoded."+ty, 1)
		r.Sample(map[string]any{"case": c.id, "isvalid_panic_on_decoded_document": vfxShort([]byte(dy))})
	}

	b2, err := enc.Marshal(y)

	switch {
	case err != nil:
		diff("reencode-error", "", "decoded object fails to encode: "+err.Error())
	case !bytes.Equal(b1, b2):
		switch f := c27DiffPath(b1, b2); f {
		case "":
			// same JSON value, different bytes: only the member order differs
			diff("reencode-member-order-differs", "", fmt.Sprintf("re-encoded bytes hold the same JSON value in a different member order: reencoded=%s", vfxShort(b2)))
		default:
			diff("reencode-differs", f, fmt.Sprintf("re-encoded bytes differ at %q: reencoded=%s", f, vfxShort(b2)))
		}
	default:
		// The encoder writes Go maps in iteration order; equal bytes above may be
		// luck. Encode the decoded object again a fixed number of times so that the
		// verdict does not depend on the map iteration seed (miss probability for a
		// two-member map: 2^-24).
		// (map order does not depend on the variant: done for the plain case only)
		for i := 0; i < 24 && plain; i++ {
			b3, err := enc.Marshal(y)
			if err != nil || bytes.Equal(b1, b3) {
				continue
			}

			if c27DiffPath(b1, b3) == "" {
				diff("reencode-member-order-differs", "", fmt.Sprintf("encoding the same decoded object again gives the same JSON value in a different member order: reencoded=%s", vfxShort(b3)))
			} else {
				diff("reencode-unstable", "", fmt.Sprintf("encoding the same decoded object again gives different bytes: %s", vfxShort(b3)))
			}

			break
		}
	}

	if !ok {
		return
	}

	switch {
	case stable:
		r.Outcome(pf + vx + ":roundtrip-ok")
	default:
		r.Outcome(pf + vx + ":stays-rejected,hash-or-bytes-not-stable")
	}

	if strict && nested > 1 {
		r.Nontrivial(c.id)
	}

	if strict {
		r.Add(pf+"valid_roundtrips."+c.fam, 1)
	} else {
		r.Add(pf+"rejected_roundtrips."+c.fam, 1)
	}
}

