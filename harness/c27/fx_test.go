//go:build verif

package launch

// Shared fixtures for C27 (encode/decode round trip) and C28 (signed content
// mutations). Everything is built through the exported constructors of the
// mitum packages (the same calls the node makes); keys, addresses and hashes
// come from fixed seeds. Signing times, voteproof ids and the `r` of an
// empty-proposal fact come from the real constructors (wall clock / uuid): they
// are data only, no control flow or case id depends on them.

import (
	"fmt"
	"net"
	"net/url"
	"reflect"
	"sort"
	"strings"
	"time"
	"unsafe"

	"github.com/pkg/errors"
	"github.com/spikeekips/mitum/base"
	"github.com/spikeekips/mitum/isaac"
	isaacblock "github.com/spikeekips/mitum/isaac/block"
	isaacnetwork "github.com/spikeekips/mitum/isaac/network"
	isaacoperation "github.com/spikeekips/mitum/isaac/operation"
	isaacstates "github.com/spikeekips/mitum/isaac/states"
	"github.com/spikeekips/mitum/network/quicmemberlist"
	"github.com/spikeekips/mitum/network/quicstream"
	quicstreamheader "github.com/spikeekips/mitum/network/quicstream/header"
	"github.com/spikeekips/mitum/util"
	"github.com/spikeekips/mitum/util/encoder"
	jsonenc "github.com/spikeekips/mitum/util/encoder/json"
	"github.com/spikeekips/mitum/util/fixedtree"
	"github.com/spikeekips/mitum/util/hint"
	"github.com/spikeekips/mitum/util/valuehash"
)

var (
	vfxNID  = base.NetworkID([]byte("verif-network-id"))
	vfxNID2 = base.NetworkID([]byte("verif-network-id-other"))
)

func vfxMust(err error) {
	if err != nil {
		panic(fmt.Sprintf("fixture: %+v", err))
	}
}

// vfxNewEncoder is the node's JSON encoder with every registered hinter
// (launch.Hinters + SupportedProposalOperationFactHinters), set up the way
// launch.PEncoder/PAddHinters do it.
func vfxNewEncoder() *jsonenc.Encoder {
	enc := jsonenc.NewEncoder()
	encs := encoder.NewEncoders(enc, enc)
	vfxMust(LoadHinters(encs))

	return enc
}

func vfxAllDetails() []encoder.DecodeDetail {
	ds := make([]encoder.DecodeDetail, 0, len(Hinters)+len(SupportedProposalOperationFactHinters))
	ds = append(ds, Hinters...)
	ds = append(ds, SupportedProposalOperationFactHinters...)

	return ds
}

func vfxAllHintTypes() []string {
	ds := vfxAllDetails()
	s := make([]string, len(ds))
	for i := range ds {
		s[i] = ds[i].Hint.Type().String()
	}
	sort.Strings(s)

	return s
}

type vfxNode struct {
	priv base.Privatekey
	pub  base.Publickey
	addr base.Address
	node base.Node
}

var vfxNodeCache = map[int]vfxNode{}

// vfxVariant selects a second, disjoint set of fixed values (nodes, hashes,
// token) so that a "twin" of every fixture can be built: same shape, different
// field values and signers. 0 is the default set.
var vfxVariant int

func vfxTwin(f func()) {
	vfxVariant = 1
	defer func() { vfxVariant = 0 }()

	f()
}

func vfxN(i int) vfxNode {
	i += 40 * vfxVariant

	if n, ok := vfxNodeCache[i]; ok {
		return n
	}

	priv, err := base.NewMPrivatekeyFromSeed(fmt.Sprintf("verif-fixed-seed-node-%02d-0123456789abcdef0123456789", i))
	vfxMust(err)

	addr := base.NewStringAddress(fmt.Sprintf("vnode%02d", i))
	n := vfxNode{priv: priv, pub: priv.Publickey(), addr: addr, node: isaac.NewNode(priv.Publickey(), addr)}
	vfxNodeCache[i] = n

	return n
}

func vfxNs(is ...int) []vfxNode {
	ns := make([]vfxNode, len(is))
	for i := range is {
		ns[i] = vfxN(is[i])
	}

	return ns
}

func vfxH(label string) util.Hash {
	if vfxVariant != 0 {
		return valuehash.NewSHA256([]byte(fmt.Sprintf("verif-twin%d-%s", vfxVariant, label)))
	}

	return valuehash.NewSHA256([]byte("verif-" + label))
}

func vfxHs(label string, n int) []util.Hash {
	if n < 1 {
		return nil
	}

	hs := make([]util.Hash, n)
	for i := range hs {
		hs[i] = vfxH(fmt.Sprintf("%s-%d", label, i))
	}

	return hs
}

var vfxTime = time.Date(2023, 4, 5, 6, 7, 8, 123000000, time.UTC)

// ---------------------------------------------------------------- expels

func vfxExpelFact(target vfxNode, start base.Height, reason string) isaac.SuffrageExpelFact {
	return isaac.NewSuffrageExpelFact(target.addr, start, start+1, reason)
}

func vfxExpelOp(target vfxNode, start base.Height, reason string, signers []vfxNode) isaac.SuffrageExpelOperation {
	op := isaac.NewSuffrageExpelOperation(vfxExpelFact(target, start, reason))
	for i := range signers {
		vfxMust(op.NodeSign(signers[i].priv, vfxNID, signers[i].addr))
	}

	return op
}

// vfxExpels: n expel operations for nodes 10, 11, ..., signed by nodes 0 and 1
func vfxExpels(n int, start base.Height) []base.SuffrageExpelOperation {
	if n < 1 {
		return nil
	}

	ops := make([]base.SuffrageExpelOperation, n)
	for i := range ops {
		ops[i] = vfxExpelOp(vfxN(10+i), start, fmt.Sprintf("reason %d", i), vfxNs(0, 1))
	}

	sort.Slice(ops, func(i, j int) bool {
		return ops[i].Fact().Hash().String() < ops[j].Fact().Hash().String()
	})

	return ops
}

func vfxExpelFactHashes(ops []base.SuffrageExpelOperation) []util.Hash {
	if len(ops) < 1 {
		return nil
	}

	hs := make([]util.Hash, len(ops))
	for i := range ops {
		hs[i] = ops[i].Fact().Hash()
	}

	return hs
}

// ---------------------------------------------------------------- ballot facts

type vfxFactKind int

const (
	vfxKINIT vfxFactKind = iota
	vfxKEmptyProposal
	vfxKSuffrageConfirm
	vfxKACCEPT
	vfxKEmptyOperations
	vfxKNotProcessed
)

var vfxFactKindNames = []string{"init", "empty-proposal", "suffrage-confirm", "accept", "empty-operations", "not-processed"}

func (k vfxFactKind) String() string { return vfxFactKindNames[k] }

func (k vfxFactKind) isINIT() bool { return k <= vfxKSuffrageConfirm }

func (k vfxFactKind) hint() hint.Hint {
	return []hint.Hint{
		isaac.INITBallotFactHint, isaac.EmptyProposalINITBallotFactHint, isaac.SuffrageConfirmBallotFactHint,
		isaac.ACCEPTBallotFactHint, isaac.EmptyOperationsACCEPTBallotFactHint, isaac.NotProcessedACCEPTBallotFactHint,
	}[k]
}

// vfxBallotFact: INIT kinds take (previousBlock, proposal), ACCEPT kinds take
// (proposal, newBlock); the empty-operations / not-processed constructors draw
// their own new block, empty-proposal takes no expels.
func vfxBallotFact(kind vfxFactKind, point base.Point, h1, h2 util.Hash, expelfacts []util.Hash) base.BallotFact {
	switch kind {
	case vfxKINIT:
		return isaac.NewINITBallotFact(point, h1, h2, expelfacts)
	case vfxKEmptyProposal:
		return isaac.NewEmptyProposalINITBallotFact(point, h1, h2)
	case vfxKSuffrageConfirm:
		return isaac.NewSuffrageConfirmBallotFact(point, h1, h2, expelfacts)
	case vfxKACCEPT:
		return isaac.NewACCEPTBallotFact(point, h1, h2, expelfacts)
	case vfxKEmptyOperations:
		return isaac.NewEmptyOperationsACCEPTBallotFact(point, h1)
	case vfxKNotProcessed:
		return isaac.NewNotProcessedACCEPTBallotFact(point, h1)
	}

	panic("unknown fact kind")
}

func vfxSignFact(fact base.BallotFact, n vfxNode, sign bool) base.BallotSignFact {
	switch f := fact.(type) {
	case base.INITBallotFact:
		sf := isaac.NewINITBallotSignFact(f)
		if sign {
			vfxMust(sf.NodeSign(n.priv, vfxNID, n.addr))
		}

		return sf
	case base.ACCEPTBallotFact:
		sf := isaac.NewACCEPTBallotSignFact(f)
		if sign {
			vfxMust(sf.NodeSign(n.priv, vfxNID, n.addr))
		}

		return sf
	}

	panic(fmt.Sprintf("unknown ballot fact %T", fact))
}

func vfxSignFacts(fact base.BallotFact, voters []vfxNode) []base.BallotSignFact {
	sfs := make([]base.BallotSignFact, len(voters))
	for i := range voters {
		sfs[i] = vfxSignFact(fact, voters[i], true)
	}

	return sfs
}

// ---------------------------------------------------------------- voteproofs

type vfxVP struct {
	stage     base.Stage
	variant   string // "plain" | "expel" | "stuck"
	point     base.Point
	majority  base.BallotFact // nil = draw
	sfs       []base.BallotSignFact
	expels    []base.SuffrageExpelOperation
	threshold base.Threshold
	nofinish  bool
}

func vfxVoteproof(o vfxVP) base.Voteproof {
	th := o.threshold
	if th == 0 {
		th = base.Threshold(67)
	}

	switch {
	case o.stage == base.StageINIT && o.variant == "plain":
		vp := isaac.NewINITVoteproof(o.point)
		vp.SetMajority(o.majority).SetSignFacts(o.sfs).SetThreshold(th)
		if !o.nofinish {
			vp.Finish()
		}

		return vp
	case o.stage == base.StageINIT && o.variant == "expel":
		vp := isaac.NewINITExpelVoteproof(o.point)
		vp.SetMajority(o.majority).SetSignFacts(o.sfs).SetThreshold(th)
		vp.SetExpels(o.expels)
		if !o.nofinish {
			vp.INITVoteproof.Finish()
		}

		return vp
	case o.stage == base.StageINIT && o.variant == "stuck":
		vp := isaac.NewINITStuckVoteproof(o.point)
		vp.SetSignFacts(o.sfs)
		vp.SetExpels(o.expels)
		if !o.nofinish {
			vp.Finish()
		}

		return vp
	case o.stage == base.StageACCEPT && o.variant == "plain":
		vp := isaac.NewACCEPTVoteproof(o.point)
		vp.SetMajority(o.majority).SetSignFacts(o.sfs).SetThreshold(th)
		if !o.nofinish {
			vp.Finish()
		}

		return vp
	case o.stage == base.StageACCEPT && o.variant == "expel":
		vp := isaac.NewACCEPTExpelVoteproof(o.point)
		vp.SetMajority(o.majority).SetSignFacts(o.sfs).SetThreshold(th)
		vp.SetExpels(o.expels)
		if !o.nofinish {
			vp.ACCEPTVoteproof.Finish()
		}

		return vp
	case o.stage == base.StageACCEPT && o.variant == "stuck":
		vp := isaac.NewACCEPTStuckVoteproof(o.point)
		vp.SetSignFacts(o.sfs)
		vp.SetExpels(o.expels)
		if !o.nofinish {
			vp.Finish()
		}

		return vp
	}

	panic("unknown voteproof variant")
}

func vfxVPHint(stage base.Stage, variant string) hint.Hint {
	switch {
	case stage == base.StageINIT && variant == "plain":
		return isaac.INITVoteproofHint
	case stage == base.StageINIT && variant == "expel":
		return isaac.INITExpelVoteproofHint
	case stage == base.StageINIT && variant == "stuck":
		return isaac.INITStuckVoteproofHint
	case stage == base.StageACCEPT && variant == "plain":
		return isaac.ACCEPTVoteproofHint
	case stage == base.StageACCEPT && variant == "expel":
		return isaac.ACCEPTExpelVoteproofHint
	default:
		return isaac.ACCEPTStuckVoteproofHint
	}
}

// vfxMajorityVP: a valid majority voteproof of the given stage for the fact, voted by `voters`.
func vfxMajorityVP(fact base.BallotFact, voters []vfxNode, expels []base.SuffrageExpelOperation) base.Voteproof {
	variant := "plain"
	if len(expels) > 0 {
		variant = "expel"
	}

	return vfxVoteproof(vfxVP{
		stage: fact.Point().Stage(), variant: variant, point: fact.Point().Point,
		majority: fact, sfs: vfxSignFacts(fact, voters), expels: expels,
	})
}

// ---------------------------------------------------------------- ballots

// vfxINITBallot: a valid INIT ballot of node 0 at (33,0) on top of the ACCEPT
// voteproof of (32,0), carrying nexpels expel operations.
func vfxINITBallot(nexpels int) isaac.INITBallot {
	point := base.RawPoint(33, 0)
	prev := vfxH("block-32")

	afact := isaac.NewACCEPTBallotFact(base.RawPoint(32, 0), vfxH("proposal-32"), prev, nil)
	avp := vfxMajorityVP(afact, vfxNs(0, 1, 2), nil)

	expels := vfxExpels(nexpels, 33)
	fact := isaac.NewINITBallotFact(point, prev, vfxH("proposal-33"), vfxExpelFactHashes(expels))
	sf := vfxSignFact(fact, vfxN(0), true).(isaac.INITBallotSignFact) //nolint:forcetypeassert //...

	return isaac.NewINITBallot(avp, sf, expels)
}

// vfxINITBallotNextRound: INIT ballot of round 1 on top of a draw INIT/ACCEPT voteproof of round 0.
func vfxINITBallotNextRound(stage base.Stage) isaac.INITBallot {
	var sfs []base.BallotSignFact

	switch stage {
	case base.StageINIT:
		sfs = []base.BallotSignFact{
			vfxSignFact(isaac.NewINITBallotFact(base.RawPoint(33, 0), vfxH("block-32"), vfxH("pr-a"), nil), vfxN(0), true),
			vfxSignFact(isaac.NewINITBallotFact(base.RawPoint(33, 0), vfxH("block-32"), vfxH("pr-b"), nil), vfxN(1), true),
		}
	default:
		sfs = []base.BallotSignFact{
			vfxSignFact(isaac.NewACCEPTBallotFact(base.RawPoint(33, 0), vfxH("pr-a"), vfxH("block-a"), nil), vfxN(0), true),
			vfxSignFact(isaac.NewACCEPTBallotFact(base.RawPoint(33, 0), vfxH("pr-a"), vfxH("block-b"), nil), vfxN(1), true),
		}
	}

	vp := vfxVoteproof(vfxVP{stage: stage, variant: "plain", point: base.RawPoint(33, 0), sfs: sfs})

	fact := isaac.NewINITBallotFact(base.RawPoint(33, 1), vfxH("block-32"), vfxH("proposal-33-1"), nil)
	sf := vfxSignFact(fact, vfxN(0), true).(isaac.INITBallotSignFact) //nolint:forcetypeassert //...

	return isaac.NewINITBallot(vp, sf, nil)
}

// vfxSuffrageConfirmBallot: INIT ballot with a suffrage-confirm fact on top of
// the INIT expel voteproof of the same point.
func vfxSuffrageConfirmBallot(nexpels int) isaac.INITBallot {
	point := base.RawPoint(33, 0)
	expels := vfxExpels(nexpels, 33)
	efs := vfxExpelFactHashes(expels)

	ifact := isaac.NewINITBallotFact(point, vfxH("block-32"), vfxH("proposal-33"), efs)
	ivp := vfxMajorityVP(ifact, vfxNs(0, 1, 2), expels)

	fact := isaac.NewSuffrageConfirmBallotFact(point, vfxH("block-32"), vfxH("proposal-33"), efs)
	sf := vfxSignFact(fact, vfxN(0), true).(isaac.INITBallotSignFact) //nolint:forcetypeassert //...

	return isaac.NewINITBallot(ivp, sf, nil)
}

// vfxACCEPTBallot: a valid ACCEPT ballot of node 0 at (33,0) on top of the INIT
// (expel) voteproof of the same point.
func vfxACCEPTBallot(nexpels int, kind vfxFactKind) isaac.ACCEPTBallot {
	point := base.RawPoint(33, 0)
	expels := vfxExpels(nexpels, 33)
	efs := vfxExpelFactHashes(expels)

	ifact := isaac.NewINITBallotFact(point, vfxH("block-32"), vfxH("proposal-33"), efs)
	ivp := vfxMajorityVP(ifact, vfxNs(0, 1, 2), expels).(base.INITVoteproof) //nolint:forcetypeassert //...

	var fact base.BallotFact

	switch kind {
	case vfxKACCEPT:
		fact = isaac.NewACCEPTBallotFact(point, vfxH("proposal-33"), vfxH("block-33"), efs)
	default:
		fact = vfxBallotFact(kind, point, vfxH("proposal-33"), nil, nil)
	}

	sf := vfxSignFact(fact, vfxN(0), true).(isaac.ACCEPTBallotSignFact) //nolint:forcetypeassert //...

	return isaac.NewACCEPTBallot(ivp, sf, expels)
}

// ---------------------------------------------------------------- proposal

func vfxOps(n int) [][2]util.Hash {
	ops := make([][2]util.Hash, n)
	for i := range ops {
		ops[i] = [2]util.Hash{vfxH(fmt.Sprintf("op-%d", i)), vfxH(fmt.Sprintf("opfact-%d", i))}
	}

	return ops
}

func vfxProposalFact(point base.Point, proposer vfxNode, nops int) isaac.ProposalFact {
	var prev util.Hash
	if point.Height() != base.GenesisHeight {
		prev = vfxH("previous-block")
	}

	return isaac.NewProposalFact(point, proposer.addr, prev, vfxOps(nops))
}

func vfxProposal(point base.Point, proposer vfxNode, nops int, sign bool) isaac.ProposalSignFact {
	sf := isaac.NewProposalSignFact(vfxProposalFact(point, proposer, nops))
	if sign {
		vfxMust(sf.Sign(proposer.priv, vfxNID))
	}

	return sf
}

// ---------------------------------------------------------------- manifest, block map, states, suffrage proof

func vfxManifest(height base.Height, trees bool) isaac.Manifest {
	var prev, ot, st, suf util.Hash
	if height != base.GenesisHeight {
		prev = vfxH("manifest-previous")
	}

	if trees {
		ot, st, suf = vfxH("operations-tree"), vfxH("states-tree"), vfxH("suffrage")
	}

	return isaac.NewManifest(height, prev, vfxH("manifest-proposal"), ot, st, suf, vfxTime)
}

var vfxAllItemTypes = []base.BlockItemType{
	base.BlockItemProposal, base.BlockItemVoteproofs,
	base.BlockItemOperations, base.BlockItemOperationsTree, base.BlockItemStates, base.BlockItemStatesTree,
}

func vfxBlockMap(manifest base.Manifest, items []base.BlockItemType, signer *vfxNode) isaacblock.BlockMap {
	m := isaacblock.NewBlockMap()
	for i := range items {
		vfxMust(m.SetItem(isaacblock.NewBlockMapItem(items[i], fmt.Sprintf("checksum%d-of-%s", vfxVariant, items[i]))))
	}

	m.SetManifest(manifest)

	if signer != nil {
		vfxMust(m.Sign(signer.addr, signer.priv, vfxNID))
	}

	return m
}

func vfxSuffrageNodesValue(sufheight base.Height, n int, start base.Height) isaac.SuffrageNodesStateValue {
	nodes := make([]base.SuffrageNodeStateValue, n)
	for i := range nodes {
		nodes[i] = isaac.NewSuffrageNodeStateValue(vfxN(i).node, start)
	}

	return isaac.NewSuffrageNodesStateValue(sufheight, nodes)
}

func vfxCandidatesValue(n int) isaac.SuffrageCandidatesStateValue {
	nodes := make([]base.SuffrageCandidateStateValue, n)
	for i := range nodes {
		nodes[i] = isaac.NewSuffrageCandidateStateValue(vfxN(20+i).node, 33, 66)
	}

	return isaac.NewSuffrageCandidatesStateValue(nodes)
}

func vfxSuffrageState(height base.Height, nnodes int, previous util.Hash, nops int) base.BaseState {
	return base.NewBaseState(height, isaac.SuffrageStateKey, vfxSuffrageNodesValue(height-1, nnodes, height), previous, vfxHs("state-op", nops))
}

// vfxSuffrageProof: block map of `height` signed by node 0, the suffrage state
// of that height and its proof in a states tree of ntree nodes.
func vfxPreviousSuffrageState(height base.Height) base.State {
	if height == base.GenesisHeight {
		return nil
	}

	return base.NewBaseState(height-1, isaac.SuffrageStateKey, vfxSuffrageNodesValue(base.Height(2), 3, height-1), vfxH("state-before"), vfxHs("state-op", 1))
}

func vfxSuffrageProof(height base.Height, ntree int) isaacblock.SuffrageProof {
	var prev util.Hash
	if p := vfxPreviousSuffrageState(height); p != nil {
		prev = p.Hash()
	}

	st := base.NewBaseState(height, isaac.SuffrageStateKey, vfxSuffrageNodesValue(base.Height(3), 3, height), prev, vfxHs("state-op", 2))

	w, err := fixedtree.NewWriter(base.StateFixedtreeHint, uint64(ntree))
	vfxMust(err)

	for i := 0; i < ntree-1; i++ {
		vfxMust(w.Add(uint64(i), fixedtree.NewBaseNode(vfxH(fmt.Sprintf("other-state-%d", i)).String())))
	}

	vfxMust(w.Add(uint64(ntree-1), fixedtree.NewBaseNode(st.Hash().String())))
	vfxMust(w.Write(func(uint64, fixedtree.Node) error { return nil }))

	tr, err := w.Tree()
	vfxMust(err)

	proof, err := tr.Proof(st.Hash().String())
	vfxMust(err)

	// the manifest names the root of that states tree (SuffrageProof.Prove compares them)
	mf := vfxManifest(height, true)
	mf = isaac.NewManifest(height, mf.Previous(), mf.Proposal(), mf.OperationsTree(), tr.Root(), mf.Suffrage(), vfxTime)

	n0 := vfxN(0)
	m := vfxBlockMap(mf, vfxAllItemTypes, &n0)

	return isaacblock.NewSuffrageProof(m, st, proof)
}

// ---------------------------------------------------------------- operations

func vfxTok() base.Token {
	if vfxVariant != 0 {
		return base.Token([]byte(fmt.Sprintf("verif-token-twin%d", vfxVariant)))
	}

	return base.Token([]byte("verif-token"))
}

func vfxCandidateOp(signers []vfxNode) isaacoperation.SuffrageCandidate {
	c := vfxN(20)
	op := isaacoperation.NewSuffrageCandidate(isaacoperation.NewSuffrageCandidateFact(vfxTok(), c.addr, c.pub))

	for i := range signers {
		vfxMust(op.NodeSign(signers[i].priv, vfxNID, signers[i].addr))
	}

	return op
}

func vfxJoinOp(signers []vfxNode) isaacoperation.SuffrageJoin {
	op := isaacoperation.NewSuffrageJoin(isaacoperation.NewSuffrageJoinFact(vfxTok(), vfxN(20).addr, 33))

	for i := range signers {
		vfxMust(op.NodeSign(signers[i].priv, vfxNID, signers[i].addr))
	}

	return op
}

func vfxDisjoinOp(signers []vfxNode) isaacoperation.SuffrageDisjoin {
	op := isaacoperation.NewSuffrageDisjoin(isaacoperation.NewSuffrageDisjoinFact(vfxTok(), vfxN(20).addr, 33))

	for i := range signers {
		vfxMust(op.NodeSign(signers[i].priv, vfxNID, signers[i].addr))
	}

	return op
}

func vfxNetworkPolicyOp(signers []vfxNode) isaacoperation.NetworkPolicy {
	op := isaacoperation.NewNetworkPolicy(isaacoperation.NewNetworkPolicyFact(vfxTok(), isaac.DefaultNetworkPolicy()))

	for i := range signers {
		vfxMust(op.NodeSign(signers[i].priv, vfxNID, signers[i].addr))
	}

	return op
}

func vfxGenesisNetworkPolicyOp(sign bool) isaacoperation.GenesisNetworkPolicy {
	op := isaacoperation.NewGenesisNetworkPolicy(isaacoperation.NewGenesisNetworkPolicyFact(isaac.DefaultNetworkPolicy()))
	if sign {
		vfxMust(op.Sign(vfxN(0).priv, vfxNID))
	}

	return op
}

func vfxGenesisJoinFact(nnodes int) isaacoperation.SuffrageGenesisJoinFact {
	nodes := make([]base.Node, nnodes)
	for i := range nodes {
		nodes[i] = vfxN(i).node
	}

	return isaacoperation.NewSuffrageGenesisJoinFact(nodes, vfxNID)
}

func vfxGenesisJoinOp(nnodes int, sign bool) isaacoperation.SuffrageGenesisJoin {
	op := isaacoperation.NewSuffrageGenesisJoin(vfxGenesisJoinFact(nnodes))
	if sign {
		vfxMust(op.Sign(vfxN(0).priv, vfxNID))
	}

	return op
}

// ---------------------------------------------------------------- unexported-constructor types

// vfxSetField sets an unexported struct field by name (also through embedded
// structs). Used only for the five isaacstates handover messages whose
// constructors are unexported trivial struct literals; the values built here
// are field-for-field what newHandoverMessageX(...) returns.
func vfxSetField(ptr any, name string, val any) {
	v := reflect.ValueOf(ptr).Elem().FieldByName(name)
	if !v.IsValid() {
		panic("no field " + name)
	}

	w := reflect.NewAt(v.Type(), unsafe.Pointer(v.UnsafeAddr())).Elem()

	if val == nil {
		w.Set(reflect.Zero(v.Type()))

		return
	}

	w.Set(reflect.ValueOf(val))
}

func vfxHandoverBase(ptr any, ht hint.Hint, id string) {
	vfxSetField(ptr, "BaseHinter", hint.NewBaseHinter(ht))
	vfxSetField(ptr, "id", id)
}

func vfxHandoverChallengeResponse(id string, point base.StagePoint, ok bool, err error) isaacstates.HandoverMessageChallengeResponse {
	var h isaacstates.HandoverMessageChallengeResponse
	vfxHandoverBase(&h, isaacstates.HandoverMessageChallengeResponseHint, id)
	vfxSetField(&h, "point", point)
	vfxSetField(&h, "ok", ok)
	vfxSetField(&h, "err", err)

	return h
}

func vfxHandoverFinish(id string, vp base.INITVoteproof, pr base.ProposalSignFact) isaacstates.HandoverMessageFinish {
	var h isaacstates.HandoverMessageFinish
	vfxHandoverBase(&h, isaacstates.HandoverMessageFinishHint, id)
	vfxSetField(&h, "vp", vp)
	vfxSetField(&h, "pr", pr)

	return h
}

func vfxHandoverChallengeStagePoint(id string, point base.StagePoint) isaacstates.HandoverMessageChallengeStagePoint {
	var h isaacstates.HandoverMessageChallengeStagePoint
	vfxHandoverBase(&h, isaacstates.HandoverMessageChallengeStagePointHint, id)
	vfxSetField(&h, "point", point)

	return h
}

func vfxHandoverChallengeBlockMap(id string, point base.StagePoint, m base.BlockMap) isaacstates.HandoverMessageChallengeBlockMap {
	var h isaacstates.HandoverMessageChallengeBlockMap
	vfxHandoverBase(&h, isaacstates.HandoverMessageChallengeBlockMapHint, id)
	vfxSetField(&h, "point", point)
	vfxSetField(&h, "m", m)

	return h
}

func vfxHandoverData(id string, dt isaacstates.HandoverMessageDataType, data any) isaacstates.HandoverMessageData {
	var h isaacstates.HandoverMessageData
	vfxHandoverBase(&h, isaacstates.HandoverMessageDataHint, id)
	vfxSetField(&h, "dataType", dt)
	vfxSetField(&h, "data", data)

	return h
}

// ---------------------------------------------------------------- misc helpers used by both checks

func vfxConnInfo(s string) quicstream.ConnInfo {
	return quicstream.MustNewConnInfoFromFullString(s)
}

func vfxURL(s string) url.URL {
	u, err := url.Parse(s)
	vfxMust(err)

	return *u
}

func vfxUDPAddr(s string) *net.UDPAddr {
	a, err := net.ResolveUDPAddr("udp", s)
	vfxMust(err)

	return a
}

var (
	_ = quicmemberlist.MemberHint
	_ = quicstreamheader.DefaultResponseHeaderHint
	_ = isaacnetwork.NodeInfoHint
	_ = errors.New
	_ = strings.TrimSpace
)

// vfxValidity: "valid" / "invalid" / "panic" of x.IsValid(networkID); "n/a" when x has no IsValid.
func vfxValidity(x any, networkID []byte) (verdict string, detail string) {
	var f func() error

	switch v := x.(type) {
	case util.IsValider:
		f = func() error { return v.IsValid(networkID) }
	case interface{ IsValid(base.NetworkID) error }: // isaacnetwork.NodeInfo
		f = func() error { return v.IsValid(networkID) }
	default:
		return "n/a", ""
	}

	var err error

	panicked, msg := vfxCatch(func() { err = f() })

	switch {
	case panicked:
		return "panic", msg
	case err != nil:
		return "invalid", err.Error()
	default:
		return "valid", ""
	}
}

func vfxCatch(f func()) (panicked bool, msg string) {
	defer func() {
		if e := recover(); e != nil {
			panicked = true
			msg = fmt.Sprint(e)
		}
	}()

	f()

	return false, ""
}

// vfxShapeVoteproof builds one voteproof shape.
//
//	majority         : all voters sign the same plain fact (INIT / ACCEPT), which is the majority
//	majority-special : the majority fact is a suffrage-confirm (INIT) / not-processed (ACCEPT) fact
//	draw             : voters sign the same fact, no majority set (stuck voteproofs are always this)
//	split            : each voter signs a different fact (also an empty-proposal / empty-operations one), no majority
//	X,dissent@p      : like X, but the sign fact listed at position p is for another fact (the order of sign facts matters to the decoder's majority lookup)
func vfxShapeVoteproof(stage base.Stage, variant, result string, nvoters, nexp int, finished bool) base.Voteproof {
	point := base.RawPoint(33, 1)
	expels := vfxExpels(nexp, 33)
	efs := vfxExpelFactHashes(expels)

	mk := func(i int) base.BallotFact {
		l := fmt.Sprintf("-%d", i)

		switch {
		case stage == base.StageINIT && i == 2:
			return isaac.NewEmptyProposalINITBallotFact(point, vfxH("block-32"), vfxH("proposal"+l))
		case stage == base.StageINIT:
			return isaac.NewINITBallotFact(point, vfxH("block-32"), vfxH("proposal"+l), efs)
		case i == 2:
			return isaac.NewEmptyOperationsACCEPTBallotFact(point, vfxH("proposal"+l))
		default:
			return isaac.NewACCEPTBallotFact(point, vfxH("proposal"), vfxH("block"+l), efs)
		}
	}

	var fact base.BallotFact

	switch {
	case result == "majority-special" && stage == base.StageINIT:
		e := efs
		if len(e) < 1 {
			e = vfxHs("expelfact", 1)
		}

		fact = isaac.NewSuffrageConfirmBallotFact(point, vfxH("block-32"), vfxH("proposal"), e)
	case result == "majority-special":
		fact = isaac.NewNotProcessedACCEPTBallotFact(point, vfxH("proposal"))
	default:
		fact = mk(0)
	}

	// "<result>,dissent@p": the voter listed at position p voted for another fact
	dissent := -1
	if i := strings.Index(result, ",dissent@"); i >= 0 {
		dissent = int(result[i+len(",dissent@")] - '0')
		result = result[:i]
	}

	sfs := make([]base.BallotSignFact, nvoters)
	for i := range sfs {
		f := fact
		if result == "split" {
			f = mk(i)
		}

		if i == dissent {
			f = mk(1)
		}

		sfs[i] = vfxSignFact(f, vfxN(i), true)
	}

	var majority base.BallotFact
	if strings.HasPrefix(result, "majority") {
		majority = fact
	}

	return vfxVoteproof(vfxVP{
		stage: stage, variant: variant, point: point, majority: majority, sfs: sfs, expels: expels, nofinish: !finished,
	})
}


func vfxShort(b []byte) string {
	if len(b) > 700 {
		return string(b[:700]) + "...(" + fmt.Sprint(len(b)) + " bytes)"
	}

	return string(b)
}
