//go:build verif

package launch

// C27, third dimension orthogonal to the shape grammar: VERSION SKEW between the
// hint written into the document and the hint the reader registered the decoder
// under.
//
// hint.CompatibleSet finds a decoder by type + MAJOR version, so a document of
// x-v0.0.1 is decoded by the decoder registered as x-v0.0.2 (older data, upgraded
// reader) and by the one registered as x-v0.0.0 (newer data, reader not yet
// upgraded). The decoded object must be the object that was encoded: it keeps
// the hint OF THE DATA, so hash, IsValid verdict and re-encoded bytes are those
// of the original.
//
// Every case of the corpus is built and encoded as always (the constructors
// write the hints of this tree) and decoded by an encoder in which EVERY decoder
// of launch.Hinters + SupportedProposalOperationFactHinters is registered under
// a compatible but different version, so the top-level document and every nested
// hinted document are decoded under skew in one decode. The oracle is c27Check
// unchanged (type, hint, hash, IsValid verdict, re-encoded bytes).
//
// Hint types that travel as type-suffixed strings (keys, addresses) carry no
// version in the data; they are decoded by type with the registered head hint
// (DecodeWithHintType). There is no "hint of the data" for them: they keep their
// own version in the skewed encoders and their string cases are not repeated.

import (
	"encoding/json"
	"fmt"
	"sort"
	"testing"

	"github.com/spikeekips/mitum/util"
	jsonenc "github.com/spikeekips/mitum/util/encoder/json"
	"github.com/spikeekips/mitum/util/hint"
	"github.com/spikeekips/mitum/zzverif/vlib"
)

type c27Skew struct {
	name string
	// registered: the versions the decoder of a type is registered under, in
	// registration order, given the version the tree (= the data) uses
	registered func(util.Version) []util.Version
}

func c27Ver(major, minor, patch uint64, pre string) util.Version {
	s := fmt.Sprintf("v%d.%d.%d", major, minor, patch)
	if pre != "" {
		s += "-" + pre
	}

	return util.MustNewVersion(s)
}

func c27VerPatchUp(v util.Version, n uint64) util.Version {
	return c27Ver(v.Major(), v.Minor(), v.Patch()+n, "")
}

func c27VerMinorUp(v util.Version) util.Version { return c27Ver(v.Major(), v.Minor()+1, 0, "") }

// c27VerBelow: the nearest lower version of the same major.
func c27VerBelow(v util.Version) util.Version {
	switch {
	case v.Patch() > 0:
		return c27Ver(v.Major(), v.Minor(), v.Patch()-1, "")
	case v.Minor() > 0:
		return c27Ver(v.Major(), v.Minor()-1, 0, "")
	default:
		return c27Ver(v.Major(), 0, 0, "0") // pre-release of x.0.0
	}
}

func c27Skews(thorough bool) []c27Skew {
	sk := []c27Skew{
		{"registered-patch+1", func(v util.Version) []util.Version { return []util.Version{c27VerPatchUp(v, 1)} }},
		{"registered-minor+1", func(v util.Version) []util.Version { return []util.Version{c27VerMinorUp(v)} }},
		{"registered-below-data", func(v util.Version) []util.Version { return []util.Version{c27VerBelow(v)} }},
	}

	if thorough {
		// two releases of the decoder registered (the set keeps the higher one), either order
		sk = append(sk,
			c27Skew{"registered-below-then-patch+2", func(v util.Version) []util.Version {
				return []util.Version{c27VerBelow(v), c27VerPatchUp(v, 2)}
			}},
			c27Skew{"registered-minor+1-then-below", func(v util.Version) []util.Version {
				return []util.Version{c27VerMinorUp(v), c27VerBelow(v)}
			}},
		)
	}

	return sk
}

type c27SkewEnc struct {
	c27Skew
	enc         *jsonenc.Encoder
	registered  map[hint.Type][]hint.Hint
	unversioned map[hint.Type]bool
}

// fresh: a new encoder with the same registrations; every variant is decoded by
// its own encoder, so that the observation of a case does not depend on what the
// cases before it left in the encoder (hint.CompatibleSet keeps a cache of its
// last answer) and a replayed case sees what the full run saw.
func (se c27SkewEnc) fresh() *jsonenc.Encoder {
	enc := jsonenc.NewEncoder()

	for _, d := range vfxAllDetails() {
		ty := d.Hint.Type()

		if se.unversioned[ty] {
			vfxMust(enc.Add(d))

			continue
		}

		for _, ht := range se.registered[ty] {
			x := d
			x.Hint = ht

			vfxMust(enc.Add(x))
		}
	}

	return enc
}

// c27SkewEncoders: one encoder per skew; unversioned = hint types of the corpus
// that are decoded from type-suffixed strings.
func c27SkewEncoders(thorough bool, unversioned map[hint.Type]bool) []c27SkewEnc {
	sks := c27Skews(thorough)
	out := make([]c27SkewEnc, len(sks))

	for i := range sks {
		se := c27SkewEnc{c27Skew: sks[i], enc: jsonenc.NewEncoder(), registered: map[hint.Type][]hint.Hint{}, unversioned: unversioned}

		for _, d := range vfxAllDetails() {
			ty := d.Hint.Type()

			if unversioned[ty] {
				vfxMust(se.enc.Add(d))

				continue
			}

			for _, v := range se.c27Skew.registered(d.Hint.Version()) {
				x := d
				x.Hint = hint.NewHint(ty, v)

				switch {
				case x.Hint.Equal(d.Hint):
					panic("c27: skewed hint equals the hint of the tree: " + x.Hint.String())
				case !x.Hint.IsCompatible(d.Hint):
					panic("c27: skewed hint is not compatible: " + x.Hint.String())
				}

				vfxMust(se.enc.Add(x))

				se.registered[ty] = append(se.registered[ty], x.Hint)
			}
		}

		out[i] = se
	}

	return out
}

// c27FullHints: every "_hint" value of a document.
func c27FullHints(b []byte, f func(hint.Hint)) {
	var x any
	if json.Unmarshal(b, &x) != nil {
		return
	}

	var walk func(any)
	walk = func(v any) {
		switch t := v.(type) {
		case map[string]any:
			keys := make([]string, 0, len(t))
			for k := range t {
				keys = append(keys, k)
			}

			sort.Strings(keys)

			for _, k := range keys {
				if s, ok := t[k].(string); ok && k == "_hint" {
					if ht, err := hint.ParseHint(s); err == nil {
						f(ht)
					}

					continue
				}

				walk(t[k])
			}
		case []any:
			for i := range t {
				walk(t[i])
			}
		}
	}

	walk(x)
}

func c27UnversionedTypes(cases []c27Case) map[hint.Type]bool {
	m := map[hint.Type]bool{}

	for i := range cases {
		switch cases[i].mode {
		case c27PrivStr, c27PubStr, c27AddrStr:
			m[cases[i].ht.Type()] = true
		}
	}

	return m
}

func c27SkewVariants(t *testing.T, r *vlib.Run, skews []c27SkewEnc, c c27Case) {
	switch c.mode {
	case c27Doc, c27WithHint:
	default:
		r.Add("skew_cases_skipped.type-suffixed-string", 1)

		return
	}

	for i := range skews {
		sk := skews[i]

		id := c.id + "@skew=" + sk.name
		if !r.Want(id) {
			continue
		}

		c27FreshCache()

		// guard of the dimension itself: no hint of the document (top level or nested)
		// is registered under the version the document carries
		if b, err := sk.enc.Marshal(c.build()); err == nil {
			n := 0

			c27FullHints(b, func(ht hint.Hint) {
				for _, reg := range sk.registered[ht.Type()] {
					if reg.Equal(ht) {
						t.Fatalf("%s: %s is registered under the version of the document", id, ht)
					}
				}

				if len(sk.registered[ht.Type()]) < 1 {
					t.Fatalf("%s: %s of the document is not skewed", id, ht)
				}

				n++
			})

			r.Add("skew_hints_decoded_under_skew", int64(n))

			if c.mode == c27WithHint {
				r.Add("skew_hints_decoded_under_skew", 1)
			}

			if n > 1 {
				r.Add("skew_documents_with_nested_hints", 1)
			}
		}

		c27Check(t, r, sk.fresh(), c, c27Variant{
			id:     id,
			prefix: "skew:",
			sig:    map[string]any{"skew": sk.name},
		})

		r.Add("skew_variants."+sk.name, 1)
	}

	c27FreshCache()
}
