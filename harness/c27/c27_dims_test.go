//go:build verif

package launch

// C27, two dimensions that are orthogonal to the shape grammar of c27_test.go:
//
//  1. TIME VALUES. Every case is built again by the same real constructors at
//     fixed instants of a virtual clock (util/localtime/time_sync.go is compiled
//     with time.Now -> the virtual clock of vsched; the build runs inside
//     vsched.Run): a whole second, whole millisecond, whole microsecond, full
//     nanoseconds (thorough: also a tenth of a second and the last nanosecond of
//     a second). So every time-valued field that the constructors fill from
//     localtime.Now() (signed-at of every sign, proposed-at of proposal facts,
//     finished-at of voteproofs, started-at / created-at of node infos, joined-at
//     of members, tokens derived from the time) and the proposed-at handed to
//     NewManifest take these values; no wall clock.
//     Then, generically by reflection over the built object graph (every
//     time.Time reachable from the object, whatever the type): all time fields
//     moved to a non-UTC location (same instant), and the k-th time field set to
//     the zero time. Whether the type "allows" the zero time is decided by the
//     object's own IsValid: an object that IsValid rejects only has to stay
//     rejected (same rule as for the shapes).
//
//  2. DECODE HISTORY. The same document is decoded by the same encoder after an
//     empty decoder cache and after the cache saw the strings of the document in
//     the other role: every string of the document is first decoded as an
//     address, or as a public key, or both in either order, through ordinary node
//     documents ({"address": s, "publickey": ...}). The result must not depend on
//     that history.
//
// The oracle is the one of c27Check (type, hint, hash, IsValid verdict,
// re-encoded bytes), nothing more.

import (
	"bytes"
	"encoding/json"
	"fmt"
	"reflect"
	"sort"
	"strings"
	"testing"
	"time"
	"unsafe"

	"github.com/spikeekips/mitum/base"
	"github.com/spikeekips/mitum/isaac"
	"github.com/spikeekips/mitum/util"
	jsonenc "github.com/spikeekips/mitum/util/encoder/json"
	"github.com/spikeekips/mitum/util/localtime"
	"github.com/spikeekips/mitum/zzverif/vlib"
	"github.com/spikeekips/mitum/zzverif/vsched"
)

func c27FreshCache() {
	base.SetObjCache(util.NewLRUGCache[string, any](1 << 10))
}

// ---------------------------------------------------------------- time values

type c27TimeVar struct {
	name  string
	class string // signature class
	off   time.Duration
	loc   *time.Location // != nil: move every (non-zero) time field to this location
	zero  int            // >= 0: set the zero-th.. time field to the zero time; -2: all of them; -1: none
}

var (
	c27LocEast = time.FixedZone("", 9*3600)
	c27LocWest = time.FixedZone("", -(3*3600 + 30*60))
)

const (
	c27OffSecond = time.Duration(0)
	c27OffMilli  = 123 * time.Millisecond
	c27OffMicro  = 123*time.Millisecond + 456*time.Microsecond
	c27OffNano   = 123*time.Millisecond + 456*time.Microsecond + 789*time.Nanosecond
)

// c27ClockVars: instants produced by the constructors themselves.
func c27ClockVars(thorough bool) []c27TimeVar {
	vs := []c27TimeVar{
		{name: "whole-second", class: "clock", off: c27OffSecond, zero: -1},
		{name: "nanoseconds", class: "clock", off: c27OffNano, zero: -1},
		{name: "whole-millisecond", class: "clock", off: c27OffMilli, zero: -1},
		{name: "whole-microsecond", class: "clock", off: c27OffMicro, zero: -1},
	}

	if thorough {
		vs = append(vs,
			c27TimeVar{name: "tenth-of-second", class: "clock", off: 100 * time.Millisecond, zero: -1},
			c27TimeVar{name: "last-nanosecond-of-second", class: "clock", off: time.Second - 1, zero: -1},
			c27TimeVar{name: "last-second-of-day", class: "clock", off: 24*time.Hour - time.Second, zero: -1},
		)
	}

	return vs
}

// c27FieldVars: values set through the object's time fields (n = number of time fields of the object).
func c27FieldVars(thorough bool, n int) []c27TimeVar {
	vs := []c27TimeVar{
		{name: "whole-second,location+09:00", class: "location", off: c27OffSecond, loc: c27LocEast, zero: -1},
		{name: "nanoseconds,location+09:00", class: "location", off: c27OffNano, loc: c27LocEast, zero: -1},
	}

	if thorough {
		vs = append(vs,
			c27TimeVar{name: "whole-millisecond,location-03:30", class: "location", off: c27OffMilli, loc: c27LocWest, zero: -1},
			c27TimeVar{name: "last-second-of-day,location+09:00", class: "location", off: 24*time.Hour - time.Second, loc: c27LocEast, zero: -1},
		)
	}

	maxk := 3
	if thorough {
		maxk = 16
	}

	for k := 0; k < n && k < maxk; k++ {
		vs = append(vs, c27TimeVar{name: fmt.Sprintf("whole-millisecond,zero-time@%d", k), class: "zero", off: c27OffMilli, zero: k})
	}

	if n > 1 {
		vs = append(vs, c27TimeVar{name: "whole-millisecond,zero-time@all", class: "zero", off: c27OffMilli, zero: -2})
	}

	return vs
}

// c27BuildAt builds the case with the real constructors while the virtual clock
// (localtime.Now) stands at base + off.
func c27BuildAt(c c27Case, off time.Duration) (x any, now time.Time) {
	saved := vfxTime

	ex := vsched.Run(vsched.Options{}, func() {
		vsched.Advance(off)

		now = localtime.Now().UTC()
		vfxTime = now // the proposed-at handed to NewManifest (in the node: ProposalFact.ProposedAt())

		x = c.build()
	})

	vfxTime = saved

	switch {
	case ex.Diverged != "":
		panic("c27: engine error while building " + c.id + ": " + ex.Diverged)
	case ex.Panic != nil:
		panic(fmt.Sprintf("c27: constructor panic while building %s: %v\n%s", c.id, ex.Panic, ex.PanicStack))
	case ex.Deadlock:
		panic("c27: build blocked: " + c.id)
	}

	return x, now
}

var c27TimeType = reflect.TypeOf(time.Time{})

type c27Walker struct {
	f    func(k int, path string, t time.Time) time.Time
	seen map[uintptr]bool
	n    int
}

// c27Times visits every time.Time reachable from *px (through interfaces,
// pointers, slices, arrays, maps and the exported and unexported fields of mitum
// structs) in a fixed order and replaces it by f's answer. Returns their number.
func c27Times(px *any, f func(k int, path string, t time.Time) time.Time) int {
	w := &c27Walker{f: f, seen: map[uintptr]bool{}}
	w.walk(reflect.ValueOf(px).Elem(), "", 0)

	return w.n
}

func (w *c27Walker) walk(v reflect.Value, path string, depth int) bool {
	if depth > 40 {
		panic("c27: time walker too deep at " + path)
	}

	switch v.Kind() {
	case reflect.Interface:
		if v.IsNil() {
			return false
		}

		e := v.Elem()
		cp := reflect.New(e.Type()).Elem()
		cp.Set(e)

		if w.walk(cp, path, depth+1) {
			v.Set(cp)

			return true
		}

		return false
	case reflect.Ptr:
		if v.IsNil() {
			return false
		}

		if p := v.Pointer(); w.seen[p] {
			return false
		} else { //nolint:revive //...
			w.seen[p] = true
		}

		return w.walk(v.Elem(), path, depth+1)
	case reflect.Struct:
		if v.Type() == c27TimeType {
			t := v.Interface().(time.Time) //nolint:forcetypeassert //...
			nt := w.f(w.n, path, t)
			w.n++

			if nt != t {
				v.Set(reflect.ValueOf(nt))

				return true
			}

			return false
		}

		if pkg := v.Type().PkgPath(); pkg != "" && !strings.HasPrefix(pkg, "github.com/spikeekips/mitum") {
			return false // url.URL, net.UDPAddr, zerolog, ...: no protocol time inside
		}

		changed := false
		tn := v.Type().String()

		for i := 0; i < v.NumField(); i++ {
			f := v.Field(i)
			if !f.CanSet() {
				f = reflect.NewAt(f.Type(), unsafe.Pointer(f.UnsafeAddr())).Elem()
			}

			p := path
			if f.Type() == c27TimeType {
				p = tn + "." + v.Type().Field(i).Name
			}

			if w.walk(f, p, depth+1) {
				changed = true
			}
		}

		return changed
	case reflect.Slice, reflect.Array:
		if v.Kind() == reflect.Slice && v.IsNil() {
			return false
		}

		switch v.Type().Elem().Kind() {
		case reflect.Interface, reflect.Ptr, reflect.Struct, reflect.Slice, reflect.Array, reflect.Map:
		default:
			return false
		}

		changed := false

		for i := 0; i < v.Len(); i++ {
			if w.walk(v.Index(i), path, depth+1) {
				changed = true
			}
		}

		return changed
	case reflect.Map:
		if v.IsNil() {
			return false
		}

		keys := v.MapKeys()
		sort.Slice(keys, func(i, j int) bool { return fmt.Sprint(keys[i].Interface()) < fmt.Sprint(keys[j].Interface()) })

		changed := false

		for _, k := range keys {
			cp := reflect.New(v.Type().Elem()).Elem()
			cp.Set(v.MapIndex(k))

			if w.walk(cp, path, depth+1) {
				v.SetMapIndex(k, cp)

				changed = true
			}
		}

		return changed
	default:
		return false
	}
}

func c27TimeVariants(t *testing.T, r *vlib.Run, enc *jsonenc.Encoder, c c27Case) {
	thorough := r.Thorough()

	ntimes := -1

	run := func(tv c27TimeVar) {
		id := c.id + "@time=" + tv.name
		if !r.Want(id) {
			return
		}

		c27FreshCache()

		c27Check(t, r, enc, c, c27Variant{
			id:     id,
			prefix: "time:",
			sig:    map[string]any{"time": tv.class + ":" + tv.name},
			build: func() any {
				x, now := c27BuildAt(c, tv.off)

				if want := c27ClockBase.Add(tv.off); !now.Equal(want) {
					t.Fatalf("%s: the virtual clock reads %s, expected %s", id, now, want)
				}

				n := c27Times(&x, func(k int, path string, tm time.Time) time.Time {
					if tv.class == "clock" && tv.off == c27OffNano {
						r.Add("time_field."+path, 1)

						if !tm.IsZero() && !tm.Equal(now) && !tm.Equal(vfxTimeFixedSubMilli(now)) {
							// a time value that does not come from the injected instant: say so in the evidence
							r.Add("time_field_not_from_clock."+path, 1)
						}
					}

					switch {
					case tv.loc != nil && !tm.IsZero():
						return tm.In(tv.loc)
					case tv.zero == -2, tv.zero == k:
						return time.Time{}
					default:
						return tm
					}
				})

				ntimes = n

				// the injected values must be visible in the document (guards the injection itself)
				if b, err := enc.Marshal(x); err == nil && n > 0 {
					switch {
					case tv.loc == c27LocEast && bytes.Contains(b, []byte(`+09:00"`)),
						tv.loc == c27LocWest && bytes.Contains(b, []byte(`-03:30"`)),
						tv.zero != -1 && bytes.Contains(b, []byte(`"0001-01-01T00:00:00Z"`)),
						tv.class == "clock" && bytes.Contains(b, []byte(`"`+now.Format(time.RFC3339Nano)+`"`)):
						r.Add("time_value_visible_in_document."+tv.class, 1)
					default:
						r.Add("time_value_not_in_document."+tv.class+"."+c.ht.Type().String(), 1)
					}
				}

				return x
			},
		})

		r.Add("time_variants."+tv.class, 1)
	}

	for _, tv := range c27ClockVars(thorough) {
		run(tv)

		// an object without any time-valued field is the same object at every
		// instant: the first two instants (whole second, nanoseconds) are enough
		if ntimes == 0 && tv.off == c27OffNano {
			r.Add("time_cases_without_time_field", 1)

			return
		}
	}

	if ntimes < 0 { // replay of another case
		x, _ := c27BuildAt(c, c27OffMilli)
		ntimes = c27Times(&x, func(_ int, _ string, tm time.Time) time.Time { return tm })
	}

	if ntimes == 0 {
		return
	}

	r.Add("time_cases_with_time_field", 1)
	r.Max("time_fields_in_one_object_max", int64(ntimes))

	for _, tv := range c27FieldVars(thorough, ntimes) {
		run(tv)
	}
}

// the "submillisecond-time" manifest case adds 123456ns to vfxTime
func vfxTimeFixedSubMilli(now time.Time) time.Time { return now.Add(123456) }

// c27ClockBase is the instant at which the virtual clock of vsched starts.
var c27ClockBase = func() time.Time {
	var now time.Time

	vsched.Run(vsched.Options{}, func() { now = localtime.Now().UTC() })

	if now.Nanosecond() != 0 || now.Year() > 2025 {
		panic(fmt.Sprintf("c27: localtime.Now() is not on the virtual clock (reads %s): util/localtime/time_sync.go must be instrumented with -time", now))
	}

	return now
}()

// ---------------------------------------------------------------- decode history

// c27Strings: every distinct string value of the document (not member names), sorted.
func c27Strings(b []byte) []string {
	var x any
	if json.Unmarshal(b, &x) != nil {
		return nil
	}

	set := map[string]bool{}

	var walk func(any)
	walk = func(v any) {
		switch t := v.(type) {
		case string:
			if len(t) > 0 && len(t) < 256 {
				set[t] = true
			}
		case map[string]any:
			for _, w := range t {
				walk(w)
			}
		case []any:
			for i := range t {
				walk(t[i])
			}
		}
	}

	walk(x)

	ss := make([]string, 0, len(set))
	for s := range set {
		ss = append(ss, s)
	}

	sort.Strings(ss)

	return ss
}

type c27Decoded struct {
	outcome  string // "ok" | "error" | "nil" | "panic"
	detail   string
	typ      string
	hash     string
	validity string
	bytes    []byte
}

func c27DecodeSummary(enc *jsonenc.Encoder, c c27Case, b []byte) (d c27Decoded) {
	var y any
	var err error

	panicked, pmsg := vfxCatch(func() { y, err = c27Decode(enc, c, b) })

	switch {
	case panicked:
		return c27Decoded{outcome: "panic", detail: pmsg}
	case err != nil:
		return c27Decoded{outcome: "error", detail: err.Error()}
	case y == nil:
		return c27Decoded{outcome: "nil"}
	}

	d.outcome = "ok"
	d.typ = reflect.TypeOf(y).String()
	d.hash, _ = c27Hash(y)
	d.validity, _ = vfxValidity(y, vfxNID)

	if b2, err := enc.Marshal(y); err == nil {
		d.bytes = b2
	}

	return d
}

var c27Histories = []struct {
	name  string
	roles string // a = as address, p = as public key; in this order, for every string of the document
}{
	{"strings-seen-as-address", "a"},
	{"strings-seen-as-publickey", "p"},
	{"strings-seen-as-address-then-publickey", "ap"},
	{"strings-seen-as-publickey-then-address", "pa"},
}

func c27CacheVariants(_ *testing.T, r *vlib.Run, enc *jsonenc.Encoder, c c27Case) {
	var want bool

	for i := range c27Histories {
		if r.Want(c.id + "@history=" + c27Histories[i].name) {
			want = true
		}
	}

	if !want {
		return
	}

	x := c.build()

	b, err := enc.Marshal(x)
	if err != nil {
		return
	}

	ty := c.ht.Type().String()
	strs := c27Strings(b)

	c27FreshCache()

	fresh := c27DecodeSummary(enc, c, b)

	// earlier documents: ordinary node documents holding s in the address / public key position
	node0 := vfxN(30)

	earlier := func(role byte, s string) {
		m := map[string]any{"_hint": isaac.NodeHint.String()}

		switch role {
		case 'a':
			m["address"], m["publickey"] = s, node0.pub.String()
		default:
			m["address"], m["publickey"] = node0.addr.String(), s
		}

		doc, err := util.MarshalJSON(m)
		vfxMust(err)

		var derr error

		panicked, _ := vfxCatch(func() { _, derr = enc.Decode(doc) })

		switch {
		case panicked:
			// not an encoding of an object: recorded, not judged by this property
			r.Add("history.earlier_document_decode_panics", 1)
		case derr != nil:
			r.Add("history.earlier_documents_rejected", 1)
		default:
			r.Add("history.earlier_documents_accepted", 1)
		}
	}

	for i := range c27Histories {
		h := c27Histories[i]

		id := c.id + "@history=" + h.name
		if !r.Want(id) {
			continue
		}

		c27FreshCache()

		for _, s := range strs {
			for j := 0; j < len(h.roles); j++ {
				earlier(h.roles[j], s)
			}
		}

		got := c27DecodeSummary(enc, c, b)

		r.Eval()
		r.Trace()
		r.Transition()
		r.State(id)
		r.Add("history_variants", 1)

		var effect, detail string

		switch {
		case got.outcome != fresh.outcome:
			effect = fresh.outcome + "->" + got.outcome
			detail = fmt.Sprintf("decode outcome %s(%s) after an empty cache, %s(%s) after the history", fresh.outcome, vfxShort([]byte(fresh.detail)), got.outcome, vfxShort([]byte(got.detail)))
		case got.outcome != "ok":
		case got.typ != fresh.typ:
			effect, detail = "type-differs", fmt.Sprintf("decoded type %s after an empty cache, %s after the history", fresh.typ, got.typ)
		case got.hash != fresh.hash:
			effect, detail = "hash-differs", fmt.Sprintf("hash %s after an empty cache, %s after the history", fresh.hash, got.hash)
		case got.validity != fresh.validity:
			effect, detail = "verdict-differs", fmt.Sprintf("IsValid %s after an empty cache, %s after the history", fresh.validity, got.validity)
		case !bytes.Equal(got.bytes, fresh.bytes):
			effect, detail = "reencode-differs", fmt.Sprintf("re-encoded bytes differ at %q", c27DiffPath(fresh.bytes, got.bytes))
		}

		if effect == "" {
			r.Outcome("history:" + fresh.outcome + ":same-result")

			continue
		}

		r.Outcome("history:violation:" + effect)
		r.Violation(id,
			map[string]any{"kind": "decode-depends-on-history", "history": h.name, "effect": effect, "hint": ty},
			fmt.Sprintf("%s: %s; encoded=%s", id, detail, vfxShort(b)),
			map[string]any{"case": id})
	}

	c27FreshCache()
}
