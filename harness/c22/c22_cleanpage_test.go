//go:build verif

package isaacdatabase

import (
	"bytes"
	"context"
	"fmt"
	"sort"
	"strings"
	"testing"

	"github.com/spikeekips/mitum/base"
	"github.com/spikeekips/mitum/isaac"
	leveldbstorage "github.com/spikeekips/mitum/storage/leveldb"
	"github.com/spikeekips/mitum/util"
	"github.com/spikeekips/mitum/util/valuehash"
	"github.com/spikeekips/mitum/zzverif/vlib"
	leveldbopt "github.com/syndtr/goleveldb/leveldb/opt"
	goleveldbstorage "github.com/syndtr/goleveldb/leveldb/storage"
)

// C22, unit "cleanpage": the cleaner on LARGE removed-operation populations
// inside a pool that also holds everything else a TempPool holds.
//
// The BFS of c22_clean_test.go drives the cleaner on pools with at most 4
// removed-operation records and looks only at the operation records. The
// cleaner works in pages (a delete batch is cut at 333 deletes = 167 records,
// then a further Iter pass follows) and it shares ONE leveldb key space with
// the proposals, suffrage expel operations, ballots and empty-height records of
// the pool. This unit enumerates the population SHAPES instead of histories:
//
//	old    number of removed-operation records old enough to be purged: around every page boundary
//	       (0, 1, 2, k*167-1, k*167, k*167+1 for k = 1..2 (quick) / 1..3 (thorough), 200, 400)
//	split  how the old records are spread over heights: one height / two heights half and half /
//	       all but one at the lower height (a page boundary inside a height and next to a height change)
//	young  removed-operation records NOT old enough: none at all / one at the newest height /
//	       a few at every kept height (newest-2, newest-1, newest) / more than a page of them (170) at newest-2
//	deep   configured depth of the cleaner (3 = the default; thorough also 2 and 4)
//
// Every population is built through the pool API in a loop (SetOperation of n
// operations, then OperationHashes(height, reject all) = n removed records of
// that height), next to 3 live operations (two of one fact), 6 ballots, 3
// proposals, 3 suffrage expel operations, 3 empty heights in the SAME TempPool
// and 2 foreign records outside the pool's label in the same leveldb.
//
// Oracle for one cleanRemovedNewOperations() call: the WHOLE underlying leveldb
// is dumped before and after (raw keys and values):
//
//	(1) the removed-operation records at least `deep` heights below the newest removed-operation record,
//	    and the bodies of exactly the operations they name (all filtered out: the purge the BFS unit allows),
//	    are gone;
//	(2) every other raw key is still there with the same value and no key appeared
//	    (ordered index, index records, bodies of live and of recently filtered-out operations, young
//	    removed-operation records, proposals, expel operations, ballots, empty heights, foreign records);
//	(3) afterwards the statement still holds for what remains: OperationHashes(limit 10, accept all) hands
//	    out exactly the newest live operation of each fact, stored, and nothing that was filtered out;
//	    SetOperation of a recently filtered-out operation (the pool still knows it) reports "not added".
//
// Identifiers of this file use the prefix c22p.

const (
	c22pTop      = base.Height(33) // newest removed-operation height of the populations with young records
	c22pMaxOld   = 502
	c22pMaxYoung = 175
	c22pPage     = 167 // records per delete batch of the cleaner (333 deletes, 2 per record)
)

type c22pGroup struct {
	h base.Height
	n int
}

type c22pCase struct {
	id     string
	deep   int
	old    int
	split  int
	young  int
	groups []c22pGroup
}

type c22pEnv struct {
	*c22Env
	bulk      []base.Operation // distinct facts
	bulkID    map[string]int
	ballots   []base.Ballot
	proposals []isaac.ProposalSignFact
	expels    []isaac.SuffrageExpelOperation
	empties   []base.Height
	foreign   [][2][]byte
}

func c22pNewEnv(t *testing.T) *c22pEnv {
	env := &c22pEnv{c22Env: c22NewEnv(t), bulkID: map[string]int{}}

	nid := base.NetworkID("c22-network")
	node := base.NewStringAddress("c22p-local")

	priv, err := base.NewMPrivatekeyFromSeed("c22p-fixed-seed-for-the-local-node-key-0123456789")
	if err != nil {
		t.Fatal(err)
	}

	fixed := func(s string) util.Hash { return valuehash.NewSHA256([]byte("c22p-" + s)) }

	for i := 0; i < c22pMaxOld+c22pMaxYoung; i++ {
		fact := isaac.NewDummyOperationFact([]byte(fmt.Sprintf("c22p-token-%d", i)), fixed(fmt.Sprintf("bulk-fact-%d", i)))

		op, err := isaac.NewDummyOperation(fact, priv, nid)
		if err != nil {
			t.Fatal(err)
		}

		// NOTE the operation hash is random data; control flow and case ids use the index
		env.bulk = append(env.bulk, op)
		env.bulkID[op.Hash().String()] = i
	}

	mkinit := func(point base.Point, confirm bool) base.Ballot {
		var fact base.INITBallotFact
		if confirm {
			fact = isaac.NewSuffrageConfirmBallotFact(point, fixed("prev"), fixed("proposal"), []util.Hash{fixed("expelfact")})
		} else {
			fact = isaac.NewINITBallotFact(point, fixed("prev"), fixed("proposal"), nil)
		}

		sf := isaac.NewINITBallotSignFact(fact)
		if err := sf.NodeSign(priv, nid, node); err != nil {
			t.Fatal(err)
		}

		return isaac.NewINITBallot(nil, sf, nil)
	}

	for _, h := range []int64{20, 30, 31, 33} {
		env.ballots = append(env.ballots, mkinit(base.RawPoint(h, 0), false))
	}

	env.ballots = append(env.ballots, mkinit(base.RawPoint(33, 0), true))

	{
		fact := isaac.NewACCEPTBallotFact(base.RawPoint(33, 0), fixed("proposal"), fixed("newblock"), nil)
		sf := isaac.NewACCEPTBallotSignFact(fact)

		if err := sf.NodeSign(priv, nid, node); err != nil {
			t.Fatal(err)
		}

		env.ballots = append(env.ballots, isaac.NewACCEPTBallot(nil, sf, nil))
	}

	for _, h := range []int64{20, 31, 33} {
		sf := isaac.NewProposalSignFact(isaac.NewProposalFact(base.RawPoint(h, 0), node, fixed("block"), [][2]util.Hash{{fixed("op"), fixed("opfact")}}))
		if err := sf.Sign(priv, nid); err != nil {
			t.Fatal(err)
		}

		env.proposals = append(env.proposals, sf)
	}

	for i, se := range [][2]base.Height{{20, 25}, {31, 33}, {33, 40}} {
		fact := isaac.NewSuffrageExpelFact(base.NewStringAddress(fmt.Sprintf("c22p-expelled-%d", i)), se[0], se[1], "c22p")
		op := isaac.NewSuffrageExpelOperation(fact)

		if err := op.NodeSign(priv, nid, node); err != nil {
			t.Fatal(err)
		}

		env.expels = append(env.expels, op)
	}

	env.empties = []base.Height{20, 32, 33}

	// the labels next to the pool's label in the same leveldb (a block writer's and the sync pool's records)
	env.foreign = [][2][]byte{
		{util.ConcatBytesSlice(leveldbLabelPermanent[:], leveldbKeyPrefixRemovedNewOperation[:], []byte("c22p-foreign-below")), []byte("below")},
		{util.ConcatBytesSlice(leveldbLabelSyncPool[:], leveldbKeyPrefixRemovedNewOperation[:], []byte("c22p-foreign-above")), []byte("above")},
	}

	return env
}

func c22pCases(thorough bool) []c22pCase {
	pages := 2
	if thorough {
		pages = 3
	}

	olds := []int{0, 1, 2, 200, 400}
	for k := 1; k <= pages; k++ {
		olds = append(olds, k*c22pPage-1, k*c22pPage, k*c22pPage+1)
	}

	sort.Ints(olds)

	deeps := []int{3}
	if thorough {
		deeps = []int{3, 2, 4}
	}

	var cases []c22pCase

	for _, deep := range deeps {
		// with young records the newest removed-operation height is c22pTop; a record is old iff its height <= top-deep
		oldest := c22pTop - base.Height(deep)

		for _, old := range olds {
			if deep != 3 && old != 0 && old != 1 && (old < c22pPage-1 || old > c22pPage+1) && old != 400 {
				continue // the other depths: page boundaries of the first page and one multi-page population
			}

			for split := 0; split < 3; split++ {
				if old < 2 && split > 0 {
					continue
				}

				var oldgroups []c22pGroup

				switch split {
				case 0:
					oldgroups = []c22pGroup{{oldest, old}}
				case 1:
					oldgroups = []c22pGroup{{oldest - 3, old / 2}, {oldest, old - old/2}}
				case 2:
					oldgroups = []c22pGroup{{oldest - 1, old - 1}, {oldest, 1}}
				}

				for young := 0; young < 4; young++ {
					var groups []c22pGroup

					for _, g := range oldgroups {
						if g.n > 0 {
							groups = append(groups, g)
						}
					}

					switch young {
					case 0: // no record above the "old" ones: the newest height is theirs, the cleaner has (almost) nothing to do
					case 1:
						groups = append(groups, c22pGroup{c22pTop, 1})
					case 2:
						groups = append(groups, c22pGroup{oldest + 1, 2}, c22pGroup{c22pTop - 1, 1}, c22pGroup{c22pTop, 3})
					case 3:
						groups = append(groups, c22pGroup{oldest + 1, 170}, c22pGroup{c22pTop, 1})
					}

					{
						// one group per height (with depth 2 the lowest kept height is newest-1)
						m := map[base.Height]int{}
						for _, g := range groups {
							m[g.h] += g.n
						}

						groups = nil
						for h, n := range m {
							if n > 0 {
								groups = append(groups, c22pGroup{h, n})
							}
						}
					}

					sort.Slice(groups, func(i, j int) bool { return groups[i].h < groups[j].h })

					cases = append(cases, c22pCase{
						id:   fmt.Sprintf("cleanpage/deep%d/old%d/split%d/young%d", deep, old, split, young),
						deep: deep, old: old, split: split, young: young, groups: groups,
					})
				}
			}
		}
	}

	return cases
}

// c22pNewPool: a fresh real TempPool with the operation cache. The write buffer holds the whole population
// (about 1 MiB for 670 operations): with the 64 KiB of the BFS units goleveldb flushes and compacts tables
// all the time, which was 60% of the run time of this unit.
func c22pNewPool(env *c22pEnv) (*TempPool, *leveldbstorage.Storage) {
	st, err := leveldbstorage.NewStorage(goleveldbstorage.NewMemStorage(), &leveldbopt.Options{
		WriteBuffer:        2 * leveldbopt.MiB,
		BlockCacheCapacity: 64 * leveldbopt.KiB,
	})
	if err != nil {
		panic(err)
	}

	db, err := newTempPool(st, env.encs, env.enc, 64)
	if err != nil {
		panic(err)
	}

	return db, st
}

func c22pDump(st *leveldbstorage.Storage) map[string]string {
	m := map[string]string{}

	if err := st.Iter(nil, func(k, v []byte) (bool, error) {
		m[string(k)] = string(v)

		return true, nil
	}, true); err != nil {
		panic(err)
	}

	return m
}

var c22pFamilies = map[leveldbstorage.KeyPrefix]string{
	leveldbKeyPrefixProposal:                "proposal",
	leveldbKeyPrefixProposalByPoint:         "proposal-by-point",
	leveldbKeyPrefixNewOperation:            "operation-body",
	leveldbKeyPrefixNewOperationOrdered:     "ordered-index",
	leveldbKeyPrefixNewOperationOrderedKeys: "index-record",
	leveldbKeyPrefixRemovedNewOperation:     "removed-record",
	leveldbKeySuffrageExpelOperation:        "suffrage-expel-operation",
	leveldbKeyPrefixBallot:                  "ballot",
	leveldbKeyPrefixEmptyHeight:             "empty-height",
}

// c22pExpect reads the removed-operation records of a dump: which are old for
// the configured depth, and which raw keys the cleaner may (and has to) delete.
type c22pExpect struct {
	top        base.Height
	perHeight  map[base.Height]int
	oldMarks   map[string]bool // raw keys
	oldBodies  map[string]bool // raw keys
	youngBody  map[string]bool // raw keys: bodies of operations with a young record
	youngFirst util.Hash       // some operation with a young record (lowest raw key)
}

func c22pRaw(k []byte) string { return string(util.ConcatBytesSlice(leveldbLabelPool[:], k)) }

func c22pExpectation(dump map[string]string, deep int) c22pExpect {
	e := c22pExpect{top: base.NilHeight, perHeight: map[base.Height]int{}, oldMarks: map[string]bool{}, oldBodies: map[string]bool{}, youngBody: map[string]bool{}}
	prefix := c22pRaw(leveldbKeyPrefixRemovedNewOperation[:])

	type mark struct {
		raw string
		h   base.Height
		op  util.Hash
	}

	var marks []mark

	for k, v := range dump {
		if !strings.HasPrefix(k, prefix) {
			continue
		}

		h, err := heightFromKey([]byte(k[len(leveldbLabelPool):]), leveldbKeyPrefixRemovedNewOperation)
		if err != nil {
			panic(fmt.Sprintf("harness assumption: removed-operation record without a height: %v", err))
		}

		marks = append(marks, mark{k, h, valuehash.NewBytes([]byte(v))})
		e.perHeight[h]++

		if h > e.top {
			e.top = h
		}
	}

	sort.Slice(marks, func(i, j int) bool { return marks[i].raw < marks[j].raw })

	for _, m := range marks {
		body := c22pRaw(leveldbNewOperationKey(m.op))

		if m.h <= e.top-base.Height(deep) {
			e.oldMarks[m.raw] = true
			e.oldBodies[body] = true

			continue
		}

		e.youngBody[body] = true

		if e.youngFirst == nil {
			e.youngFirst = m.op
		}
	}

	return e
}

func (e c22pExpect) family(raw string) string {
	switch {
	case e.oldMarks[raw]:
		return "removed-record-old"
	case e.oldBodies[raw]:
		return "operation-body-of-old-record"
	case e.youngBody[raw]:
		return "operation-body-of-young-record"
	case !strings.HasPrefix(raw, string(leveldbLabelPool[:])):
		return "outside-the-pool-label"
	case len(raw) < len(leveldbLabelPool)+2:
		return "unknown"
	}

	var p leveldbstorage.KeyPrefix
	copy(p[:], raw[len(leveldbLabelPool):])

	switch name, ok := c22pFamilies[p]; {
	case !ok:
		return "unknown"
	case p == leveldbKeyPrefixRemovedNewOperation:
		return "removed-record-young"
	case p == leveldbKeyPrefixNewOperation:
		return "operation-body-live"
	default:
		return name
	}
}

// c22pRun builds the population of one case on a fresh real TempPool, runs the cleaner once and judges it.
func c22pRun(env *c22pEnv, c c22pCase) (vios []c22Vio, obs string) {
	ctx := context.Background()

	vio := func(sig map[string]any, format string, args ...any) {
		sig["unit"] = "cleanpage"
		vios = append(vios, c22Vio{sig: sig, detail: fmt.Sprintf("population %s %v deep=%d: ", c.id, c.groups, c.deep) + fmt.Sprintf(format, args...)})
	}

	db, st := c22pNewPool(env)
	defer func() {
		if err := db.DeepClose(); err != nil {
			panic(err)
		}
	}()

	db.cleanRemovedNewOperationsDeep = c.deep

	// ---- the rest of the pool
	for _, bl := range env.ballots {
		if added, err := db.SetBallot(bl); err != nil || !added {
			panic(fmt.Sprintf("harness: SetBallot added=%v err=%v", added, err))
		}
	}

	for _, pr := range env.proposals {
		if added, err := db.SetProposal(pr); err != nil || !added {
			panic(fmt.Sprintf("harness: SetProposal added=%v err=%v", added, err))
		}
	}

	for _, op := range env.expels {
		if err := db.SetSuffrageExpelOperation(op); err != nil {
			panic(err)
		}
	}

	for _, h := range env.empties {
		if added, err := db.AddEmptyHeight(h); err != nil || !added {
			panic(fmt.Sprintf("harness: AddEmptyHeight added=%v err=%v", added, err))
		}
	}

	for _, kv := range env.foreign {
		if err := st.Put(kv[0], kv[1], nil); err != nil {
			panic(err)
		}
	}

	// ---- removed-operation records: n operations added, then all of them filtered out at the height of the group
	next := 0
	rejectAll := func(isaac.PoolOperationRecordMeta) (bool, error) { return false, nil }

	for _, g := range c.groups {
		for i := 0; i < g.n; i++ {
			if added, err := db.SetOperation(ctx, env.bulk[next]); err != nil || !added {
				vio(map[string]any{"kind": "set-wrong-result", "what": "new-operation-refused"},
					"SetOperation(bulk operation %d) added=%v err=%v", next, added, err)

				return vios, "build-failed"
			}

			next++
		}

		switch res, err := db.OperationHashes(ctx, g.h, uint64(g.n)+10, rejectAll); {
		case err != nil:
			vio(map[string]any{"kind": "error", "call": "OperationHashes"}, "OperationHashes(height=%d, reject all) over %d operations: %v", g.h, g.n, err)

			return vios, "build-failed"
		case len(res) > 0:
			vio(map[string]any{"kind": "entry-fails-filter"}, "OperationHashes(height=%d, reject all) over %d operations returned %d entries", g.h, g.n, len(res))

			return vios, "build-failed"
		}
	}

	// ---- live operations: op0=(f1,a) op1=(f1,b) op2=(f2,a) of the first unit, never filtered out
	setter := &c22Runner{env: env.c22Env, db: db}

	for _, i := range []int{0, 1, 2} {
		if added, err := setter.setOperation(i); err != nil || !added {
			panic(fmt.Sprintf("harness: SetOperation(live op%d) added=%v err=%v", i, added, err))
		}
	}

	before := c22pDump(st)
	exp := c22pExpectation(before, c.deep)

	// the population is what the case id says (otherwise the enumeration does not cover what it claims)
	{
		want := map[base.Height]int{}
		for _, g := range c.groups {
			want[g.h] += g.n
		}

		if fmt.Sprint(want) != fmt.Sprint(exp.perHeight) {
			panic(fmt.Sprintf("harness assumption: removed-operation records per height %v, planned %v (%s)", exp.perHeight, want, c.id))
		}

		// planned: old = at least `deep` heights below the newest group
		top, wantold := base.NilHeight, 0
		for _, g := range c.groups {
			if g.h > top {
				top = g.h
			}
		}

		for _, g := range c.groups {
			if g.h <= top-base.Height(c.deep) {
				wantold += g.n
			}
		}

		if len(exp.oldMarks) != wantold || len(exp.oldBodies) != wantold {
			panic(fmt.Sprintf("harness assumption: %d old records (%d bodies), planned %d (%s)", len(exp.oldMarks), len(exp.oldBodies), wantold, c.id))
		}
	}

	// ---- the cleaner
	var n int
	var err error

	if panicked, msg := vlib.Catch(func() { n, err = db.cleanRemovedNewOperations() }); panicked {
		vio(map[string]any{"kind": "panic", "call": "cleanRemovedNewOperations"}, "cleanRemovedNewOperations panicked: %s", msg)

		return vios, "clean-panic"
	}

	if err != nil {
		vio(map[string]any{"kind": "error", "call": "cleanRemovedNewOperations"}, "cleanRemovedNewOperations: %v", err)
	}

	after := c22pDump(st)

	type class struct{ kind, family, change string }

	count := map[class]int{}
	example := map[class]string{}
	note := func(cl class, raw string) {
		count[cl]++

		if _, ok := example[cl]; !ok {
			example[cl] = fmt.Sprintf("%x", raw)
		}
	}

	var keys []string
	for k := range before {
		keys = append(keys, k)
	}

	for k := range after {
		if _, ok := before[k]; !ok {
			keys = append(keys, k)
		}
	}

	sort.Strings(keys)

	for _, k := range keys {
		bv, wasthere := before[k]
		av, isthere := after[k]

		switch {
		case exp.oldMarks[k] || exp.oldBodies[k]:
			if isthere {
				what := "mark"
				if exp.oldBodies[k] {
					what = "body"
				}

				note(class{"clean-left-old-record", what, ""}, k)
			}
		case !wasthere:
			note(class{"clean-changed-other-record", exp.family(k), "added"}, k)
		case !isthere:
			note(class{"clean-changed-other-record", exp.family(k), "deleted"}, k)
		case !bytes.Equal([]byte(bv), []byte(av)):
			note(class{"clean-changed-other-record", exp.family(k), "modified"}, k)
		}
	}

	var classes []class
	for cl := range count {
		classes = append(classes, cl)
	}

	sort.Slice(classes, func(i, j int) bool { return fmt.Sprint(classes[i]) < fmt.Sprint(classes[j]) })

	for _, cl := range classes {
		switch cl.kind {
		case "clean-left-old-record":
			vio(map[string]any{"kind": cl.kind, "what": cl.family},
				"cleanRemovedNewOperations (returned %d) left the %s of %d of the %d removed-operation records at least %d heights below the newest one (height %d), e.g. raw key %s",
				n, cl.family, count[cl], len(exp.oldMarks), c.deep, exp.top, example[cl])
		default:
			vio(map[string]any{"kind": cl.kind, "family": cl.family, "change": cl.change},
				"cleanRemovedNewOperations (returned %d; %d old removed-operation records, newest height %d) %s %d raw key(s) of family %s which it has to leave alone, e.g. %s",
				n, len(exp.oldMarks), exp.top, cl.change, count[cl], cl.family, example[cl])
		}
	}

	pages := (len(exp.oldMarks) + c22pPage - 1) / c22pPage
	if pages > 2 {
		pages = 3
	}

	obs = fmt.Sprintf("old-pages=%d/young=%v/returned-all=%v", pages, len(exp.youngBody) > 0, n == len(exp.oldMarks))

	// ---- (3) what remains still satisfies the statement
	if exp.youngFirst != nil {
		i, ok := env.bulkID[exp.youngFirst.String()]
		if !ok {
			panic("harness assumption: unknown operation in a removed-operation record")
		}

		switch added, err := db.SetOperation(ctx, env.bulk[i]); {
		case err != nil:
			vio(map[string]any{"kind": "error", "call": "SetOperation"}, "SetOperation(bulk operation %d) after the cleaner: %v", i, err)
		case added:
			vio(map[string]any{"kind": "set-not-idempotent", "what": "reported-added-again"},
				"after the cleaner SetOperation of bulk operation %d, filtered out at a height the cleaner keeps (newest height %d, deep %d), returned true", i, exp.top, c.deep)
		}
	}

	var res [][2]util.Hash

	if panicked, msg := vlib.Catch(func() { res, err = db.OperationHashes(ctx, c22pTop, 10, nil) }); panicked || err != nil {
		vio(map[string]any{"kind": "error", "call": "OperationHashes"}, "OperationHashes(limit 10, accept all) after the cleaner: panic=%q err=%v", msg, err)

		return vios, obs
	}

	var got []string

	for _, r := range res {
		name := "unknown"

		if i, ok := env.id[r[0].String()]; ok {
			name = fmt.Sprintf("op%d", i)
		} else if i, ok := env.bulkID[r[0].String()]; ok {
			name = fmt.Sprintf("bulk%d", i)
		}

		got = append(got, name)

		switch _, _, body, found, err := db.OperationBytes(ctx, r[0]); {
		case err != nil, !found, len(body) < 1:
			vio(map[string]any{"kind": "entry-not-stored", "what": "no-body-in-leveldb"}, "after the cleaner OperationHashes handed out %s: body found=%v err=%v", name, found, err)
		}

		if strings.HasPrefix(name, "bulk") {
			vio(map[string]any{"kind": "rejected-returned-again"}, "after the cleaner OperationHashes handed out %s which was filtered out before", name)
		}
	}

	if fmt.Sprint(got) != "[op1 op2]" {
		vio(map[string]any{"kind": "wrong-answer-after-clean"},
			"after the cleaner OperationHashes(limit 10, accept all) returned %v; the live operations are op0=(f1,a) op1=(f1,b) op2=(f2,a), added in this order", got)
	}

	return vios, obs
}

func TestVerifC22CleanPage(t *testing.T) {
	r := vlib.Start("C22")
	defer r.Finish()

	cases := c22pCases(r.Thorough())
	if _, replaying := r.Replaying(); replaying {
		cases = c22pCases(true) // the recorded case may come from the thorough tier (quick cases are a subset)
	}

	r.Set("cleanpage_cases", len(cases))
	r.Rule("unit cleanpage: every population shape (old removed-operation records: 0, 1, 2, 200, 400 and k*167-1, k*167, k*167+1 around each page boundary of the cleaner; " +
		"spread over one height / two heights half and half / all but one at the lower height; younger records: none / one at the newest height / a few at each kept height / 170 at the lowest kept height; " +
		"cleaner depth 3, thorough also 2 and 4) is built through SetOperation + OperationHashes(reject all) on a fresh real TempPool that also holds 3 live operations, 6 ballots, 3 proposals, " +
		"3 suffrage expel operations, 3 empty heights and 2 foreign records under the neighbouring labels; one cleanRemovedNewOperations call; the whole leveldb is compared before / after; " +
		"non-trivial = the cleaner has more than one page (167 records) of old records to delete")

	env := c22pNewEnv(t)

	for i, c := range cases {
		if !r.Mine(i) || !r.Want(c.id) {
			continue
		}

		if r.Expired() {
			r.Cap(fmt.Sprintf("cleanpage: deadline at case %d/%d", i, len(cases)))

			break
		}

		vios, obs := c22pRun(env, c)

		r.Eval()
		r.Trace()
		r.Transition()
		r.State("cleanpage:" + c.id)
		r.Outcome("cleanpage:" + obs)
		r.Max("cleanpage_max_old_records", int64(c.old))

		if c.old > c22pPage && c.young > 0 {
			r.Nontrivial(c.id)
		}

		if c.old == c22pPage+1 && c.split == 0 && c.deep == 3 {
			r.Sample(map[string]any{"case": c.id, "removed_records_per_height": fmt.Sprint(c.groups), "observation": obs})
		}

		for _, v := range vios {
			r.Outcome("cleanpage:violation:" + fmt.Sprint(v.sig["kind"]))
			r.Violation(c.id, v.sig, v.detail, map[string]any{"case": c.id})
		}
	}
}
