//go:build verif

package isaacdatabase

import (
	"context"
	"fmt"
	"os"
	"runtime"
	"sort"
	"strings"
	"sync"
	"sync/atomic"
	"testing"

	"github.com/spikeekips/mitum/base"
	"github.com/spikeekips/mitum/isaac"
	leveldbstorage "github.com/spikeekips/mitum/storage/leveldb"
	"github.com/spikeekips/mitum/util"
	"github.com/spikeekips/mitum/util/encoder"
	jsonenc "github.com/spikeekips/mitum/util/encoder/json"
	"github.com/spikeekips/mitum/util/localtime"
	"github.com/spikeekips/mitum/util/valuehash"
	"github.com/spikeekips/mitum/zzverif/vlib"
	leveldbopt "github.com/syndtr/goleveldb/leveldb/opt"
	goleveldbstorage "github.com/syndtr/goleveldb/leveldb/storage"
	leveldbutil "github.com/syndtr/goleveldb/leveldb/util"
)

// C22: TempPool.OperationHashes hands out a valid, de-duplicated operation set.
//
// Explicit-state BFS over event histories on the REAL TempPool (in-memory
// leveldb). Alphabet: 6 operations = facts {f1,f2,f3} x signer {a,b} (same
// fact re-signed => different operation hash); events
//   S<i>            SetOperation(op i)           i in 0..5
//   Q<limit><flt>   OperationHashes(limit,flt)   limit in {1,2,3,10}, flt in
//                   a = accept all, f = reject fact f1, o = reject operation #1 (f1 signed by b), n = reject all
// A successor is built by replaying the history on a fresh pool plus one event.
// The oracle is written from the property statement only (clauses below).

const (
	c22NOps   = 6
	c22Height = base.Height(33)
)

var (
	c22Limits  = []uint64{1, 2, 3, 10}
	c22Filters = []byte{'a', 'f', 'o', 'n'}
)

type c22Env struct {
	encs *encoder.Encoders
	enc  encoder.Encoder
	ops  [c22NOps]base.Operation
	fact [c22NOps]int   // fact number (0..2) of op i
	id   map[string]int // op hash string -> op index
	fid  map[string]int // fact hash string -> fact number
	evs  []string       // event alphabet, fixed order
}

func c22NewEnv(t *testing.T) *c22Env {
	env := &c22Env{id: map[string]int{}, fid: map[string]int{}}
	env.enc = jsonenc.NewEncoder()
	env.encs = encoder.NewEncoders(env.enc, env.enc)

	for _, d := range []encoder.DecodeDetail{
		{Hint: base.MPublickeyHint, Instance: &base.MPublickey{}},
		{Hint: base.StringAddressHint, Instance: base.StringAddress{}},
		{Hint: isaac.DummyOperationFactHint, Instance: isaac.DummyOperationFact{}},
		{Hint: isaac.DummyOperationHint, Instance: isaac.DummyOperation{}},
	} {
		if err := env.encs.AddDetail(d); err != nil {
			t.Fatal(err)
		}
	}

	nid := base.NetworkID("c22-network")

	for i := 0; i < c22NOps; i++ {
		f, s := i/2, i%2
		priv, err := base.NewMPrivatekeyFromSeed(fmt.Sprintf("c22-fixed-seed-for-operation-signer-%d-0123456789", s))
		if err != nil {
			t.Fatal(err)
		}

		fact := isaac.NewDummyOperationFact(
			[]byte(fmt.Sprintf("c22-token-f%d", f+1)), valuehash.NewSHA256([]byte(fmt.Sprintf("c22-fact-%d", f+1))))

		op, err := isaac.NewDummyOperation(fact, priv, nid)
		if err != nil {
			t.Fatal(err)
		}

		// NOTE the operation hash of DummyOperation is random; it is data only:
		// control flow, state keys and case ids use the index i.
		env.ops[i] = op
		env.fact[i] = f
		env.id[op.Hash().String()] = i
		env.fid[fact.Hash().String()] = f
	}

	for i := 0; i < c22NOps; i++ {
		env.evs = append(env.evs, fmt.Sprintf("S%d", i))
	}

	for _, l := range c22Limits {
		for _, f := range c22Filters {
			env.evs = append(env.evs, fmt.Sprintf("Q%d%c", l, f))
		}
	}

	return env
}

func (env *c22Env) newPool() *TempPool {
	// NOTE same as leveldbstorage.NewMemStorage() but with a small write buffer:
	// goleveldb allocates the whole write buffer (default 4MiB) per Open and the
	// search opens a fresh database per transition.
	st, err := leveldbstorage.NewStorage(goleveldbstorage.NewMemStorage(), &leveldbopt.Options{
		WriteBuffer:        64 * leveldbopt.KiB,
		BlockCacheCapacity: 64 * leveldbopt.KiB,
	})
	if err != nil {
		panic(err)
	}

	db, err := newTempPool(st, env.encs, env.enc, 0)
	if err != nil {
		panic(err)
	}

	return db
}

// accept is the pure decision of filter flt for operation i.
func (env *c22Env) accept(flt byte, i int) bool {
	switch flt {
	case 'a':
		return true
	case 'f':
		return env.fact[i] != 0
	case 'o':
		return i != 1
	case 'n':
		return false
	}

	panic("unknown filter")
}

// c22Model is what the oracle needs to remember about the history.
type c22Model struct {
	added    []int        // operations in the order of their first (successful) SetOperation
	rejected map[int]bool // operations some earlier filter call rejected
}

func (m *c22Model) isAdded(i int) bool {
	for _, j := range m.added {
		if j == i {
			return true
		}
	}

	return false
}

func (m *c22Model) key() string {
	var rj []int
	for i := range m.rejected {
		rj = append(rj, i)
	}

	sort.Ints(rj)

	return fmt.Sprintf("A%v|X%v", m.added, rj)
}

// c22Real is the property-relevant content of the real pool, read straight
// from leveldb: the ordered index (what OperationHashes scans), the stored
// operation bodies, the per-operation index records and the "removed" marks.
type c22Real struct {
	live    []int
	stored  []int
	info    []int
	removed []int
}

func (s c22Real) key() string {
	return fmt.Sprintf("L%v|S%v|I%v|R%v", s.live, s.stored, s.info, s.removed)
}

func (env *c22Env) snapshot(db *TempPool) c22Real {
	var s c22Real

	pst, err := db.st()
	if err != nil {
		panic(err)
	}

	if err := pst.Iter(leveldbutil.BytesPrefix(leveldbKeyPrefixNewOperationOrdered[:]), func(_, b []byte) (bool, error) {
		meta, err := ReadFrameHeaderOperation(b)
		if err != nil {
			return false, err
		}

		i, ok := env.id[meta.Operation().String()]
		if !ok {
			return false, fmt.Errorf("unknown operation in ordered index")
		}

		s.live = append(s.live, i)

		return true, nil
	}, true); err != nil {
		panic(err)
	}

	for i := 0; i < c22NOps; i++ {
		h := env.ops[i].Hash()

		switch found, err := pst.Exists(leveldbNewOperationKey(h)); {
		case err != nil:
			panic(err)
		case found:
			s.stored = append(s.stored, i)
		}

		switch found, err := pst.Exists(leveldbNewOperationKeysKey(h)); {
		case err != nil:
			panic(err)
		case found:
			s.info = append(s.info, i)
		}
	}

	if err := pst.Iter(leveldbutil.BytesPrefix(leveldbKeyPrefixRemovedNewOperation[:]), func(_, b []byte) (bool, error) {
		i, ok := env.id[valuehash.NewBytes(b).String()]
		if !ok {
			return false, fmt.Errorf("unknown operation in removed marks")
		}

		s.removed = append(s.removed, i)

		return true, nil
	}, true); err != nil {
		panic(err)
	}

	sort.Ints(s.removed)

	return s
}

type c22Vio struct {
	sig    map[string]any
	detail string
}

// c22Runner applies events to one real pool and keeps the model.
type c22Runner struct {
	env      *c22Env
	db       *TempPool
	m        c22Model
	lastNano int64
	lastObs  string // observation class of the last event (outcome statistics)
	check    bool   // run the oracle (false while replaying the already checked prefix of a history)
}

func (env *c22Env) newRunner() *c22Runner {
	return &c22Runner{env: env, db: env.newPool(), m: c22Model{rejected: map[int]bool{}}}
}

func (x *c22Runner) close() {
	if err := x.db.DeepClose(); err != nil {
		panic(err)
	}
}

// setOperation calls the real SetOperation with a strictly increasing
// "added at" time, so that the ordered index equals the insertion order.
func (x *c22Runner) setOperation(i int) (bool, error) {
	// sleep-free: the ordered key is UnixNano of localtime.Now() + operation hash
	for localtime.Now().UnixNano() <= x.lastNano {
	}

	added, err := x.db.SetOperation(context.Background(), x.env.ops[i])
	if err != nil || !added {
		return added, err
	}

	pst, err := x.db.st()
	if err != nil {
		panic(err)
	}

	switch ok, found, err := pst.Get(leveldbNewOperationKeysKey(x.env.ops[i].Hash())); {
	case err != nil, !found:
		panic(fmt.Sprintf("ordered key of a new operation not found: %v", err))
	default:
		of, err := offsetFromLeveldbOperationOrderedKey(ok)
		if err != nil {
			panic(err)
		}

		nano, err := util.BytesToInt64(of)
		if err != nil {
			panic(err)
		}

		if nano <= x.lastNano {
			// the assumption of the harness; never a verdict
			panic(fmt.Sprintf("harness assumption broken: added-at time not strictly increasing: %d <= %d", nano, x.lastNano))
		}

		x.lastNano = nano
	}

	return true, nil
}

func c22ParseEvent(ev string) (kind byte, a int, flt byte) {
	switch ev[0] {
	case 'S':
		var i int
		if _, err := fmt.Sscanf(ev, "S%d", &i); err != nil {
			panic(err)
		}

		return 'S', i, 0
	case 'Q':
		var l int
		var f byte
		if _, err := fmt.Sscanf(ev, "Q%d%c", &l, &f); err != nil {
			panic(err)
		}

		return 'Q', l, f
	}

	panic("bad event " + ev)
}

// apply runs one event on the real pool, checks the oracle and updates the model.
func (x *c22Runner) apply(ev string) []c22Vio {
	env := x.env
	kind, a, flt := c22ParseEvent(ev)

	var vios []c22Vio
	vio := func(sig map[string]any, format string, args ...any) {
		vios = append(vios, c22Vio{sig: sig, detail: fmt.Sprintf(format, args...)})
	}

	snap := func() c22Real {
		if !x.check {
			return c22Real{}
		}

		return env.snapshot(x.db)
	}

	if kind == 'S' {
		before := snap()
		known := x.m.isAdded(a)

		var added bool
		var err error

		if panicked, msg := vlib.Catch(func() { added, err = x.setOperation(a) }); panicked {
			if strings.HasPrefix(msg, "harness assumption") {
				panic(msg)
			}

			vio(map[string]any{"kind": "panic", "call": "SetOperation"}, "SetOperation(op%d) panicked: %s", a, msg)
			x.lastObs = "set-panic"

			return vios
		}

		after := snap()

		switch {
		case err != nil:
			vio(map[string]any{"kind": "error", "call": "SetOperation"}, "SetOperation(op%d): %v", a, err)
		case known && added:
			vio(map[string]any{"kind": "set-not-idempotent", "what": "reported-added-again"},
				"SetOperation(op%d) repeated, returned true", a)
		case known && before.key() != after.key():
			vio(map[string]any{"kind": "set-not-idempotent", "what": "state-changed"},
				"SetOperation(op%d) repeated changed the pool: %s -> %s", a, before.key(), after.key())
		case !known && !added:
			vio(map[string]any{"kind": "set-wrong-result", "what": "new-operation-refused"},
				"SetOperation(op%d) of a new operation returned false", a)
		}

		if !known && added {
			x.m.added = append(x.m.added, a)
		}

		if !known && added && x.check {
			switch op, found, err := x.db.Operation(context.Background(), env.ops[a].Hash()); {
			case err != nil, !found, !op.Hash().Equal(env.ops[a].Hash()), !op.Fact().Hash().Equal(env.ops[a].Fact().Hash()):
				vio(map[string]any{"kind": "set-wrong-result", "what": "stored-operation-not-readable"},
					"Operation(op%d) after SetOperation: found=%v err=%v", a, found, err)
			}
		}

		x.lastObs = fmt.Sprintf("set:%v", added)

		return vios
	}

	// ---- OperationHashes(limit, filter)
	limit := uint64(a)
	before := snap()

	var calls, rejects int
	rejectedNow := map[int]bool{}

	filter := func(meta isaac.PoolOperationRecordMeta) (bool, error) {
		calls++

		i, ok := env.id[meta.Operation().String()]
		if !ok {
			return false, fmt.Errorf("filter called with an unknown operation")
		}

		if f, ok := env.fid[meta.Fact().String()]; !ok || f != env.fact[i] {
			return false, fmt.Errorf("filter called with a wrong fact for op%d", i)
		}

		if env.accept(flt, i) {
			return true, nil
		}

		rejects++
		rejectedNow[i] = true

		return false, nil
	}

	var res [][2]util.Hash
	var err error

	panicked, msg := vlib.Catch(func() {
		res, err = x.db.OperationHashes(context.Background(), c22Height, limit, filter)
	})

	switch {
	case panicked:
		cls := "other"
		if strings.Contains(msg, "index out of range") {
			cls = "index-out-of-range"
		}

		vio(map[string]any{"kind": "panic", "call": "OperationHashes", "panic": cls},
			"OperationHashes(limit=%d, filter=%c) panicked after %d filter rejections: %s; pool index=%v",
			limit, flt, rejects, msg, before.live)
		x.lastObs = "query-panic"

		return vios
	case err != nil:
		vio(map[string]any{"kind": "error", "call": "OperationHashes"}, "OperationHashes(limit=%d, filter=%c): %v", limit, flt, err)
		x.lastObs = "query-error"

		return vios
	}

	if !x.check {
		for i := range rejectedNow {
			x.m.rejected[i] = true
		}

		return nil
	}

	var got []int
	for _, e := range res {
		i, ok := env.id[e[0].String()]
		if !ok {
			i = -1
		}

		got = append(got, i)
	}

	desc := fmt.Sprintf("OperationHashes(limit=%d, filter=%c) on index %v (added order %v, rejected before %s) returned %v",
		limit, flt, before.live, x.m.added, x.m.key(), got)

	// (a) at most L entries
	if uint64(len(res)) > limit {
		vio(map[string]any{"kind": "over-limit"}, "%s", desc)
	}

	// (b) pairwise distinct operations and facts
	seenop, seenfact := map[string]bool{}, map[string]bool{}
	var dupop, dupfact bool

	for _, e := range res {
		if seenop[e[0].String()] {
			dupop = true
		}

		if seenfact[e[1].String()] {
			dupfact = true
		}

		seenop[e[0].String()] = true
		seenfact[e[1].String()] = true
	}

	if dupop {
		vio(map[string]any{"kind": "duplicate-operation-in-result"}, "%s", desc)
	}

	if dupfact {
		vio(map[string]any{"kind": "duplicate-fact-in-result"}, "%s: two entries carry the same fact", desc)
	}

	for k, e := range res {
		i := got[k]

		// (c) every entry is stored in the pool and passes the filter
		if i < 0 {
			vio(map[string]any{"kind": "entry-not-stored", "what": "unknown-operation"}, "%s", desc)

			continue
		}

		switch op, found, err := x.db.Operation(context.Background(), e[0]); {
		case err != nil, !found:
			vio(map[string]any{"kind": "entry-not-stored", "what": "operation-lookup-fails"}, "%s: op%d found=%v err=%v", desc, i, found, err)
		case !op.Fact().Hash().Equal(e[1]):
			vio(map[string]any{"kind": "entry-fact-mismatch"}, "%s: op%d listed with a foreign fact", desc, i)
		}

		if !x.m.isAdded(i) {
			vio(map[string]any{"kind": "entry-not-stored", "what": "never-added"}, "%s: op%d was never added", desc, i)
		}

		if !env.accept(flt, i) {
			vio(map[string]any{"kind": "entry-fails-filter"}, "%s: op%d is rejected by the filter", desc, i)
		}

		// (e) filtered-out operations are not returned again
		if x.m.rejected[i] {
			vio(map[string]any{"kind": "rejected-returned-again"}, "%s: op%d was rejected by an earlier call", desc, i)
		}

		// (d) for a fact submitted several times the most recently added
		// operation is chosen: among the operations of this fact that were
		// added, were never filtered out and pass this filter.
		latest := -1

		for _, j := range x.m.added {
			if env.fact[j] == env.fact[i] && !x.m.rejected[j] && env.accept(flt, j) {
				latest = j
			}
		}

		if latest >= 0 && latest != i && !x.m.rejected[i] && env.accept(flt, i) {
			inindex := false
			for _, j := range before.live {
				if j == latest {
					inindex = true
				}
			}

			vio(map[string]any{
				"kind":           "older-duplicate-chosen",
				"newer_in_index": inindex,
				"result_full":    uint64(len(res)) == limit,
			}, "%s: fact f%d is represented by op%d although op%d was added later (newer still in ordered index: %v)",
				desc, env.fact[i]+1, i, latest, inindex)
		}
	}

	for i := range rejectedNow {
		x.m.rejected[i] = true
	}

	x.lastObs = fmt.Sprintf("query:n=%d/rej=%d/full=%v", len(res), rejects, uint64(len(res)) == limit)

	return vios
}

func TestVerifC22(t *testing.T) {
	r := vlib.Start("C22")
	defer r.Finish()

	env := c22NewEnv(t)

	depth := vlib.Pick(r, 5, 6)
	if v := strings.TrimSpace(os.Getenv("VERIF_C22_DEPTH")); v != "" { // tuning aid only; never set by run.sh
		fmt.Sscanf(v, "%d", &depth)
	}

	if _, replaying := r.Replaying(); replaying {
		depth = 64 // only prefixes of the recorded history are expanded (WantPrefix); it may come from the thorough tier
	}

	r.Set("depth", depth)
	r.Set("alphabet", env.evs)
	r.Set("alphabet_size", len(env.evs))
	r.Set("operations", "op0=(f1,a) op1=(f1,b) op2=(f2,a) op3=(f2,b) op4=(f3,a) op5=(f3,b)")
	r.Rule("BFS over event histories (events: SetOperation of 6 operations = 3 facts x 2 signers, OperationHashes with limit in {1,2,3,10} x filter in {all, reject fact f1, reject op1, reject all}); " +
		"every history up to the depth is replayed on a fresh real TempPool; states are deduplicated on (ordered index, stored bodies, index records, removed marks read from leveldb; added order and ever-rejected set of the oracle): " +
		"the pool's behaviour depends only on those leveldb records (operation cache disabled) and the oracle only on the two model fields, so merged states have equal futures; " +
		"a violating transition is reported and exploration continues from the resulting state; non-trivial = a query on a pool that holds two operations of one fact, or whose filter rejects something")
	r.Assume("the 'added at' nanosecond clock (util/localtime) is strictly increasing between two SetOperation calls; the harness spins until it is and verifies it from the stored ordered key")
	r.Assume("leveldb in-memory storage behaves like the on-disk one for single-process sequential use")

	if sh, nsh := r.Shard(); nsh > 1 && sh > 0 {
		// the search is parallel inside one process (global state dedup needs shared memory);
		// with several shards configured only shard 0 works
		r.Outcome("idle-shard")

		return
	}

	seen := map[string]bool{}
	canon := func(x *c22Runner) string { return env.snapshot(x.db).key() + "#" + x.m.key() }

	// run one history on a fresh pool; the oracle is checked on the last event only
	// (every proper prefix was checked when it was the last event of a shorter history)
	run := func(path []string) (res c22Result) {
		x := env.newRunner()
		defer x.close()

		for k, ev := range path {
			x.check = k == len(path)-1
			res.vios = x.apply(ev)
		}

		res.key, res.obs = canon(x), x.lastObs

		return res
	}

	{
		k := run(nil).key
		seen[k] = true
		r.State(k)
	}

	_, replaying := r.Replaying()
	frontier := [][]string{nil}

	// Level-synchronous BFS. The histories of one chunk run in parallel (each on its own
	// fresh pool); their results are merged sequentially in (state, event) order, so the
	// outcome is exactly that of a sequential BFS and independent of scheduling.
	const chunkStates = 256

levels:
	for level := 0; level < depth; level++ {
		var next [][]string

		for c0 := 0; c0 < len(frontier); c0 += chunkStates {
			c1 := c0 + chunkStates
			if c1 > len(frontier) {
				c1 = len(frontier)
			}

			if r.Expired() {
				r.Cap(fmt.Sprintf("deadline at level %d, state %d/%d", level, c0, len(frontier)))

				break levels
			}

			type job struct {
				path []string
				id   string
			}

			var jobs []job

			for _, st := range frontier[c0:c1] {
				for _, ev := range env.evs {
					path := append(append([]string{}, st...), ev)
					id := strings.Join(path, "/")

					if !r.WantPrefix(id) {
						continue
					}

					jobs = append(jobs, job{path, id})
				}
			}

			results := make([]c22Result, len(jobs))
			c22Parallel(len(jobs), func(i int) { results[i] = run(jobs[i].path) })

			for i, j := range jobs {
				res, ev := results[i], j.path[len(j.path)-1]

				if !replaying || r.Want(j.id) { // in a replay only the recorded case reports
					r.Transition()
					r.Trace()
					r.Eval()
					r.Outcome(res.obs)
					r.Max("max_depth", int64(len(j.path)))

					if ev[0] == 'Q' && c22Nontrivial(env, j.path[:len(j.path)-1], ev) {
						r.Nontrivial(j.id)
					}

					for _, v := range res.vios {
						r.Outcome("violation:" + fmt.Sprint(v.sig["kind"]))
						r.Violation(j.id, v.sig, v.detail, map[string]any{"events": j.path})
					}
				}

				// NOTE a violating transition is not terminal: the oracle is per call, the
				// model (added order, ever-rejected set) does not depend on the returned
				// result, and the pool's leveldb records stay well defined (also after a
				// recovered panic), so the successor is an ordinary state.

				if seen[res.key] {
					continue
				}

				seen[res.key] = true

				if r.State(res.key) && len(j.path) >= 2 && len(j.path) <= 3 {
					r.Sample(map[string]any{"history": j.id, "state": res.key, "last_observation": res.obs})
				}

				next = append(next, j.path)
			}
		}

		frontier = next
		r.Add(fmt.Sprintf("new_states_at_depth_%d", level+1), int64(len(frontier)))
	}
}

type c22Result struct {
	key  string
	vios []c22Vio
	obs  string
}

// c22Parallel runs f(0..n-1) on GOMAXPROCS workers.
func c22Parallel(n int, f func(int)) {
	w := runtime.GOMAXPROCS(0)
	if w > n {
		w = n
	}

	var wg sync.WaitGroup
	next := int64(-1)

	for k := 0; k < w; k++ {
		wg.Add(1)

		go func() {
			defer wg.Done()

			for {
				i := int(atomic.AddInt64(&next, 1))
				if i >= n {
					return
				}

				f(i)
			}
		}()
	}

	wg.Wait()
}

// c22Nontrivial: the history before the query added two operations of one
// fact, or the query's filter rejects an added operation.
func c22Nontrivial(env *c22Env, path []string, q string) bool {
	_, _, flt := c22ParseEvent(q)
	perfact := map[int]map[int]bool{}

	for _, ev := range path {
		if k, a, _ := c22ParseEvent(ev); k == 'S' {
			if perfact[env.fact[a]] == nil {
				perfact[env.fact[a]] = map[int]bool{}
			}

			perfact[env.fact[a]][a] = true

			if !env.accept(flt, a) {
				return true
			}
		}
	}

	for _, m := range perfact {
		if len(m) > 1 {
			return true
		}
	}

	return false
}
