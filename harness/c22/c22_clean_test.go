//go:build verif

package isaacdatabase

import (
	"context"
	"fmt"
	"os"
	"sort"
	"strings"
	"testing"

	"github.com/spikeekips/mitum/base"
	"github.com/spikeekips/mitum/isaac"
	leveldbstorage "github.com/spikeekips/mitum/storage/leveldb"
	"github.com/spikeekips/mitum/util"
	"github.com/spikeekips/mitum/util/valuehash"
	"github.com/spikeekips/mitum/zzverif/vlib"
	leveldbopt "github.com/syndtr/goleveldb/leveldb/opt"
	goleveldbstorage "github.com/syndtr/goleveldb/leveldb/storage"
	leveldbutil "github.com/syndtr/goleveldb/leveldb/util"
)

// C22, second sequential unit: the removal entry points and the cleaner.
//
// Same technique as c22_test.go (explicit-state BFS over event histories on
// the REAL TempPool, in-memory leveldb), with a smaller operation set and a
// menu that adds what the first unit does not drive:
//
//	S<i>            SetOperation(op i)                 i in 0..3  (op0=(f1,a) op1=(f1,b) op2=(f2,a) op3=(f2,b))
//	Q<h>:<l><flt>   OperationHashes(height h, limit l, filter flt)   h in {33,36}; (l,flt) in c22kQueries
//	R<i>@<h>        setRemoveNewOperations(height h, [op i])         the removal function OperationHashes uses
//	C               cleanRemovedNewOperations()                      the cleaner body (called by the ticker loop of startClean)
//
// The pool is built WITH the operation cache (size 64), so SetOperation /
// Operation go through setOpCache / opFromCache.
//
// Oracle (from the property statement; clauses a-e are those of c22_test.go):
// an answer of OperationHashes has at most L entries, pairwise distinct
// operations and facts, every entry is stored (its body is in leveldb:
// OperationBytes, and Operation decodes it) and passes the filter, the newest
// operation of a fact is the one handed out, SetOperation is idempotent, and
// an operation that was filtered out or removed (R) is never handed out again.
// The cleaner purges the bodies of operations removed >= 3 heights below the
// newest removal; the pool then has no record of such an operation at all, so
// a later SetOperation of it is a NEW submission (this is the only reading
// under which the cleaner is not itself a violation; stated in level_note).
// What the cleaner must preserve: every entry still in the ordered index keeps
// its body ("remaining entries still satisfy the property after a clean") and
// the ordered index itself is untouched.
//
// Fixtures (keys, operations, filters) are those of c22_test.go; this file
// uses the prefix c22k.

const c22kNOps = 4

var (
	c22kHeights = []base.Height{33, 36}
	c22kQueries = []struct {
		limit uint64
		flt   byte
	}{{10, 'a'}, {10, 'f'}, {10, 'n'}, {1, 'a'}, {2, 'o'}}
)

type c22kEvent struct {
	kind  byte // S Q R C
	op    int
	h     base.Height
	limit uint64
	flt   byte
}

func c22kParse(ev string) c22kEvent {
	switch ev[0] {
	case 'S':
		var i int
		if _, err := fmt.Sscanf(ev, "S%d", &i); err != nil {
			panic(err)
		}

		return c22kEvent{kind: 'S', op: i}
	case 'Q':
		var h, l int
		var f byte
		if _, err := fmt.Sscanf(ev, "Q%d:%d%c", &h, &l, &f); err != nil {
			panic(err)
		}

		return c22kEvent{kind: 'Q', h: base.Height(h), limit: uint64(l), flt: f}
	case 'R':
		var i, h int
		if _, err := fmt.Sscanf(ev, "R%d@%d", &i, &h); err != nil {
			panic(err)
		}

		return c22kEvent{kind: 'R', op: i, h: base.Height(h)}
	case 'C':
		return c22kEvent{kind: 'C'}
	}

	panic("bad event " + ev)
}

func c22kAlphabet() []string {
	var evs []string

	for i := 0; i < c22kNOps; i++ {
		evs = append(evs, fmt.Sprintf("S%d", i))
	}

	for _, h := range c22kHeights {
		for _, q := range c22kQueries {
			evs = append(evs, fmt.Sprintf("Q%d:%d%c", h, q.limit, q.flt))
		}
	}

	for _, h := range c22kHeights {
		for i := 0; i < c22kNOps; i++ {
			evs = append(evs, fmt.Sprintf("R%d@%d", i, h))
		}
	}

	return append(evs, "C")
}

func c22kNewPool(env *c22Env) (*TempPool, *leveldbstorage.Storage) {
	st, err := leveldbstorage.NewStorage(goleveldbstorage.NewMemStorage(), &leveldbopt.Options{
		WriteBuffer:        64 * leveldbopt.KiB, // goleveldb allocates the whole write buffer per Open
		BlockCacheCapacity: 64 * leveldbopt.KiB,
	})
	if err != nil {
		panic(err)
	}

	db, err := newTempPool(st, env.encs, env.enc, 64) // with the operation cache
	if err != nil {
		panic(err)
	}

	return db, st
}

// c22kModel is what the oracle remembers.
type c22kModel struct {
	added []int          // operations the pool knows (added and not purged since), in the order of their add
	gone  map[int]string // of those: filtered out ("rejected") or removed ("removed"); never to be handed out again
}

func (m *c22kModel) isAdded(i int) bool {
	for _, j := range m.added {
		if j == i {
			return true
		}
	}

	return false
}

func (m *c22kModel) forget(i int) {
	var n []int

	for _, j := range m.added {
		if j != i {
			n = append(n, j)
		}
	}

	m.added = n

	delete(m.gone, i)
}

func (m *c22kModel) key() string {
	var g []string
	for i, why := range m.gone {
		g = append(g, fmt.Sprintf("%d%c", i, why[0]))
	}

	sort.Strings(g)

	return fmt.Sprintf("A%v|G%v", m.added, g)
}

// c22kReal: the property-relevant leveldb records of the pool (c22Real of the
// first unit) plus the removed marks WITH their heights (the cleaner depends on them).
type c22kReal struct {
	c22Real
	marks []string // "<height>:<op>"
}

func (s c22kReal) key() string { return s.c22Real.key() + fmt.Sprintf("|M%v", s.marks) }

func c22kContains(xs []int, i int) bool {
	for _, j := range xs {
		if j == i {
			return true
		}
	}

	return false
}

func c22kSnapshot(env *c22Env, db *TempPool) c22kReal {
	s := c22kReal{c22Real: env.snapshot(db)}

	pst, err := db.st()
	if err != nil {
		panic(err)
	}

	if err := pst.Iter(leveldbutil.BytesPrefix(leveldbKeyPrefixRemovedNewOperation[:]), func(k, b []byte) (bool, error) {
		h, err := heightFromKey(k, leveldbKeyPrefixRemovedNewOperation)
		if err != nil {
			return false, err
		}

		i, ok := env.id[valuehash.NewBytes(b).String()]
		if !ok {
			return false, fmt.Errorf("unknown operation in removed marks")
		}

		s.marks = append(s.marks, fmt.Sprintf("%d:%d", h, i))

		return true, nil
	}, true); err != nil {
		panic(err)
	}

	sort.Strings(s.marks)

	return s
}

type c22kRunner struct {
	env     *c22Env
	db      *TempPool
	setter  *c22Runner // strictly increasing added-at clock (setOperation of the first unit)
	m       c22kModel
	lastObs string
	check   bool
}

func c22kNewRunner(env *c22Env) *c22kRunner {
	db, _ := c22kNewPool(env)

	return &c22kRunner{env: env, db: db, setter: &c22Runner{env: env, db: db}, m: c22kModel{gone: map[int]string{}}}
}

func (x *c22kRunner) close() {
	if err := x.db.DeepClose(); err != nil {
		panic(err)
	}
}

func (x *c22kRunner) apply(ev string) []c22Vio {
	env := x.env
	e := c22kParse(ev)
	ctx := context.Background()

	var vios []c22Vio
	vio := func(sig map[string]any, format string, args ...any) {
		sig["unit"] = "clean"
		vios = append(vios, c22Vio{sig: sig, detail: fmt.Sprintf(format, args...)})
	}

	snap := func() c22kReal {
		if !x.check {
			return c22kReal{}
		}

		return c22kSnapshot(env, x.db)
	}

	switch e.kind {
	case 'S':
		before := snap()
		known := x.m.isAdded(e.op)

		var added bool
		var err error

		if panicked, msg := vlib.Catch(func() { added, err = x.setter.setOperation(e.op) }); panicked {
			if strings.HasPrefix(msg, "harness assumption") || strings.HasPrefix(msg, "ordered key") {
				panic(msg)
			}

			vio(map[string]any{"kind": "panic", "call": "SetOperation"}, "SetOperation(op%d) panicked: %s", e.op, msg)
			x.lastObs = "set-panic"

			return vios
		}

		switch {
		case err != nil:
			vio(map[string]any{"kind": "error", "call": "SetOperation"}, "SetOperation(op%d): %v", e.op, err)
		case known && added:
			vio(map[string]any{"kind": "set-not-idempotent", "what": "reported-added-again"},
				"SetOperation(op%d) of an operation the pool holds (model %s) returned true", e.op, x.m.key())
		case !known && !added:
			vio(map[string]any{"kind": "set-wrong-result", "what": "new-operation-refused"},
				"SetOperation(op%d) of an operation the pool does not hold (model %s) returned false", e.op, x.m.key())
		}

		if x.check {
			after := c22kSnapshot(env, x.db)

			if known && err == nil && !added && before.key() != after.key() {
				vio(map[string]any{"kind": "set-not-idempotent", "what": "state-changed"},
					"SetOperation(op%d) repeated changed the pool: %s -> %s", e.op, before.key(), after.key())
			}

			if !known && added {
				h := env.ops[e.op].Hash()

				op, found, oerr := x.db.Operation(ctx, h)
				_, _, body, bfound, berr := x.db.OperationBytes(ctx, h)

				if oerr != nil || !found || !op.Hash().Equal(h) || !op.Fact().Hash().Equal(env.ops[e.op].Fact().Hash()) ||
					berr != nil || !bfound || len(body) < 1 {
					vio(map[string]any{"kind": "set-wrong-result", "what": "stored-operation-not-readable"},
						"after SetOperation(op%d): Operation found=%v err=%v, OperationBytes found=%v err=%v", e.op, found, oerr, bfound, berr)
				}
			}
		}

		if !known && added {
			x.m.added = append(x.m.added, e.op)
		}

		x.lastObs = fmt.Sprintf("set:%v", added)

		return vios
	case 'R':
		before := snap()
		known := x.m.isAdded(e.op)

		var err error

		if panicked, msg := vlib.Catch(func() {
			err = x.db.setRemoveNewOperations(ctx, e.h, []util.Hash{env.ops[e.op].Hash()})
		}); panicked {
			vio(map[string]any{"kind": "panic", "call": "setRemoveNewOperations"}, "setRemoveNewOperations(op%d) panicked: %s", e.op, msg)
			x.lastObs = "remove-panic"

			return vios
		}

		if err != nil {
			vio(map[string]any{"kind": "error", "call": "setRemoveNewOperations"}, "setRemoveNewOperations(op%d): %v", e.op, err)
		}

		if x.check {
			after := c22kSnapshot(env, x.db)

			switch {
			case !known && before.key() != after.key():
				vio(map[string]any{"kind": "remove-changed-pool", "what": "operation-not-in-pool"},
					"setRemoveNewOperations(op%d) of an operation the pool does not hold changed it: %s -> %s", e.op, before.key(), after.key())
			case c22kContains(after.live, e.op):
				vio(map[string]any{"kind": "removed-still-in-index"},
					"setRemoveNewOperations(op%d@%d): the operation is still in the ordered index %v", e.op, e.h, after.live)
			}

			for _, j := range before.live {
				if j != e.op && !c22kContains(after.live, j) {
					vio(map[string]any{"kind": "remove-changed-pool", "what": "other-operation-left-the-index"},
						"setRemoveNewOperations(op%d@%d) also dropped op%d from the ordered index: %v -> %v", e.op, e.h, j, before.live, after.live)
				}
			}
		}

		x.lastObs = "remove:unknown"

		if known {
			x.lastObs = "remove:again"

			if _, already := x.m.gone[e.op]; !already {
				x.m.gone[e.op] = "removed"
				x.lastObs = "remove:live"
			}
		}

		return vios
	case 'C':
		before := c22kSnapshot(env, x.db) // needed for the model also when not checking

		var n int
		var err error

		if panicked, msg := vlib.Catch(func() { n, err = x.db.cleanRemovedNewOperations() }); panicked {
			vio(map[string]any{"kind": "panic", "call": "cleanRemovedNewOperations"}, "cleanRemovedNewOperations panicked: %s", msg)
			x.lastObs = "clean-panic"

			return vios
		}

		after := c22kSnapshot(env, x.db)

		if err != nil {
			vio(map[string]any{"kind": "error", "call": "cleanRemovedNewOperations"}, "cleanRemovedNewOperations: %v", err)
		}

		if fmt.Sprint(before.live) != fmt.Sprint(after.live) || fmt.Sprint(before.info) != fmt.Sprint(after.info) {
			vio(map[string]any{"kind": "clean-changed-index"},
				"cleanRemovedNewOperations changed the ordered index / index records: %s -> %s", before.key(), after.key())
		}

		for _, j := range after.live {
			if !c22kContains(after.stored, j) {
				vio(map[string]any{"kind": "clean-purged-live-entry"},
					"cleanRemovedNewOperations purged the body of op%d which is still in the ordered index: %s -> %s", j, before.key(), after.key())
			}
		}

		var purged []int

		for _, j := range before.stored {
			if !c22kContains(after.stored, j) {
				purged = append(purged, j)

				if _, gone := x.m.gone[j]; !gone && x.m.isAdded(j) {
					// an older duplicate dropped by OperationHashes is also purged; anything else is a live operation
					newer := false

					for k := len(x.m.added) - 1; k >= 0 && x.m.added[k] != j; k-- {
						if env.fact[x.m.added[k]] == env.fact[j] {
							newer = true
						}
					}

					if !newer {
						vio(map[string]any{"kind": "clean-purged-operation-never-removed"},
							"cleanRemovedNewOperations purged op%d which was neither filtered out, removed nor superseded (model %s): %s -> %s",
							j, x.m.key(), before.key(), after.key())
					}
				}

			}
		}

		for _, j := range purged {
			x.m.forget(j) // the pool has no record of it any more
		}

		x.lastObs = fmt.Sprintf("clean:n=%d/purged=%d", n, len(purged))

		if x.check && len(purged) > 0 {
			// not judged (the property is about what OperationHashes hands out): the cache may still serve a purged body
			for _, j := range purged {
				if _, found, _ := x.db.Operation(ctx, env.ops[j].Hash()); found {
					x.lastObs += "/cache-serves-purged"

					break
				}
			}
		}

		return vios
	}

	// ---- OperationHashes(height, limit, filter)
	before := snap()

	var rejects int
	rejectedNow := map[int]bool{}

	filter := func(meta isaac.PoolOperationRecordMeta) (bool, error) {
		i, ok := env.id[meta.Operation().String()]
		if !ok {
			return false, fmt.Errorf("filter called with an unknown operation")
		}

		if f, ok := env.fid[meta.Fact().String()]; !ok || f != env.fact[i] {
			return false, fmt.Errorf("filter called with a wrong fact for op%d", i)
		}

		if env.accept(e.flt, i) {
			return true, nil
		}

		rejects++
		rejectedNow[i] = true

		return false, nil
	}

	var res [][2]util.Hash
	var err error

	panicked, msg := vlib.Catch(func() { res, err = x.db.OperationHashes(ctx, e.h, e.limit, filter) })

	switch {
	case panicked:
		vio(map[string]any{"kind": "panic", "call": "OperationHashes"},
			"OperationHashes(height=%d, limit=%d, filter=%c) panicked: %s; pool index=%v", e.h, e.limit, e.flt, msg, before.live)
		x.lastObs = "query-panic"

		return vios
	case err != nil:
		vio(map[string]any{"kind": "error", "call": "OperationHashes"}, "OperationHashes(height=%d, limit=%d, filter=%c): %v", e.h, e.limit, e.flt, err)
		x.lastObs = "query-error"

		return vios
	}

	if x.check {
		vios = append(vios, c22kCheckAnswer(env, x.db, &x.m, before.live, e, res)...)
	}

	for i := range rejectedNow {
		if x.m.isAdded(i) {
			if _, already := x.m.gone[i]; !already {
				x.m.gone[i] = "rejected"
			}
		}
	}

	x.lastObs = fmt.Sprintf("query:n=%d/rej=%d/full=%v", len(res), rejects, uint64(len(res)) == e.limit)

	return vios
}

// c22kCheckAnswer: clauses (a)-(e) of the statement for one answer, against the model BEFORE the call.
func c22kCheckAnswer(env *c22Env, db *TempPool, m *c22kModel, index []int, e c22kEvent, res [][2]util.Hash) []c22Vio {
	var vios []c22Vio
	vio := func(sig map[string]any, format string, args ...any) {
		sig["unit"] = "clean"
		vios = append(vios, c22Vio{sig: sig, detail: fmt.Sprintf(format, args...)})
	}

	ctx := context.Background()

	var got []int

	for _, r := range res {
		i, ok := env.id[r[0].String()]
		if !ok {
			i = -1
		}

		got = append(got, i)
	}

	desc := fmt.Sprintf("OperationHashes(height=%d, limit=%d, filter=%c) on index %v (model %s) returned %v", e.h, e.limit, e.flt, index, m.key(), got)

	if uint64(len(res)) > e.limit {
		vio(map[string]any{"kind": "over-limit"}, "%s", desc)
	}

	seenop, seenfact := map[string]bool{}, map[string]bool{}

	for _, r := range res {
		if seenop[r[0].String()] {
			vio(map[string]any{"kind": "duplicate-operation-in-result"}, "%s", desc)
		}

		if seenfact[r[1].String()] && !seenop[r[0].String()] {
			vio(map[string]any{"kind": "duplicate-fact-in-result"}, "%s: two entries carry the same fact", desc)
		}

		seenop[r[0].String()], seenfact[r[1].String()] = true, true
	}

	for k, r := range res {
		i := got[k]
		if i < 0 {
			vio(map[string]any{"kind": "entry-not-stored", "what": "unknown-operation"}, "%s", desc)

			continue
		}

		switch _, _, body, found, err := db.OperationBytes(ctx, r[0]); {
		case err != nil, !found, len(body) < 1:
			vio(map[string]any{"kind": "entry-not-stored", "what": "no-body-in-leveldb"}, "%s: op%d found=%v err=%v", desc, i, found, err)
		default:
			switch op, found, err := db.Operation(ctx, r[0]); {
			case err != nil, !found:
				vio(map[string]any{"kind": "entry-not-stored", "what": "operation-lookup-fails"}, "%s: op%d found=%v err=%v", desc, i, found, err)
			case !op.Fact().Hash().Equal(r[1]):
				vio(map[string]any{"kind": "entry-fact-mismatch"}, "%s: op%d listed with a foreign fact", desc, i)
			}
		}

		if !m.isAdded(i) {
			vio(map[string]any{"kind": "entry-not-stored", "what": "not-in-pool"}, "%s: op%d was never added or was purged", desc, i)
		}

		if !env.accept(e.flt, i) {
			vio(map[string]any{"kind": "entry-fails-filter"}, "%s: op%d is rejected by the filter", desc, i)
		}

		if why, gone := m.gone[i]; gone {
			vio(map[string]any{"kind": why + "-returned-again"}, "%s: op%d was %s by an earlier call", desc, i, why)

			continue
		}

		latest := -1

		for _, j := range m.added {
			if _, gone := m.gone[j]; env.fact[j] == env.fact[i] && !gone && env.accept(e.flt, j) {
				latest = j
			}
		}

		if latest >= 0 && latest != i && env.accept(e.flt, i) {
			vio(map[string]any{
				"kind":           "older-duplicate-chosen",
				"newer_in_index": c22kContains(index, latest),
				"result_full":    uint64(len(res)) == e.limit,
			}, "%s: fact f%d is represented by op%d although op%d was added later (newer still in ordered index: %v)",
				desc, env.fact[i]+1, i, latest, c22kContains(index, latest))
		}
	}

	return vios
}

// c22kRoots: the search starts from the empty pool and from two pre-populated
// ones, so that removed marks of two heights (what the cleaner needs) exist
// within the depth of the quick tier.
func c22kRoots() [][]string {
	return [][]string{
		nil,
		{"S0", "S1", "S2", "S3"},
		{"S0", "S1", "S2", "S3", "Q33:10f", "R2@36"}, // op0, op1 filtered out at 33, op2 removed at 36, op3 live
	}
}

func TestVerifC22Clean(t *testing.T) {
	r := vlib.Start("C22")
	defer r.Finish()

	env := c22NewEnv(t)
	evs := c22kAlphabet()

	depth := vlib.Pick(r, 4, 16)                                        // thorough: until the state space is closed (level 10)
	if v := strings.TrimSpace(os.Getenv("VERIF_C22K_DEPTH")); v != "" { // tuning aid only; never set by run.sh
		fmt.Sscanf(v, "%d", &depth)
	}

	if _, replaying := r.Replaying(); replaying {
		depth = 64
	}

	r.Set("clean_depth", depth)
	r.Set("clean_alphabet", evs)
	r.Set("clean_alphabet_size", len(evs))
	r.Rule("unit clean: BFS over event histories (SetOperation of 4 operations = 2 facts x 2 signers; OperationHashes at height 33/36 with (limit,filter) in {(10,all),(10,reject f1),(10,reject all),(1,all),(2,reject op1)}; " +
		"setRemoveNewOperations of one operation at height 33/36; cleanRemovedNewOperations) from the empty pool and two pre-populated pools, on a fresh real TempPool with the operation cache; " +
		"states deduplicated on (ordered index, bodies, index records, removed marks with heights; model: known operations in add order, filtered-out/removed set): S/Q/R/C depend only on those leveldb records " +
		"(the cache is read by Operation() only, whose cached answers are not judged), so merged states have equal futures; non-trivial = a history containing the cleaner or a removal")

	if sh, nsh := r.Shard(); nsh > 1 && sh > 0 {
		r.Outcome("idle-shard")

		return
	}

	type result struct {
		key  string
		vios []c22Vio
		obs  string
	}

	run := func(path []string, checkAll bool) (res result) {
		x := c22kNewRunner(env)
		defer x.close()

		for k, ev := range path {
			x.check = checkAll || k == len(path)-1

			vs := x.apply(ev)
			if checkAll {
				res.vios = append(res.vios, vs...)
			} else {
				res.vios = vs
			}
		}

		res.key, res.obs = c22kSnapshot(env, x.db).key()+"#"+x.m.key(), x.lastObs

		return res
	}

	_, replaying := r.Replaying()
	seen := map[string]bool{}

	var frontier [][]string

	for _, root := range c22kRoots() {
		id := "clean/" + strings.Join(root, "/")

		res := run(root, true)

		for _, v := range res.vios {
			if !replaying || r.Want(id) {
				r.Violation(id, v.sig, v.detail, map[string]any{"events": root})
			}
		}

		if !seen[res.key] {
			seen[res.key] = true
			r.State("clean:" + res.key)
			frontier = append(frontier, root)
		}
	}

	const chunkStates = 256

	closed := false

levels:
	for level := 0; level < depth; level++ {
		var next [][]string

		for c0 := 0; c0 < len(frontier); c0 += chunkStates {
			c1 := c0 + chunkStates
			if c1 > len(frontier) {
				c1 = len(frontier)
			}

			if r.Expired() {
				r.Cap(fmt.Sprintf("clean: deadline at level %d, state %d/%d", level, c0, len(frontier)))

				break levels
			}

			type job struct {
				path []string
				id   string
			}

			var jobs []job

			for _, st := range frontier[c0:c1] {
				for _, ev := range evs {
					path := append(append([]string{}, st...), ev)
					id := "clean/" + strings.Join(path, "/")

					if !r.WantPrefix(id) {
						continue
					}

					jobs = append(jobs, job{path, id})
				}
			}

			results := make([]result, len(jobs))
			c22Parallel(len(jobs), func(i int) { results[i] = run(jobs[i].path, false) })

			for i, j := range jobs {
				res := results[i]

				if !replaying || r.Want(j.id) {
					r.Transition()
					r.Trace()
					r.Eval()
					r.Outcome("clean:" + res.obs)
					r.Max("clean_max_history", int64(len(j.path)))

					for _, ev := range j.path {
						if ev[0] == 'C' || ev[0] == 'R' {
							r.Nontrivial(j.id)

							break
						}
					}

					for _, v := range res.vios {
						r.Outcome("clean:violation:" + fmt.Sprint(v.sig["kind"]))
						r.Violation(j.id, v.sig, v.detail, map[string]any{"events": j.path})
					}
				}

				if seen[res.key] {
					continue
				}

				seen[res.key] = true

				if r.State("clean:"+res.key) && strings.Contains(res.obs, "purged=") && !strings.Contains(res.obs, "purged=0") {
					r.Sample(map[string]any{"history": j.id, "state": res.key, "last_observation": res.obs})
				}

				next = append(next, j.path)
			}
		}

		frontier = next
		r.Add(fmt.Sprintf("clean_new_states_at_level_%d", level+1), int64(len(frontier)))

		if len(frontier) == 0 {
			closed = true

			break
		}
	}

	// closed = no unexplored state is left: every history of ANY length over the alphabet leads to an explored state
	r.Set("clean_state_space_closed", closed)
}
