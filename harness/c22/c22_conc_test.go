//go:build verif

package isaacdatabase

import (
	"context"
	"fmt"
	"os"
	"sort"
	"strings"
	"testing"

	"github.com/spikeekips/mitum/base"
	"github.com/spikeekips/mitum/isaac"
	"github.com/spikeekips/mitum/util"
	"github.com/spikeekips/mitum/zzverif/vlib"
	"github.com/spikeekips/mitum/zzverif/vsched"
	"github.com/syndtr/goleveldb/leveldb"
	leveldbutil "github.com/syndtr/goleveldb/leveldb/util"
)

// C22 (concurrent unit, engine S): the operation pool hands out a valid,
// de-duplicated operation set under any interleaving of its callers.
//
// 2-3 threads x 1-2 calls of SetOperation (the SAME operation, two operations
// of one fact, operations of different facts), OperationHashes (with a limit
// and a filter), Operation/OperationBytes, setRemoveNewOperations and
// cleanRemovedNewOperations run on a REAL TempPool (in-memory leveldb, with
// the operation cache) under the controlled scheduler: every interleaving
// within the preemption bound. isaac/database/pool.go, storage/leveldb/db.go,
// util/worker.go (the job worker of setRemoveNewOperations) and util/lock.go
// are compiled with the scheduler shims: there is a scheduling point before
// every leveldb access of the pool, at every step of the removal job worker,
// and at the first action of the filter callback (the real filter of launch
// does database lookups there).
//
// Oracle = the property statement, read with real-time order (a call that
// returned before another one was called precedes it; overlapping calls may
// take effect in either order):
//
//	(I)   SetOperation is idempotent: two calls for one operation do not both report "added" (unless the
//	      cleaner could have purged it in between); "not added" needs an add that started earlier.
//	(II)  every OperationHashes answer: (a) at most L entries, (b) distinct operations and facts, (c) every entry
//	      was added by a call that started before the answer, its body is in leveldb at the instant of the
//	      answer, and it passes the filter, (d) no OTHER operation of the same fact whose add started after the
//	      add of the entry completed, and completed before this call started, is still un-removed (the most
//	      recently COMPLETED add wins, or a still running one), (e) an operation filtered out or removed by a
//	      call that completed before this call started is not handed out.
//	(III) Operation/OperationBytes find an operation whose add completed and never find one nobody adds.
//	(IV)  at quiescence a sequential OperationHashes(limit 10, accept all) satisfies (a)-(e) against the whole
//	      history and hands out every fact that has an operation nobody filtered out / removed / could have superseded.
//
// Fixtures are those of c22_test.go (operations) and c22_clean_test.go (pool
// with cache); this file uses the prefix c22c.

type c22cOp struct {
	kind  byte // S Q R C G
	op    int
	h     base.Height
	limit uint64
	flt   byte
}

func (o c22cOp) String() string {
	switch o.kind {
	case 'S':
		return fmt.Sprintf("S%d", o.op)
	case 'G':
		return fmt.Sprintf("G%d", o.op)
	case 'R':
		return fmt.Sprintf("R%d@%d", o.op, o.h)
	case 'Q':
		return fmt.Sprintf("Q%d:%d%c", o.h, o.limit, o.flt)
	}

	return "C"
}

type c22cFilt struct {
	op int
	ok bool
	at int
}

type c22cEvent struct {
	thread    int // -1 = initialisation (sequential, before the threads start)
	op        c22cOp
	call, ret int
	err       string
	added     bool         // S
	res       []int        // Q: operations handed out
	dupfact   bool         // Q: two entries with one fact
	badfact   bool         // Q: an entry listed with a foreign fact
	filt      []c22cFilt   // Q: what the filter was shown
	index     []int        // Q: ordered index at the instant of the answer
	body      map[int]bool // Q: body of a handed out operation in leveldb at the instant of the answer
	found     bool         // G: Operation()
	foundb    bool         // G: OperationBytes()
}

func (e c22cEvent) String() string {
	var r string

	switch e.op.kind {
	case 'S':
		r = fmt.Sprint(e.added)
	case 'Q':
		r = fmt.Sprint(e.res)
	case 'G':
		r = fmt.Sprintf("%v/%v", e.found, e.foundb)
	}

	if e.err != "" {
		r = "error:" + e.err
	}

	return fmt.Sprintf("T%d %s -> %s [call %d ret %d]", e.thread, e.op, r, e.call, e.ret)
}

type c22cScenario struct {
	name    string
	class   int // 0 small; 1 large (the removal job worker runs, 11k-15k executions at bound 2); 2 largest (17k-31k)
	init    []c22cOp
	threads [][]c22cOp
}

func (s c22cScenario) id() string {
	var ts []string

	for _, t := range s.threads {
		var xs []string
		for _, o := range t {
			xs = append(xs, o.String())
		}

		ts = append(ts, strings.Join(xs, ","))
	}

	var is []string
	for _, o := range s.init {
		is = append(is, o.String())
	}

	return fmt.Sprintf("%s|init=%s|%s", s.name, strings.Join(is, ","), strings.Join(ts, " || "))
}

// c22cRaw reads the pool's leveldb records through the raw goleveldb handle:
// no lock of the code under test, hence no scheduling point.
type c22cRaw struct {
	env *c22Env
	ldb *leveldb.DB
}

func (w c22cRaw) key(k []byte) []byte { return util.ConcatBytesSlice(leveldbLabelPool[:], k) }

func (w c22cRaw) index() (ops []int, nanos []int64) {
	it := w.ldb.NewIterator(leveldbutil.BytesPrefix(w.key(leveldbKeyPrefixNewOperationOrdered[:])), nil)
	defer it.Release()

	for it.Next() {
		meta, err := ReadFrameHeaderOperation(it.Value())
		if err != nil {
			panic(err)
		}

		i, ok := w.env.id[meta.Operation().String()]
		if !ok {
			i = -1
		}

		of, err := offsetFromLeveldbOperationOrderedKey(it.Key()[len(leveldbLabelPool):])
		if err != nil {
			panic(err)
		}

		nano, err := util.BytesToInt64(of)
		if err != nil {
			panic(err)
		}

		ops = append(ops, i)
		nanos = append(nanos, nano)
	}

	return ops, nanos
}

func (w c22cRaw) has(k []byte) bool {
	ok, err := w.ldb.Has(w.key(k), nil)
	if err != nil {
		panic(err)
	}

	return ok
}

func (w c22cRaw) state() string {
	idx, _ := w.index()

	var stored, info []int

	for i := 0; i < c22kNOps; i++ {
		if w.has(leveldbNewOperationKey(w.env.ops[i].Hash())) {
			stored = append(stored, i)
		}

		if w.has(leveldbNewOperationKeysKey(w.env.ops[i].Hash())) {
			info = append(info, i)
		}
	}

	return fmt.Sprintf("L%v|S%v|I%v", idx, stored, info)
}

type c22cFail struct {
	sig    map[string]any
	detail string
}

func c22cKnownShape(sig map[string]any) bool {
	return sig["kind"] == "older-duplicate-chosen" && sig["newer_in_index"] == true && sig["result_full"] == true
}

// c22cOracle judges one complete history (initialisation + threads + the probe at quiescence).
type c22cOracle struct {
	env   *c22Env
	evs   []c22cEvent
	fails []c22cFail
}

func (o *c22cOracle) fail(sig map[string]any, format string, args ...any) {
	sig["unit"] = "conc"
	o.fails = append(o.fails, c22cFail{sig: sig, detail: fmt.Sprintf(format, args...)})
}

func (o *c22cOracle) trueAdds(x int) []c22cEvent {
	var out []c22cEvent

	for _, e := range o.evs {
		if e.op.kind == 'S' && e.op.op == x && e.added {
			out = append(out, e)
		}
	}

	return out
}

type c22cRemoval struct {
	start, end int
	h          base.Height
	why        string // rejected | removed
}

// removals of x: a filter callback that returned false for x (from the callback to the return of that call),
// or setRemoveNewOperations of x.
func (o *c22cOracle) removals(x int) []c22cRemoval {
	var out []c22cRemoval

	for _, e := range o.evs {
		switch {
		case e.op.kind == 'R' && e.op.op == x:
			out = append(out, c22cRemoval{start: e.call, end: e.ret, h: e.op.h, why: "removed"})
		case e.op.kind == 'Q':
			for _, f := range e.filt {
				if f.op == x && !f.ok {
					out = append(out, c22cRemoval{start: f.at, end: e.ret, h: e.op.h, why: "rejected"})
				}
			}
		}
	}

	return out
}

// couldPurge: could the cleaner have purged x (removed by rm) by a call that returned after `after` and started before `before`?
// Needs a cleaner call in that window and some removal at a height >= 3 above (the cleaner keeps 3 heights).
func (o *c22cOracle) couldPurge(rm c22cRemoval, after, before int) bool {
	top := false

	for i := 0; i < c22NOps; i++ {
		for _, r := range o.removals(i) {
			if r.h >= rm.h+3 && r.start < before {
				top = true
			}
		}
	}

	if !top {
		return false
	}

	for _, e := range o.evs {
		if e.op.kind == 'C' && e.call < before && e.ret > after && e.ret > rm.start {
			return true
		}
	}

	return false
}

func (o *c22cOracle) purgedBetween(x, after, before int) bool {
	for _, rm := range o.removals(x) {
		if rm.start < before && o.couldPurge(rm, after, before) {
			return true
		}
	}

	return false
}

const c22cInf = 1 << 30

func (o *c22cOracle) judge() {
	for _, e := range o.evs {
		if e.err != "" {
			o.fail(map[string]any{"kind": "error", "call": string(e.op.kind)}, "%s", e)
		}
	}

	// (I) idempotent add
	for x := 0; x < c22NOps; x++ {
		adds := o.trueAdds(x)

		for i := 0; i < len(adds); i++ {
			for j := i + 1; j < len(adds); j++ {
				a, b := adds[i], adds[j]
				if b.call < a.call {
					a, b = b, a
				}

				if o.purgedBetween(x, a.call, b.ret) {
					continue
				}

				what := "reported-added-again"
				if b.call < a.ret {
					what = "overlapping-adds-of-one-operation-both-reported-added"
				}

				o.fail(map[string]any{"kind": "set-not-idempotent", "what": what}, "SetOperation(op%d) reported \"added\" twice: %s; %s", x, a, b)
			}
		}

		for _, e := range o.evs {
			if e.op.kind != 'S' || e.op.op != x || e.added || e.err != "" {
				continue
			}

			ok := false

			for _, a := range adds {
				if a.call < e.ret {
					ok = true
				}
			}

			if !ok {
				o.fail(map[string]any{"kind": "set-wrong-result", "what": "new-operation-refused"}, "%s although nobody added op%d before", e, x)
			}
		}
	}

	// (II) and (IV) every answer
	for _, e := range o.evs {
		if e.op.kind == 'Q' && e.err == "" {
			o.judgeAnswer(e)
		}
	}

	// (III) lookups
	for _, e := range o.evs {
		if e.op.kind != 'G' || e.err != "" {
			continue
		}

		x := e.op.op
		started, completed := false, false

		for _, a := range o.trueAdds(x) {
			if a.call < e.ret {
				started = true
			}

			if a.ret < e.call && !o.purgedBetween(x, a.call, e.ret) {
				completed = true
			}
		}

		switch {
		case (e.found || e.foundb) && !started:
			o.fail(map[string]any{"kind": "lookup-finds-operation-nobody-added"}, "%s", e)
		case completed && !e.found:
			o.fail(map[string]any{"kind": "lookup-misses-stored-operation", "call": "Operation"}, "%s", e)
		case completed && !e.foundb:
			o.fail(map[string]any{"kind": "lookup-misses-stored-operation", "call": "OperationBytes"}, "%s", e)
		}
	}
}

func (o *c22cOracle) judgeAnswer(q c22cEvent) {
	env := o.env
	probe := q.thread == -2

	if uint64(len(q.res)) > q.op.limit {
		o.fail(map[string]any{"kind": "over-limit"}, "%s", q)
	}

	seen := map[int]bool{}

	for _, x := range q.res {
		if seen[x] {
			o.fail(map[string]any{"kind": "duplicate-operation-in-result"}, "%s", q)
		}

		seen[x] = true
	}

	if q.dupfact {
		o.fail(map[string]any{"kind": "duplicate-fact-in-result"}, "%s", q)
	}

	if q.badfact {
		o.fail(map[string]any{"kind": "entry-fact-mismatch"}, "%s", q)
	}

	for _, x := range q.res {
		if x < 0 {
			o.fail(map[string]any{"kind": "entry-not-stored", "what": "unknown-operation"}, "%s", q)

			continue
		}

		adds := o.trueAdds(x)
		rms := o.removals(x)

		// (c) stored
		started := false

		for _, a := range adds {
			if a.call < q.ret {
				started = true
			}
		}

		if !started {
			o.fail(map[string]any{"kind": "entry-not-stored", "what": "never-added"}, "%s: nobody added op%d before the answer", q, x)
		}

		if !q.body[x] && !o.purgedBetween(x, -1, q.ret) {
			o.fail(map[string]any{"kind": "entry-not-stored", "what": "no-body-in-leveldb"}, "%s: op%d has no body in leveldb at the instant of the answer", q, x)
		}

		// (c) passes the filter
		if !env.accept(q.op.flt, x) {
			o.fail(map[string]any{"kind": "entry-fails-filter"}, "%s: op%d", q, x)
		}

		// (e) filtered out / removed before this call started, and not added anew after a purge
		for _, rm := range rms {
			if rm.end >= q.call {
				continue
			}

			readded := false

			for _, a := range adds {
				if a.ret > rm.start && a.call < q.ret && o.purgedBetween(x, rm.start, a.ret) {
					readded = true
				}
			}

			if !readded {
				o.fail(map[string]any{"kind": rm.why + "-returned-again", "probe": probe},
					"%s: op%d was %s by a call that completed at %d, before this call started", q, x, rm.why, rm.end)

				break
			}
		}

		// (d) the most recently completed add of the fact wins
		for y := 0; y < c22NOps; y++ {
			if y == x || env.fact[y] != env.fact[x] || !env.accept(q.op.flt, y) || len(o.removals(y)) > 0 {
				continue
			}

			newer := false

			for _, ay := range o.trueAdds(y) {
				if ay.ret >= q.call {
					continue
				}

				after := len(adds) > 0

				for _, ax := range adds {
					if ax.ret >= ay.call {
						after = false
					}
				}

				if after {
					newer = true
				}
			}

			if newer {
				inindex := c22kContains(q.index, y)

				o.fail(map[string]any{
					"kind":           "older-duplicate-chosen",
					"newer_in_index": inindex,
					"result_full":    uint64(len(q.res)) == q.op.limit,
				}, "%s: fact f%d is represented by op%d although the add of op%d started after that of op%d had completed, completed before this call started and op%d was never filtered out or removed (newer in ordered index at the answer %v: %v)",
					q, env.fact[x]+1, x, y, x, y, q.index, inindex)
			}
		}
	}

	if !probe {
		return
	}

	// (IV) completeness at quiescence
	for f := 0; f < c22NOps/2; f++ {
		handed := false

		for _, x := range q.res {
			if x >= 0 && env.fact[x] == f {
				handed = true
			}
		}

		if handed {
			continue
		}

		for x := 0; x < c22NOps; x++ {
			if env.fact[x] != f || len(o.trueAdds(x)) < 1 || len(o.removals(x)) > 0 {
				continue
			}

			// x was added and never filtered out / removed; an operation of the same fact that was, may have superseded x
			// (the older duplicate is dropped) unless it is strictly older than x
			must := true

			for y := 0; y < c22NOps; y++ {
				if y == x || env.fact[y] != f || len(o.trueAdds(y)) < 1 || len(o.removals(y)) < 1 {
					continue
				}

				for _, ay := range o.trueAdds(y) {
					for _, ax := range o.trueAdds(x) {
						if ay.ret >= ax.call {
							must = false
						}
					}
				}
			}

			if must {
				o.fail(map[string]any{"kind": "quiescent-operation-lost"},
					"%s: fact f%d is not handed out at quiescence although op%d was added and never filtered out or removed", q, f+1, x)

				break
			}
		}
	}
}

// pick: one failure per execution; a failure that is not of the known shape goes first.
func (o *c22cOracle) pick() *c22cFail {
	for i := range o.fails {
		if !c22cKnownShape(o.fails[i].sig) {
			return &o.fails[i]
		}
	}

	if len(o.fails) > 0 {
		return &o.fails[0]
	}

	return nil
}

type c22cFound struct {
	choices string
	fail    c22cFail
}

type c22cCollector struct {
	bySig map[string][]c22cFound
	order []string
}

func (c *c22cCollector) add(choices []int, f c22cFail) {
	k := vlib.SigString(f.sig)
	if _, ok := c.bySig[k]; !ok {
		c.order = append(c.order, k)
	}

	if len(c.bySig[k]) < 2 {
		c.bySig[k] = append(c.bySig[k], c22cFound{choices: vsched.ChoicesString(choices), fail: f})
	}
}

func c22cBuild(env *c22Env, s c22cScenario, col *c22cCollector) vsched.Scenario {
	db, st := c22kNewPool(env)
	raw := c22cRaw{env: env, ldb: st.DB()}
	ctx := context.Background()

	var evs []c22cEvent
	var clock int

	tick := func() int { clock++; return clock }

	do := func(thread int, o c22cOp) {
		e := c22cEvent{thread: thread, op: o, call: tick()}

		switch o.kind {
		case 'S':
			added, err := db.SetOperation(ctx, env.ops[o.op])
			e.added = added

			if err != nil {
				e.err = err.Error()
			}
		case 'G':
			h := env.ops[o.op].Hash()

			op, found, err := db.Operation(ctx, h)
			if err != nil {
				e.err = err.Error()
			}

			e.found = found && op != nil && op.Hash().Equal(h)

			_, _, body, foundb, err := db.OperationBytes(ctx, h)
			if err != nil {
				e.err = err.Error()
			}

			e.foundb = foundb && len(body) > 0
		case 'R':
			if err := db.setRemoveNewOperations(ctx, o.h, []util.Hash{env.ops[o.op].Hash()}); err != nil {
				e.err = err.Error()
			}
		case 'C':
			if _, err := db.cleanRemovedNewOperations(); err != nil {
				e.err = err.Error()
			}
		case 'Q':
			filter := func(meta isaac.PoolOperationRecordMeta) (bool, error) {
				vsched.Point("filter", nil) // the filter of launch looks the operation up in the databases (locks)

				i, ok := env.id[meta.Operation().String()]
				if !ok {
					return false, fmt.Errorf("filter called with an unknown operation")
				}

				if f, ok := env.fid[meta.Fact().String()]; !ok || f != env.fact[i] {
					return false, fmt.Errorf("filter called with a wrong fact for op%d", i)
				}

				ok = env.accept(o.flt, i)
				e.filt = append(e.filt, c22cFilt{op: i, ok: ok, at: tick()})

				return ok, nil
			}

			res, err := db.OperationHashes(ctx, o.h, o.limit, filter)
			if err != nil {
				e.err = err.Error()
			}

			// no scheduling point from here to the end of the event: the raw reads are the instant of the answer
			e.index, _ = raw.index()
			e.body = map[int]bool{}
			facts := map[string]bool{}

			for _, r := range res {
				i, ok := env.id[r[0].String()]
				if !ok {
					i = -1
				}

				e.res = append(e.res, i)

				if facts[r[1].String()] {
					e.dupfact = true
				}

				facts[r[1].String()] = true

				if i >= 0 {
					e.body[i] = raw.has(leveldbNewOperationKey(r[0]))

					if !r[1].Equal(env.ops[i].Fact().Hash()) {
						e.badfact = true
					}
				}
			}
		}

		e.ret = tick()
		evs = append(evs, e)
	}

	// initialisation: sequential, outside the controlled execution
	{
		setter := &c22Runner{env: env, db: db}

		for _, o := range s.init {
			if o.kind != 'S' {
				do(-1, o)

				continue
			}

			e := c22cEvent{thread: -1, op: o, call: tick()}

			added, err := setter.setOperation(o.op) // strictly increasing added-at time
			if err != nil || !added {
				panic(fmt.Sprintf("init %s: added=%v err=%v", o, added, err))
			}

			e.added = true
			e.ret = tick()
			evs = append(evs, e)
		}
	}

	var roots []func()

	for ti, ops := range s.threads {
		ti, ops := ti, ops

		roots = append(roots, func() {
			for _, o := range ops {
				do(ti, o)
			}
		})
	}

	hist := func() string {
		sorted := append([]c22cEvent{}, evs...)
		sort.Slice(sorted, func(i, j int) bool { return sorted[i].call < sorted[j].call })

		var xs []string
		for _, e := range sorted {
			xs = append(xs, e.String())
		}

		return strings.Join(xs, "; ")
	}

	var outcome string

	return vsched.Scenario{
		Roots:   roots,
		Outcome: func(*vsched.Exec) string { return outcome },
		Check: func(x *vsched.Exec) *vsched.Fail {
			defer func() { _ = db.DeepClose() }()

			ret := func(f c22cFail) *vsched.Fail {
				col.add(x.Choices(), f)

				return &vsched.Fail{Sig: f.sig, Detail: f.detail}
			}

			if x.Panic != nil {
				outcome = "panic"
				cls := "other"

				if strings.Contains(fmt.Sprint(x.Panic), "index out of range") {
					cls = "index-out-of-range"
				}

				return ret(c22cFail{sig: map[string]any{"kind": "panic", "unit": "conc", "panic": cls},
					detail: fmt.Sprintf("%v\n%s\nhistory: %s | scenario %s", x.Panic, x.PanicStack, hist(), s.id())})
			}

			if x.Deadlock {
				outcome = "deadlock"

				return ret(c22cFail{sig: map[string]any{"kind": "deadlock", "unit": "conc"},
					detail: strings.Join(x.Blocked, ";") + " | history: " + hist() + " | scenario " + s.id()})
			}

			// the harness trusts the added-at clock: adds that do not overlap get increasing ordered keys
			{
				idx, nanos := raw.index()

				for i := 1; i < len(nanos); i++ {
					if nanos[i] == nanos[i-1] {
						panic(fmt.Sprintf("harness assumption broken: two ordered keys with one added-at time: %v %v", idx, nanos))
					}
				}
			}

			quiescent := raw.state()

			// (IV) the probe at quiescence (sequential; the filter's scheduling point is a no-op outside the execution)
			do(-2, c22cOp{kind: 'Q', h: 33, limit: 10, flt: 'a'})

			{
				per := map[int][]string{}

				for _, e := range evs {
					if e.thread < 0 {
						continue
					}

					switch e.op.kind {
					case 'S':
						per[e.thread] = append(per[e.thread], fmt.Sprint(e.added))
					case 'Q':
						per[e.thread] = append(per[e.thread], fmt.Sprint(e.res))
					case 'G':
						per[e.thread] = append(per[e.thread], fmt.Sprintf("%v/%v", e.found, e.foundb))
					}
				}

				var xs []string
				for ti := range s.threads {
					xs = append(xs, strings.Join(per[ti], ","))
				}

				outcome = strings.Join(xs, "|") + " probe " + fmt.Sprint(evs[len(evs)-1].res) + "=>" + quiescent
			}

			o := &c22cOracle{env: env, evs: evs}
			o.judge()

			if f := o.pick(); f != nil {
				f.detail += " | history: " + hist() + " | leveldb at quiescence " + quiescent + " | scenario " + s.id()

				return ret(*f)
			}

			return nil
		},
	}
}

func c22cScenarios() []c22cScenario {
	S := func(i int) c22cOp { return c22cOp{kind: 'S', op: i} }
	G := func(i int) c22cOp { return c22cOp{kind: 'G', op: i} }
	R := func(i int, h base.Height) c22cOp { return c22cOp{kind: 'R', op: i, h: h} }
	Q := func(h base.Height, l uint64, f byte) c22cOp { return c22cOp{kind: 'Q', h: h, limit: l, flt: f} }
	C := c22cOp{kind: 'C'}

	type T = [][]c22cOp

	// op0=(f1,a) op1=(f1,b) op2=(f2,a) op3=(f2,b); filters: a all, f reject fact f1, o reject op1, n reject all.
	// Whenever setRemoveNewOperations runs (a filter rejects, an older duplicate is dropped, R) its job worker adds 2-3
	// daemon threads and ~25 scheduling points, and every blocking point of a daemon is a free choice of the explorer.
	// class 1 = the three scenarios of 11k-15k executions at bound 2 (110k-150k at bound 3), class 2 = the four of
	// 17k-31k (200k-330k at bound 3). Preemption bounds: class 0: 2 quick / 3 thorough; class 1: 1 / 3; class 2: 1 / 2.
	// Order: small scenarios first (a deadline on a loaded machine cuts the large ones, reported as not exhaustive),
	// the seven large ones last and on different shards.
	return []c22cScenario{
		// adders of the SAME operation
		{"same-op-adders-reader", 0, nil, T{{S(0)}, {S(0)}, {Q(33, 10, 'a')}}},
		{"same-op-adders-read-back", 0, nil, T{{S(0), Q(33, 10, 'a')}, {S(0), Q(33, 10, 'a')}}},
		{"same-op-adders-lookup", 0, nil, T{{S(0), G(0)}, {S(0)}, {G(0)}}},
		// an adder against readers and lookups
		{"adder-rejecting-reader", 0, nil, T{{S(0)}, {Q(33, 10, 'n')}}},
		{"adder-lookup-reader", 0, nil, T{{S(0)}, {G(0)}, {Q(33, 10, 'a')}}},
		// adders of two operations of ONE fact, of different facts, a reader with a limit
		{"same-fact-adders-reader", 0, nil, T{{S(0)}, {S(1)}, {Q(33, 10, 'a')}}},
		{"different-facts-adders-limit-1", 0, nil, T{{S(0)}, {S(2)}, {Q(33, 1, 'a')}}},
		{"different-facts-adders-limit-1-twice", 0, nil, T{{S(0), S(2)}, {Q(33, 1, 'a'), Q(33, 1, 'a')}}},
		{"mixed-adders-limit-2", 0, nil, T{{S(0), S(2)}, {S(3), S(1)}, {Q(33, 2, 'a')}}},
		{"same-fact-adder-limit-1-then-all", 0, []c22cOp{S(0)}, T{{S(1)}, {Q(33, 1, 'a'), Q(33, 10, 'a')}}},
		{"two-limited-readers-duplicates", 0, []c22cOp{S(0), S(2), S(1)}, T{{Q(33, 1, 'a')}, {Q(33, 2, 'a')}}},
		{"same-fact-adder-lookup-rejecting-reader", 0, []c22cOp{S(0)}, T{{S(1), G(1)}, {Q(33, 10, 'o')}}},
		// the cleaner against a re-adder
		{"cleaner-readder-reader", 0, []c22cOp{S(0), S(2), R(0, 33), R(2, 36)}, T{{C}, {S(0)}, {Q(36, 10, 'a')}}},
		{"cleaner-readder-lookup", 0, []c22cOp{S(0), S(2), R(0, 33), R(2, 36)}, T{{C}, {S(0), G(0)}, {G(0)}}},
		// filtering readers, the removal function, the cleaner against a filtering reader (large)
		{"rejecting-and-accepting-readers", 1, []c22cOp{S(0), S(2)}, T{{Q(33, 10, 'f')}, {Q(33, 10, 'a')}}},
		{"remover-reader", 1, []c22cOp{S(0), S(2)}, T{{R(0, 33)}, {Q(33, 10, 'a')}}},
		{"cleaner-vs-rejecting-then-accepting-reader", 1, []c22cOp{S(0), S(2), R(0, 33)}, T{{C}, {Q(36, 10, 'n'), Q(36, 10, 'a')}}},
		{"cleaner-then-readd-vs-rejecting-reader", 2, []c22cOp{S(0), S(1), S(2), R(0, 33)}, T{{C, S(0)}, {Q(36, 10, 'o')}}},
		{"reject-all-then-accept-all-vs-adder", 2, []c22cOp{S(0)}, T{{Q(33, 10, 'n'), Q(33, 10, 'a')}, {S(1)}}},
		{"same-op-adders-rejecting-reader", 2, nil, T{{S(0)}, {S(0)}, {Q(33, 10, 'n')}}},
		{"remover-same-fact-adder", 2, []c22cOp{S(0)}, T{{R(0, 33)}, {S(1), S(0)}}},
	}
}

func TestVerifC22Conc(t *testing.T) {
	r := vlib.Start("C22")
	defer r.Finish()

	r.Rule("unit conc: scenario = 2-3 threads x 1-2 calls of SetOperation (same operation / same fact / different facts), OperationHashes (limit, filter), Operation+OperationBytes, " +
		"setRemoveNewOperations, cleanRemovedNewOperations on a fresh real TempPool (optionally pre-populated); all interleavings within the preemption bound " +
		"(scheduling point before every leveldb access, at every step of the removal job worker and in the filter callback); oracle = the statement read with real-time order, plus a sequential probe at quiescence; " +
		"states = distinct (scenario, outcome); non-trivial = a scenario with more than one outcome")
	r.Assume("unit conc: the added-at clock (util/localtime, real time) gives different nanoseconds to SetOperation calls of one execution (verified on the ordered keys at quiescence)")

	bounds := vlib.Pick(r, [3]int{2, 1, 1}, [3]int{3, 3, 2}) // by scenario class
	if v := os.Getenv("VERIF_C22C_BOUND"); v != "" {         // tuning aid only; never set by run.sh
		var b int
		fmt.Sscanf(v, "%d", &b)
		bounds = [3]int{b, b, b}
	}

	only := os.Getenv("VERIF_C22C_ONLY") // tuning aid only; never set by run.sh

	r.Set("conc_preemption_bound_small_large_largest", bounds)

	env := c22NewEnv(t)
	scs := c22cScenarios()
	r.Set("conc_scenarios_enumerated", len(scs))

	for i, s := range scs {
		if !r.Mine(i) || r.Expired() {
			continue
		}

		if only != "" && !strings.HasPrefix(s.name, only) {
			continue
		}

		s := s
		id := "conc/" + s.id()

		col := &c22cCollector{bySig: map[string][]c22cFound{}}
		build := func() vsched.Scenario { return c22cBuild(env, s, col) }

		if rid, rp := r.Replaying(); rp {
			k := strings.LastIndex(rid, "#")
			if k < 0 || rid[:k] != id {
				continue
			}

			sc := build()
			x := vsched.Run(vsched.Options{Prefix: vsched.ParseChoices(rid[k+1:])}, sc.Roots...)
			r.Trace()

			if f := sc.Check(x); f != nil {
				r.Violation(rid, f.Sig, f.Detail, nil)
			}

			continue
		}

		if dbg := os.Getenv("VERIF_C22C_DEBUG"); dbg != "" && strings.HasPrefix(dbg, id+"#") { // debugging aid only
			sc := build()
			x := vsched.Run(vsched.Options{Prefix: vsched.ParseChoices(dbg[len(id)+1:]), Log: true}, sc.Roots...)
			fmt.Println(strings.Join(x.Log, "\n"))
			fmt.Println(sc.Check(x))

			continue
		}

		bnd := bounds[s.class]

		res := vsched.Explore(vsched.Config{Name: id, Bound: bnd, Build: build, Expired: r.Expired, MaxFound: 1, Horizon: 5000})
		if res.EngineError != "" {
			panic("engine error in " + id + ": " + res.EngineError)
		}

		r.TraceN(res.Executions)
		r.TransitionN(res.Points)
		r.EvalN(res.Executions)
		r.Add("conc_scenarios", 1)

		if res.Capped != "" {
			r.Cap("conc: " + res.Capped + " in " + s.name)
		}

		r.Min([]string{"conc_preemption_bound_completed_small", "conc_preemption_bound_completed_large",
			"conc_preemption_bound_completed_largest"}[s.class], int64(res.BoundCompleted))

		r.Max("conc_max_points_per_execution", int64(res.MaxPoints))

		if len(res.Outcomes) > 1 {
			r.Nontrivial(id)
		}

		for o := range res.Outcomes {
			r.State(id + "=>" + o)

			if !strings.HasPrefix(o, "FAIL:") {
				r.Outcome("conc:" + s.name + ":" + strings.SplitN(o, "=>", 2)[0])
			}
		}

		for _, k := range col.order {
			for _, f := range col.bySig[k] {
				r.Violation(id+"#"+f.choices, f.fail.sig, f.fail.detail, nil)
			}
		}

		r.Sample(map[string]any{"scenario": id, "executions": res.Executions, "distinct_outcomes": len(res.Outcomes),
			"max_points": res.MaxPoints, "bound_completed": res.BoundCompleted})
	}
}
