//go:build verif

package isaacdatabase

import (
	"fmt"
	"os"
	"sort"
	"strings"
	"testing"

	"github.com/spikeekips/mitum/zzverif/vlib"
	"github.com/spikeekips/mitum/zzverif/vsched"
)

// C24 (concurrent half, engine S): ballot and proposal pools are
// first-writer-wins and consistent under any interleaving of their callers.
//
// 2-3 threads x 1-2 calls of SetBallot / Ballot / SetProposal / Proposal /
// ProposalByPoint on one colliding key and one other key, optionally a cleanup
// thread (cleanBallots / cleanProposals), run on a REAL TempPool (in-memory
// leveldb) under the controlled scheduler: every interleaving within the
// preemption bound. storage/leveldb/db.go is instrumented, so every leveldb
// Get / Has / Put / Iter / Write of the pool is preceded by a scheduling point
// (the storage's RLock); goleveldb itself runs as an atomic step.
//
// Oracle: the recorded call/return history is linearizable (brute force over
// all orders consistent with real time, <= 6 calls) against the
// first-writer-wins model, and the leveldb records at quiescence equal the
// model's final state of that linearization. A cleanup may, at its
// linearization point, remove any subset of the entries that are at least the
// configured depth (3) below the newest height - and nothing else.
//
// The fixtures (ballots, proposals, direct leveldb readers) are the ones of the
// sequential half (c24_seq_test.go, prefix c24q); this file uses prefix c24c.

type c24cOp struct {
	kind string // SB GB SP GP GPP CB CP
	key  string // slot / position / fact name
	v    string // variant: ballot A|B, proposal signing s1|s2
}

func (o c24cOp) String() string {
	switch o.kind {
	case "SB", "SP":
		return fmt.Sprintf("%s(%s:%s)", o.kind, o.key, o.v)
	case "CB", "CP":
		return o.kind
	}

	return fmt.Sprintf("%s(%s)", o.kind, o.key)
}

type c24cEvent struct {
	thread    int
	op        c24cOp
	call, ret int
	res       string
}

type c24cScenario struct {
	name    string
	family  string   // ballot | proposal | mixed
	init    []c24cOp // SB / SP applied before the threads start
	threads [][]c24cOp
}

func (s c24cScenario) id() string {
	var ts []string

	for _, t := range s.threads {
		var xs []string
		for _, o := range t {
			xs = append(xs, o.String())
		}

		ts = append(ts, strings.Join(xs, ","))
	}

	var is []string
	for _, o := range s.init {
		is = append(is, o.String())
	}

	return fmt.Sprintf("%s|init=%s|%s", s.name, strings.Join(is, ","), strings.Join(ts, " || "))
}

// ---- the sequential specification

type c24cModel struct {
	ballots map[string]string // slot -> variant
	records map[string]string // fact -> proposal name (the signing kept)
	bypoint map[string]string // position -> fact
}

func c24cNewModel() *c24cModel {
	return &c24cModel{ballots: map[string]string{}, records: map[string]string{}, bypoint: map[string]string{}}
}

func (m *c24cModel) clone() *c24cModel {
	c := c24cNewModel()

	for k, v := range m.ballots {
		c.ballots[k] = v
	}

	for k, v := range m.records {
		c.records[k] = v
	}

	for k, v := range m.bypoint {
		c.bypoint[k] = v
	}

	return c
}

func (m *c24cModel) final() string {
	return "B{" + c24qSortedKV(m.ballots) + "}P{" + c24qSortedKV(m.records) + "}I{" + c24qSortedKV(m.bypoint) + "}"
}

const c24cDeep = 3

// apply returns the possible (result, next model) pairs of op in the sequential model.
func (m *c24cModel) apply(env *c24qEnv, o c24cOp) []struct {
	res string
	m   *c24cModel
} {
	type rm = struct {
		res string
		m   *c24cModel
	}

	switch o.kind {
	case "SB":
		if _, ok := m.ballots[o.key]; ok {
			return []rm{{"false", m}}
		}

		c := m.clone()
		c.ballots[o.key] = o.v

		return []rm{{"true", c}}
	case "GB":
		if v, ok := m.ballots[o.key]; ok {
			return []rm{{v, m}}
		}

		return []rm{{"none", m}}
	case "SP":
		fact := o.key + ":f"
		if _, ok := m.records[fact]; ok {
			return []rm{{"false", m}}
		}

		c := m.clone()
		c.records[fact] = o.key + ":" + o.v
		c.bypoint[o.key] = fact

		return []rm{{"true", c}}
	case "GP":
		if v, ok := m.records[o.key+":f"]; ok {
			return []rm{{v, m}}
		}

		return []rm{{"none", m}}
	case "GPP":
		if f, ok := m.bypoint[o.key]; ok {
			if v, ok := m.records[f]; ok {
				return []rm{{v, m}}
			}
		}

		return []rm{{"none", m}}
	case "CB", "CP":
		// any subset of the entries at least c24cDeep below the newest height
		var eligible []string

		top := int64(-1)

		if o.kind == "CB" {
			for s := range m.ballots {
				if h := int64(env.slots[env.slotIndex[s]].sp.Height()); h > top {
					top = h
				}
			}

			for s := range m.ballots {
				if int64(env.slots[env.slotIndex[s]].sp.Height()) <= top-c24cDeep {
					eligible = append(eligible, s)
				}
			}
		} else {
			for p := range m.bypoint {
				if h := int64(env.poss[env.poss2index(p)].point.Height()); h > top {
					top = h
				}
			}

			for p := range m.bypoint {
				if int64(env.poss[env.poss2index(p)].point.Height()) <= top-c24cDeep {
					eligible = append(eligible, p)
				}
			}
		}

		sort.Strings(eligible)

		var out []rm

		for mask := 0; mask < 1<<len(eligible); mask++ {
			c := m.clone()

			for i, k := range eligible {
				if mask&(1<<i) == 0 {
					continue
				}

				if o.kind == "CB" {
					delete(c.ballots, k)
				} else {
					delete(c.records, c.bypoint[k])
					delete(c.bypoint, k)
				}
			}

			out = append(out, rm{"", c})
		}

		return out
	}

	panic("unknown op " + o.kind)
}

// c24cLinearizable: brute force over all total orders consistent with real time.
func c24cLinearizable(env *c24qEnv, init *c24cModel, evs []c24cEvent, final string) bool {
	n := len(evs)
	used := make([]bool, n)

	var rec func(md *c24cModel, done int) bool

	rec = func(md *c24cModel, done int) bool {
		if done == n {
			return md.final() == final
		}

		for i := 0; i < n; i++ {
			if used[i] {
				continue
			}

			// i may go next only if no unused event returned before i was called
			ok := true

			for j := 0; j < n; j++ {
				if j != i && !used[j] && evs[j].ret < evs[i].call {
					ok = false

					break
				}
			}

			if !ok {
				continue
			}

			for _, alt := range md.apply(env, evs[i].op) {
				if alt.res != evs[i].res {
					continue
				}

				used[i] = true

				if rec(alt.m, done+1) {
					used[i] = false

					return true
				}

				used[i] = false
			}
		}

		return false
	}

	return rec(init, 0)
}

// ---- running the real pool

func c24cDo(env *c24qEnv, db *TempPool, o c24cOp) string {
	switch o.kind {
	case "SB":
		slot := env.slots[env.slotIndex[o.key]]

		added, err := db.SetBallot(slot.ballots[map[string]int{"A": 0, "B": 1}[o.v]])
		if err != nil {
			return "error:" + err.Error()
		}

		return fmt.Sprint(added)
	case "GB":
		slot := env.slots[env.slotIndex[o.key]]

		switch bl, found, err := db.Ballot(slot.sp.Point, slot.sp.Stage(), slot.confirm); {
		case err != nil:
			return "error:" + err.Error()
		case !found:
			return "none"
		default:
			name, ok := env.ballotBy[c24qIdent(bl.SignFact())]
			if !ok || !strings.HasPrefix(name, o.key+":") {
				return "foreign:" + name
			}

			return name[len(o.key)+1:]
		}
	case "SP":
		for i := range env.proposals {
			if env.proposals[i].name == o.key+":"+o.v {
				added, err := db.SetProposal(env.proposals[i].pr)
				if err != nil {
					return "error:" + err.Error()
				}

				return fmt.Sprint(added)
			}
		}

		panic("unknown proposal " + o.String())
	case "GP":
		switch pr, found, err := db.Proposal(env.factHash[o.key+":f"]); {
		case err != nil:
			return "error:" + err.Error()
		case !found:
			return "none"
		default:
			i, ok := env.proposalBy[c24qIdent(pr)]
			if !ok {
				return "foreign"
			}

			return env.proposals[i].name
		}
	case "GPP":
		pos := env.poss[env.poss2index(o.key)]

		switch pr, found, err := db.ProposalByPoint(pos.point, pos.proposer, pos.prev); {
		case err != nil:
			return "error:" + err.Error()
		case !found:
			return "none"
		default:
			i, ok := env.proposalBy[c24qIdent(pr)]
			if !ok {
				return "foreign"
			}

			return env.proposals[i].name
		}
	case "CB":
		if _, err := db.cleanBallots(); err != nil {
			return "error:" + err.Error()
		}

		return ""
	case "CP":
		if _, err := db.cleanProposals(); err != nil {
			return "error:" + err.Error()
		}

		return ""
	}

	panic("unknown op " + o.kind)
}

func c24cBuild(env *c24qEnv, s c24cScenario) vsched.Scenario {
	db := env.newPool(c24cDeep)

	initm := c24cNewModel()

	for _, o := range s.init {
		if res := c24cDo(env, db, o); res != "true" {
			panic("init " + o.String() + " -> " + res)
		}

		alts := initm.apply(env, o)
		initm = alts[0].m
	}

	var evs []c24cEvent
	var clock int

	tick := func() int { clock++; return clock }

	var roots []func()

	for ti, ops := range s.threads {
		ti, ops := ti, ops

		roots = append(roots, func() {
			for _, o := range ops {
				call := tick()
				res := c24cDo(env, db, o)
				evs = append(evs, c24cEvent{thread: ti, op: o, call: call, ret: tick(), res: res})
			}
		})
	}

	hist := func() string {
		sorted := append([]c24cEvent{}, evs...)
		sort.Slice(sorted, func(i, j int) bool { return sorted[i].call < sorted[j].call })

		var sb strings.Builder
		for _, e := range sorted {
			fmt.Fprintf(&sb, "T%d %s -> %q [call %d ret %d]; ", e.thread, e.op, e.res, e.call, e.ret)
		}

		return sb.String()
	}

	final := func() string {
		bl, _ := env.realBallots(db, false)
		pr, _ := env.realProposals(db)

		return "B{" + c24qSortedKV(bl) + "}P{" + c24qSortedKV(pr.records) + "}I{" + c24qSortedKV(pr.bypoint) + "}"
	}

	var fin string // leveldb records at quiescence; read by Check (which runs first and closes the pool)

	return vsched.Scenario{
		Roots: roots,
		Outcome: func(*vsched.Exec) string {
			sorted := append([]c24cEvent{}, evs...)
			sort.Slice(sorted, func(i, j int) bool {
				if sorted[i].thread != sorted[j].thread {
					return sorted[i].thread < sorted[j].thread
				}

				return sorted[i].call < sorted[j].call
			})

			var xs []string
			for _, e := range sorted {
				xs = append(xs, e.res)
			}

			return strings.Join(xs, ",") + "=>" + fin
		},
		Check: func(x *vsched.Exec) *vsched.Fail {
			defer func() { _ = db.DeepClose() }()

			fin = final()

			if x.Panic != nil {
				return &vsched.Fail{Sig: map[string]any{"kind": "panic", "half": "concurrent"}, Detail: fmt.Sprintf("%v\n%s", x.Panic, x.PanicStack)}
			}

			if x.Deadlock {
				return &vsched.Fail{Sig: map[string]any{"kind": "deadlock", "half": "concurrent"}, Detail: strings.Join(x.Blocked, ";")}
			}

			for _, e := range evs {
				if strings.HasPrefix(e.res, "error:") || strings.HasPrefix(e.res, "foreign") {
					return &vsched.Fail{Sig: map[string]any{"kind": "bad-result", "half": "concurrent", "op": e.op.kind},
						Detail: s.id() + ": " + hist()}
				}
			}

			if c24cLinearizable(env, initm, evs, fin) {
				return nil
			}

			// cause analysis: two overlapping setters of one key that both report "stored"
			cause, opkind := "other", ""
			var withclean bool

			for _, a := range evs {
				if a.op.kind == "CB" || a.op.kind == "CP" {
					withclean = true
				}

				for _, b := range evs {
					if a.thread < b.thread && a.op.kind == b.op.kind && (a.op.kind == "SB" || a.op.kind == "SP") &&
						a.op.key == b.op.key && a.res == "true" && b.res == "true" && a.call < b.ret && b.call < a.ret {
						cause, opkind = "overlapping-setters-of-one-key-both-stored", map[string]string{"SB": "SetBallot", "SP": "SetProposal"}[a.op.kind]
					}
				}
			}

			return &vsched.Fail{
				Sig: map[string]any{"kind": "not-linearizable", "half": "concurrent", "cause": cause, "op": opkind, "with_cleanup": withclean},
				Detail: fmt.Sprintf("no linearization against the first-writer-wins model (%s): %s final leveldb records %s | scenario %s",
					cause, hist(), fin, s.id()),
			}
		},
	}
}

func c24cScenarios() []c24cScenario {
	sb := func(k, v string) c24cOp { return c24cOp{"SB", k, v} }
	gb := func(k string) c24cOp { return c24cOp{"GB", k, ""} }
	sp := func(k, v string) c24cOp { return c24cOp{"SP", k, v} }
	gp := func(k string) c24cOp { return c24cOp{"GP", k, ""} }
	gpp := func(k string) c24cOp { return c24cOp{"GPP", k, ""} }
	cb, cp := c24cOp{"CB", "", ""}, c24cOp{"CP", "", ""}

	// ballots: X = INIT at height 0 (colliding key), Y = INIT at height 3 (makes X cleanable), Xc = suffrage-confirm at (3,0)
	// proposals: P = position 1x (height 1), Q = position 4 (height 4, makes P cleanable)
	const X, Y, Yc, P, Q = "0i", "3i", "3c", "1x", "4"

	type T = [][]c24cOp

	return []c24cScenario{
		{"b-two-setters", "ballot", nil, T{{sb(X, "A")}, {sb(X, "B")}}},
		{"b-setters-read-back", "ballot", nil, T{{sb(X, "A"), gb(X)}, {sb(X, "B"), gb(X)}}},
		{"b-two-setters-reader", "ballot", nil, T{{sb(X, "A")}, {sb(X, "B")}, {gb(X), gb(X)}}},
		{"b-three-setters", "ballot", nil, T{{sb(X, "A")}, {sb(X, "B")}, {sb(X, "A")}}},
		{"b-two-keys-crossed", "ballot", nil, T{{sb(X, "A"), sb(Y, "A")}, {sb(Y, "B"), sb(X, "B")}}},
		{"b-confirm-flag-apart", "ballot", nil, T{{sb(Y, "A")}, {sb(Yc, "B")}, {gb(Y), gb(Yc)}}},
		{"b-setters-cleanup", "ballot", []c24cOp{sb(Y, "A")}, T{{sb(X, "A")}, {sb(X, "B")}, {cb}}},
		{"b-cleanup-then-rewrite", "ballot", []c24cOp{sb(X, "A"), sb(Y, "A")}, T{{cb}, {sb(X, "B"), gb(X)}}},
		{"b-raise-top-cleanup-reader", "ballot", []c24cOp{sb(X, "A")}, T{{sb(Y, "A")}, {cb}, {gb(X), gb(Y)}}},
		{"b-two-cleanups", "ballot", []c24cOp{sb(X, "A"), sb(Y, "A")}, T{{cb}, {cb, gb(Y)}, {sb(X, "B")}}},

		{"p-two-setters", "proposal", nil, T{{sp(P, "s1")}, {sp(P, "s2")}}},
		{"p-setters-read-back", "proposal", nil, T{{sp(P, "s1"), gp(P)}, {sp(P, "s2"), gpp(P)}}},
		{"p-two-setters-reader", "proposal", nil, T{{sp(P, "s1")}, {sp(P, "s2")}, {gpp(P), gp(P)}}},
		{"p-setter-reader-both-lookups", "proposal", nil, T{{sp(P, "s1")}, {gp(P), gpp(P)}, {gpp(P), gp(P)}}},
		{"p-two-keys-crossed", "proposal", nil, T{{sp(P, "s1"), sp(Q, "s1")}, {sp(Q, "s2"), sp(P, "s2")}}},
		{"p-setters-cleanup", "proposal", []c24cOp{sp(Q, "s1")}, T{{sp(P, "s1")}, {sp(P, "s2")}, {cp}}},
		{"p-cleanup-then-rewrite", "proposal", []c24cOp{sp(P, "s1"), sp(Q, "s1")}, T{{cp}, {sp(P, "s2"), gpp(P)}}},
		{"p-raise-top-cleanup-reader", "proposal", []c24cOp{sp(P, "s1")}, T{{sp(Q, "s1")}, {cp}, {gpp(P), gp(P)}}},
		{"p-two-cleanups", "proposal", []c24cOp{sp(P, "s1"), sp(Q, "s1")}, T{{cp}, {cp, gpp(Q)}, {sp(P, "s2")}}},

		{"m-both-families-crossed", "mixed", nil, T{{sb(X, "A"), sp(P, "s1")}, {sp(P, "s2"), sb(X, "B")}}},
		{"m-cleanups-of-both", "mixed", []c24cOp{sb(X, "A"), sb(Y, "A"), sp(P, "s1"), sp(Q, "s1")}, T{{cb, gpp(P)}, {cp, gb(X)}}},
	}
}

func TestVerifC24Conc(t *testing.T) {
	r := vlib.Start("C24")
	defer r.Finish()

	r.Rule("concurrent half: scenario = 2-3 threads x 1-2 calls of SetBallot/Ballot/SetProposal/Proposal/ProposalByPoint on one colliding key and one other key, optionally a cleanup thread, on a fresh real TempPool; " +
		"all interleavings within the preemption bound (scheduling point before every leveldb access of the pool); oracle = linearizability of the call/return history against the first-writer-wins model incl. the final leveldb records; " +
		"states = distinct (scenario, outcome); non-trivial = a scenario with more than one outcome")

	bound := vlib.Pick(r, 2, 4)
	if v := os.Getenv("VERIF_C24C_BOUND"); v != "" { // tuning aid only; never set by run.sh
		fmt.Sscanf(v, "%d", &bound)
	}

	r.Set("conc_preemption_bound", bound)

	env := c24qNewEnv(t)
	scs := c24cScenarios()
	r.Set("conc_scenarios_enumerated", len(scs))

	for i, s := range scs {
		if !r.Mine(i) || r.Expired() {
			continue
		}

		s := s
		id := "conc/" + s.id()

		n := 0
		for _, th := range s.threads {
			n += len(th)
		}

		if n > 6 {
			panic("scenario with more than 6 calls: " + id)
		}

		build := func() vsched.Scenario { return c24cBuild(env, s) }

		if rid, rp := r.Replaying(); rp {
			k := strings.LastIndex(rid, "#")
			if k < 0 || rid[:k] != id {
				continue
			}

			sc := build()
			x := vsched.Run(vsched.Options{Prefix: vsched.ParseChoices(rid[k+1:])}, sc.Roots...)
			r.Trace()

			if f := sc.Check(x); f != nil {
				r.Violation(rid, f.Sig, f.Detail, nil)
			}

			continue
		}

		res := vsched.Explore(vsched.Config{Name: id, Bound: bound, Build: build, Expired: r.Expired, MaxFound: 2, Horizon: 5000})
		if res.EngineError != "" {
			panic("engine error in " + id + ": " + res.EngineError)
		}

		r.TraceN(res.Executions)
		r.TransitionN(res.Points)
		r.EvalN(res.Executions)
		r.Add("conc_scenarios", 1)

		if res.Capped != "" {
			r.Cap(res.Capped)
		} else {
			r.Min("conc_preemption_bound_completed", int64(res.BoundCompleted))
		}

		r.Max("conc_max_points_per_execution", int64(res.MaxPoints))

		if len(res.Outcomes) > 1 {
			r.Nontrivial(id)
		}

		for o := range res.Outcomes {
			r.State(id + "=>" + o)
			r.Outcome("conc:" + s.name + ":" + strings.SplitN(o, "=>", 2)[0])
		}

		for _, f := range res.Found {
			r.Violation(id+"#"+vsched.ChoicesString(f.Choices), f.Fail.Sig, f.Fail.Detail+fmt.Sprintf(" (preemptions=%d)", f.Preempt), nil)
		}

		r.Sample(map[string]any{"scenario": id, "executions": res.Executions, "distinct_outcomes": len(res.Outcomes), "max_points": res.MaxPoints})
	}
}
