//go:build verif

package isaacdatabase

import (
	"bytes"
	"encoding/hex"
	"fmt"
	"runtime"
	"sort"
	"strings"
	"sync"
	"sync/atomic"
	"testing"

	"github.com/spikeekips/mitum/base"
	"github.com/spikeekips/mitum/isaac"
	leveldbstorage "github.com/spikeekips/mitum/storage/leveldb"
	"github.com/spikeekips/mitum/util"
	"github.com/spikeekips/mitum/util/encoder"
	jsonenc "github.com/spikeekips/mitum/util/encoder/json"
	"github.com/spikeekips/mitum/util/localtime"
	"github.com/spikeekips/mitum/util/valuehash"
	"github.com/spikeekips/mitum/zzverif/vlib"
	leveldbopt "github.com/syndtr/goleveldb/leveldb/opt"
	goleveldbstorage "github.com/syndtr/goleveldb/leveldb/storage"
	leveldbutil "github.com/syndtr/goleveldb/leveldb/util"
)

// C24 (sequential half, engine Q): ballot and proposal pools are
// first-writer-wins and consistent; cleanup removes only entries at least the
// configured depth below the newest height.
//
// Two explicit-state BFS searches over event histories on the REAL TempPool
// (in-memory leveldb), one per key family, each for several configured depths:
//
//  ballots   9 slots (stage point, suffrage-confirm flag): INIT ballots at heights 0..5 round 0,
//            and at height 3 also ACCEPT, suffrage-confirm INIT, and INIT of round 1;
//            events S<slot>:<A|B> = SetBallot of one of two different ballots for the slot, C = cleanBallots
//  proposals 9 positions (point, proposer, previous block): heights 0..5 (p1, block x; genesis has no
//            previous block), at height 1 also (p1, y) and (p2, x), at height 4 also round 1;
//            events P<pos>:<s1|s2> = SetProposal of one fact signed at two different times,
//            P1x:e = a different fact for position 1x (equivocation), C = cleanProposals
//
// After every event every slot / fact / position is read back through the
// public lookups and compared with first-writer-wins maps; the leveldb records
// are read directly for the state key and for the cleanup oracle.
//
// All identifiers of this file are prefixed c24q so that the concurrent half
// (another file, another test function) can live in the same package.

type c24qVio struct {
	sig    map[string]any
	detail string
}

// ident is what "the same ballot / proposal, unchanged" means here: the fact
// hash and the bytes of every signature.
func c24qIdent(sf base.SignFact) string {
	if sf == nil || sf.Fact() == nil {
		return "<nil>"
	}

	var b bytes.Buffer
	b.WriteString(sf.Fact().Hash().String())

	for _, s := range sf.Signs() {
		b.WriteString("|")
		b.WriteString(hex.EncodeToString(s.Bytes()))
	}

	return vlib.H(b.String())
}

type c24qSlot struct {
	name    string
	sp      base.StagePoint
	confirm bool
	ballots [2]base.Ballot // variants A, B
}

type c24qPos struct {
	name     string
	point    base.Point
	proposer base.Address
	prev     util.Hash
}

type c24qProposal struct {
	name string // "<pos>:<s1|s2|e>"
	pos  int
	fact string // fact name "<pos>:f" or "<pos>:e"
	pr   isaac.ProposalSignFact
}

type c24qEnv struct {
	encs *encoder.Encoders
	enc  encoder.Encoder

	slots     []c24qSlot
	ballotBy  map[string]string // ident -> "<slot>:<A|B>"
	slotIndex map[string]int

	poss       []c24qPos
	proposals  []c24qProposal
	proposalBy map[string]int // ident -> index in proposals
	factHash   map[string]util.Hash
	factPos    map[string]int
	factByHash map[string]string

	rawBallot   map[string]string // leveldb value (frame) of a ballot -> "<slot>:<A|B>" / "guard"
	rawProposal map[string]int    // leveldb value (frame) of a proposal -> index in proposals

	guardBallot   base.Ballot            // stored before a proposal search; must never be touched
	guardProposal isaac.ProposalSignFact // stored before a ballot search; must never be touched
}

func c24qNewEnv(t *testing.T) *c24qEnv {
	env := &c24qEnv{
		ballotBy: map[string]string{}, slotIndex: map[string]int{}, proposalBy: map[string]int{},
		factHash: map[string]util.Hash{}, factPos: map[string]int{}, factByHash: map[string]string{},
		rawBallot: map[string]string{}, rawProposal: map[string]int{},
	}
	env.enc = jsonenc.NewEncoder()
	env.encs = encoder.NewEncoders(env.enc, env.enc)

	for _, d := range []encoder.DecodeDetail{
		{Hint: base.MPublickeyHint, Instance: &base.MPublickey{}},
		{Hint: base.StringAddressHint, Instance: base.StringAddress{}},
		{Hint: isaac.INITBallotFactHint, Instance: isaac.INITBallotFact{}},
		{Hint: isaac.ACCEPTBallotFactHint, Instance: isaac.ACCEPTBallotFact{}},
		{Hint: isaac.SuffrageConfirmBallotFactHint, Instance: isaac.SuffrageConfirmBallotFact{}},
		{Hint: isaac.INITBallotSignFactHint, Instance: isaac.INITBallotSignFact{}},
		{Hint: isaac.ACCEPTBallotSignFactHint, Instance: isaac.ACCEPTBallotSignFact{}},
		{Hint: isaac.INITBallotHint, Instance: isaac.INITBallot{}},
		{Hint: isaac.ACCEPTBallotHint, Instance: isaac.ACCEPTBallot{}},
		{Hint: isaac.ProposalFactHint, Instance: isaac.ProposalFact{}},
		{Hint: isaac.ProposalSignFactHint, Instance: isaac.ProposalSignFact{}},
	} {
		if err := env.encs.AddDetail(d); err != nil {
			t.Fatal(err)
		}
	}

	nid := base.NetworkID("c24-network")
	node := base.NewStringAddress("c24-local")

	priv, err := base.NewMPrivatekeyFromSeed("c24-fixed-seed-for-the-local-node-key-0123456789")
	if err != nil {
		t.Fatal(err)
	}

	fixed := func(s string) util.Hash { return valuehash.NewSHA256([]byte("c24-" + s)) }

	// ---- ballots
	mkballot := func(sp base.StagePoint, confirm bool, v string) base.Ballot {
		switch {
		case sp.Stage() == base.StageACCEPT:
			fact := isaac.NewACCEPTBallotFact(sp.Point, fixed("proposal-"+v), fixed("newblock-"+v), nil)
			sf := isaac.NewACCEPTBallotSignFact(fact)

			if err := sf.NodeSign(priv, nid, node); err != nil {
				t.Fatal(err)
			}

			return isaac.NewACCEPTBallot(nil, sf, nil)
		case confirm:
			fact := isaac.NewSuffrageConfirmBallotFact(sp.Point, fixed("prev"), fixed("proposal-"+v), []util.Hash{fixed("expelfact")})
			sf := isaac.NewINITBallotSignFact(fact)

			if err := sf.NodeSign(priv, nid, node); err != nil {
				t.Fatal(err)
			}

			return isaac.NewINITBallot(nil, sf, nil)
		default:
			fact := isaac.NewINITBallotFact(sp.Point, fixed("prev"), fixed("proposal-"+v), nil)
			sf := isaac.NewINITBallotSignFact(fact)

			if err := sf.NodeSign(priv, nid, node); err != nil {
				t.Fatal(err)
			}

			return isaac.NewINITBallot(nil, sf, nil)
		}
	}

	addslot := func(name string, h int64, round uint64, stage base.Stage, confirm bool) {
		sp := base.NewStagePoint(base.RawPoint(h, round), stage)
		s := c24qSlot{name: name, sp: sp, confirm: confirm}

		for vi, v := range []string{"A", "B"} {
			s.ballots[vi] = mkballot(sp, confirm, v)

			if isaac.IsSuffrageConfirmBallotFact(s.ballots[vi].SignFact().Fact()) != confirm {
				t.Fatal("harness: wrong confirm flag of a built ballot")
			}

			env.ballotBy[c24qIdent(s.ballots[vi].SignFact())] = name + ":" + v
		}

		env.slotIndex[name] = len(env.slots)
		env.slots = append(env.slots, s)
	}

	for h := int64(0); h <= 5; h++ {
		addslot(fmt.Sprintf("%di", h), h, 0, base.StageINIT, false)
	}

	addslot("3a", 3, 0, base.StageACCEPT, false)
	addslot("3c", 3, 0, base.StageINIT, true)
	addslot("3r", 3, 1, base.StageINIT, false)

	if len(env.ballotBy) != 2*len(env.slots) {
		t.Fatal("harness: ballot identities collide")
	}

	// ---- proposals
	p1, p2 := base.NewStringAddress("c24-proposer-1"), base.NewStringAddress("c24-proposer-2")
	bx, by := fixed("block-x"), fixed("block-y")

	addpos := func(name string, h int64, round uint64, proposer base.Address, prev util.Hash) {
		env.poss = append(env.poss, c24qPos{name: name, point: base.RawPoint(h, round), proposer: proposer, prev: prev})
	}

	addpos("0", 0, 0, p1, nil)
	addpos("1x", 1, 0, p1, bx)
	addpos("1y", 1, 0, p1, by)
	addpos("1q", 1, 0, p2, bx)
	addpos("2", 2, 0, p1, bx)
	addpos("3", 3, 0, p1, bx)
	addpos("4", 4, 0, p1, bx)
	addpos("5", 5, 0, p1, bx)
	addpos("4r", 4, 1, p1, bx)

	sign := func(fact isaac.ProposalFact) isaac.ProposalSignFact {
		sf := isaac.NewProposalSignFact(fact)
		if err := sf.Sign(priv, nid); err != nil {
			t.Fatal(err)
		}

		return sf
	}

	addfact := func(pi int, fname string, ops [][2]util.Hash, variants []string) {
		pos := env.poss[pi]
		// NOTE the fact hash contains the proposed-at time: random data; names are used for control flow
		fact := isaac.NewProposalFact(pos.point, pos.proposer, pos.prev, ops)
		fullname := pos.name + ":" + fname

		env.factHash[fullname] = fact.Hash()
		env.factPos[fullname] = pi
		env.factByHash[fact.Hash().String()] = fullname

		for _, v := range variants {
			// signatures cover the signing time in milliseconds: wait (sleep-free) for the next one
			for t0 := localtime.Now().UnixMilli(); localtime.Now().UnixMilli() == t0; {
			}

			pr := sign(fact)
			id := c24qIdent(pr)

			if _, dup := env.proposalBy[id]; dup {
				t.Fatal("harness: two signings of one proposal fact are identical")
			}

			env.proposalBy[id] = len(env.proposals)
			env.proposals = append(env.proposals, c24qProposal{name: pos.name + ":" + v, pos: pi, fact: fullname, pr: pr})
		}
	}

	for pi := range env.poss {
		addfact(pi, "f", [][2]util.Hash{{fixed("op-1"), fixed("opfact-1")}}, []string{"s1", "s2"})
	}

	addfact(1, "e", [][2]util.Hash{{fixed("op-2"), fixed("opfact-2")}}, []string{"e"})

	// ---- guards of the other key family (height 0: the first thing a wrong cleanup would take)
	env.guardBallot = mkballot(base.NewStagePoint(base.RawPoint(0, 0), base.StageACCEPT), false, "guard")
	env.guardProposal = sign(isaac.NewProposalFact(base.RawPoint(0, 0), p2, nil, nil))

	// ---- the exact leveldb value of every ballot / proposal (the pool stores EncodeFrame(enc, nil, v)):
	// reading the state back needs no decoding; an unknown value is decoded and judged
	frame := func(v any) string {
		_, b, err := EncodeFrame(env.enc, nil, v)
		if err != nil {
			t.Fatal(err)
		}

		_, b2, _ := EncodeFrame(env.enc, nil, v)
		if !bytes.Equal(b, b2) {
			t.Fatal("harness: encoding is not deterministic")
		}

		return string(b)
	}

	for _, sl := range env.slots {
		for vi, v := range []string{"A", "B"} {
			env.rawBallot[frame(sl.ballots[vi])] = sl.name + ":" + v
		}
	}

	for i, p := range env.proposals {
		env.rawProposal[frame(p.pr)] = i
	}

	if len(env.rawBallot) != 2*len(env.slots) || len(env.rawProposal) != len(env.proposals) {
		t.Fatal("harness: stored encodings collide")
	}

	return env
}

func (env *c24qEnv) newPool(deep int) *TempPool {
	st, err := leveldbstorage.NewStorage(goleveldbstorage.NewMemStorage(), &leveldbopt.Options{
		WriteBuffer:        64 * leveldbopt.KiB, // goleveldb allocates the whole write buffer per Open
		BlockCacheCapacity: 64 * leveldbopt.KiB,
	})
	if err != nil {
		panic(err)
	}

	db, err := newTempPool(st, env.encs, env.enc, 0)
	if err != nil {
		panic(err)
	}

	db.cleanRemovedBallotDeep = deep
	db.cleanRemovedProposalDeep = deep

	return db
}

func c24qSortedKV(m map[string]string) string {
	ks := make([]string, 0, len(m))
	for k := range m {
		ks = append(ks, k)
	}

	sort.Strings(ks)

	var sb strings.Builder
	for _, k := range ks {
		fmt.Fprintf(&sb, "%s=%s,", k, m[k])
	}

	return sb.String()
}

// ---------------------------------------------------------------- ballots

// realBallots reads the ballot records straight from leveldb: slot -> variant.
func (env *c24qEnv) realBallots(db *TempPool, withGuard bool) (map[string]string, []c24qVio) {
	pst, err := db.st()
	if err != nil {
		panic(err)
	}

	got := map[string]string{}
	var vios []c24qVio

	if err := pst.Iter(leveldbutil.BytesPrefix(leveldbKeyPrefixBallot[:]), func(k, b []byte) (bool, error) {
		name, ok := env.rawBallot[string(b)]
		if !ok {
			var bl base.Ballot
			if err := ReadDecodeFrame(env.encs, b, &bl); err != nil {
				return false, err
			}

			id := c24qIdent(bl.SignFact())

			if withGuard && id == c24qIdent(env.guardBallot.SignFact()) {
				got["guard"] = "guard"

				return true, nil
			}

			name, ok = env.ballotBy[id]
		}

		if !ok {
			vios = append(vios, c24qVio{map[string]any{"kind": "ballot-record-changed"}, "a stored ballot record is none of the ballots ever given to SetBallot"})

			return true, nil
		}

		slot := env.slots[env.slotIndex[name[:strings.Index(name, ":")]]]
		if !bytes.Equal(k, leveldbBallotKey(slot.sp, slot.confirm)) {
			vios = append(vios, c24qVio{map[string]any{"kind": "ballot-under-foreign-key"}, "ballot " + name + " is stored under the key of another slot"})
		}

		got[slot.name] = name[strings.Index(name, ":")+1:]

		return true, nil
	}, true); err != nil {
		panic(err)
	}

	return got, vios
}

type c24qBallotRun struct {
	env   *c24qEnv
	db    *TempPool
	deep  int
	model map[string]string // slot -> variant of the first ballot stored (and not yet cleaned)
	obs   string
}

func (env *c24qEnv) newBallotRun(deep int) *c24qBallotRun {
	x := &c24qBallotRun{env: env, db: env.newPool(deep), deep: deep, model: map[string]string{}}

	if ok, err := x.db.SetProposal(env.guardProposal); err != nil || !ok {
		panic(fmt.Sprintf("guard proposal: %v %v", ok, err))
	}

	return x
}

func (x *c24qBallotRun) key() string {
	real, _ := x.env.realBallots(x.db, false)

	return "R{" + c24qSortedKV(real) + "}M{" + c24qSortedKV(x.model) + "}"
}

func (x *c24qBallotRun) apply(ev string, check bool) (vios []c24qVio) {
	env := x.env
	vio := func(sig map[string]any, format string, args ...any) {
		vios = append(vios, c24qVio{sig, fmt.Sprintf(format, args...)})
	}

	switch {
	case ev == "C":
		before, _ := env.realBallots(x.db, false)

		removed, err := x.db.cleanBallots()
		if err != nil {
			vio(map[string]any{"kind": "error", "call": "cleanBallots"}, "%v", err)
		}

		after, rv := env.realBallots(x.db, false)
		vios = append(vios, rv...)

		top := base.NilHeight
		for s := range before {
			if h := env.slots[env.slotIndex[s]].sp.Height(); h > top {
				top = h
			}
		}

		var gone, leftold int

		for s, v := range before {
			h := env.slots[env.slotIndex[s]].sp.Height()

			switch av, ok := after[s]; {
			case ok && av != v:
				vio(map[string]any{"kind": "clean-changed-entry", "family": "ballot"}, "slot %s changed from %s to %s by cleanBallots", s, v, av)
			case ok:
				if int64(h) <= int64(top)-int64(x.deep) {
					leftold++
				}
			default:
				gone++

				if int64(h) > int64(top)-int64(x.deep) {
					vio(map[string]any{"kind": "clean-removed-within-depth", "family": "ballot", "deep_above_3": x.deep > 3},
						"cleanBallots with configured depth %d and newest height %d removed the ballot of slot %s at height %d (only %d below the newest); stored before: {%s}",
						x.deep, top, s, h, int64(top)-int64(h), c24qSortedKV(before))
				}
			}
		}

		for s := range after {
			if _, ok := before[s]; !ok {
				vio(map[string]any{"kind": "clean-invented-entry", "family": "ballot"}, "slot %s appeared during cleanBallots", s)
			}
		}

		x.model = after
		x.obs = fmt.Sprintf("clean:removed=%d/gone=%d/leftold=%d", removed, gone, leftold)
	default:
		var slotname, v string
		if _, err := fmt.Sscanf(strings.Replace(ev, ":", " ", 1), "S%s %s", &slotname, &v); err != nil {
			panic("bad event " + ev)
		}

		slot := env.slots[env.slotIndex[slotname]]
		bl := slot.ballots[map[string]int{"A": 0, "B": 1}[v]]

		_, occupied := x.model[slotname]

		added, err := x.db.SetBallot(bl)

		switch {
		case err != nil:
			vio(map[string]any{"kind": "error", "call": "SetBallot"}, "%v", err)
		case added == occupied:
			what := "second-writer-reported-stored"
			if !added {
				what = "first-writer-refused"
			}

			vio(map[string]any{"kind": "setballot-wrong-result", "what": what},
				"SetBallot(%s) returned %v although the slot was occupied=%v (model {%s})", ev, added, occupied, c24qSortedKV(x.model))
		}

		if !occupied {
			x.model[slotname] = v
		}

		x.obs = fmt.Sprintf("setballot:%v", added)
	}

	if !check {
		return nil
	}

	// ---- read every slot back through the public lookup
	for _, s := range env.slots {
		bl, found, err := x.db.Ballot(s.sp.Point, s.sp.Stage(), s.confirm)
		want, has := x.model[s.name]

		switch {
		case err != nil:
			vio(map[string]any{"kind": "error", "call": "Ballot"}, "%v", err)
		case found != has:
			what := "stored-ballot-not-found"
			if found {
				what = "found-in-empty-slot"
			}

			vio(map[string]any{"kind": "ballot-lookup-wrong", "what": what},
				"after %s: Ballot(%s) found=%v, model {%s}", ev, s.name, found, c24qSortedKV(x.model))
		case found:
			if got := env.ballotBy[c24qIdent(bl.SignFact())]; got != s.name+":"+want {
				vio(map[string]any{"kind": "ballot-not-first-writer"},
					"after %s: Ballot(%s) returned %q, the first ballot stored was %s:%s", ev, s.name, got, s.name, want)
			}
		}
	}

	// ---- the other family is untouched
	switch pr, found, err := x.db.Proposal(env.guardProposal.Fact().Hash()); {
	case err != nil, !found, c24qIdent(pr) != c24qIdent(env.guardProposal):
		vio(map[string]any{"kind": "foreign-family-touched", "by": "ballot-event"}, "after %s the guard proposal is found=%v err=%v", ev, found, err)
	}

	switch _, found, err := x.db.ProposalByPoint(env.guardProposal.Point(), env.guardProposal.ProposalFact().Proposer(), nil); {
	case err != nil, !found:
		vio(map[string]any{"kind": "foreign-family-touched", "by": "ballot-event"}, "after %s the guard proposal by point is found=%v err=%v", ev, found, err)
	}

	return vios
}

// ---------------------------------------------------------------- proposals

type c24qRealProposals struct {
	records map[string]string // fact name -> proposal name (which signing is stored)
	bypoint map[string]string // position name -> fact name the point key refers to
}

func (s c24qRealProposals) key() string {
	return "P{" + c24qSortedKV(s.records) + "}I{" + c24qSortedKV(s.bypoint) + "}"
}

func (env *c24qEnv) realProposals(db *TempPool) (c24qRealProposals, []c24qVio) {
	pst, err := db.st()
	if err != nil {
		panic(err)
	}

	got := c24qRealProposals{records: map[string]string{}, bypoint: map[string]string{}}
	var vios []c24qVio

	if err := pst.Iter(leveldbutil.BytesPrefix(leveldbKeyPrefixProposal[:]), func(k, b []byte) (bool, error) {
		i, ok := env.rawProposal[string(b)]
		if !ok {
			var pr base.ProposalSignFact
			if err := ReadDecodeFrame(env.encs, b, &pr); err != nil {
				return false, err
			}

			i, ok = env.proposalBy[c24qIdent(pr)]
		}

		if !ok {
			vios = append(vios, c24qVio{map[string]any{"kind": "proposal-record-changed"}, "a stored proposal record is none of the proposals ever given to SetProposal"})

			return true, nil
		}

		p := env.proposals[i]
		if !bytes.Equal(k, leveldbProposalKey(env.factHash[p.fact])) {
			vios = append(vios, c24qVio{map[string]any{"kind": "proposal-under-foreign-key"}, "proposal " + p.name + " is stored under a foreign key"})
		}

		got.records[p.fact] = p.name

		return true, nil
	}, true); err != nil {
		panic(err)
	}

	if err := pst.Iter(leveldbutil.BytesPrefix(leveldbKeyPrefixProposalByPoint[:]), func(k, b []byte) (bool, error) {
		for _, pos := range env.poss {
			if bytes.Equal(k, leveldbProposalPointKey(pos.point, pos.proposer, pos.prev)) {
				fname, ok := env.factByHash[valuehash.NewBytes(b).String()]
				if !ok {
					fname = "<unknown>"
				}

				got.bypoint[pos.name] = fname

				return true, nil
			}
		}

		if bytes.Equal(k, leveldbProposalPointKey(env.guardProposal.Point(), env.guardProposal.ProposalFact().Proposer(), nil)) {
			return true, nil
		}

		vios = append(vios, c24qVio{map[string]any{"kind": "proposal-point-key-unknown"}, "an unknown by-point key is stored"})

		return true, nil
	}, true); err != nil {
		panic(err)
	}

	return got, vios
}

type c24qProposalRun struct {
	env   *c24qEnv
	db    *TempPool
	deep  int
	first map[string]string   // fact name -> name of the first proposal stored for it (not yet cleaned)
	order map[string][]string // position -> fact names in the order they were first stored (not yet cleaned)
	equiv map[string]bool     // position holds / held two different facts at once and is not empty since
	obs   string
}

func (env *c24qEnv) newProposalRun(deep int) *c24qProposalRun {
	x := &c24qProposalRun{env: env, db: env.newPool(deep), deep: deep, first: map[string]string{}, order: map[string][]string{}, equiv: map[string]bool{}}

	if ok, err := x.db.SetBallot(env.guardBallot); err != nil || !ok {
		panic(fmt.Sprintf("guard ballot: %v %v", ok, err))
	}

	return x
}

func (x *c24qProposalRun) modelKey() string {
	o := map[string]string{}
	for k, v := range x.order {
		o[k] = strings.Join(v, ">")
	}

	e := map[string]string{}
	for k := range x.equiv {
		e[k] = "y"
	}

	return "F{" + c24qSortedKV(x.first) + "}O{" + c24qSortedKV(o) + "}E{" + c24qSortedKV(e) + "}"
}

func (x *c24qProposalRun) key() string {
	real, _ := x.env.realProposals(x.db)

	return real.key() + x.modelKey()
}

func (x *c24qProposalRun) apply(ev string, check bool) (vios []c24qVio) {
	env := x.env
	vio := func(sig map[string]any, format string, args ...any) {
		vios = append(vios, c24qVio{sig, fmt.Sprintf(format, args...)})
	}

	switch {
	case ev == "C":
		before, _ := env.realProposals(x.db)

		removed, err := x.db.cleanProposals()
		if err != nil {
			vio(map[string]any{"kind": "error", "call": "cleanProposals"}, "%v", err)
		}

		after, rv := env.realProposals(x.db)
		vios = append(vios, rv...)

		// newest height = the newest stored proposal
		top := base.NilHeight
		for f := range before.records {
			if h := env.poss[env.factPos[f]].point.Height(); h > top {
				top = h
			}
		}

		var gone, leftold int

		tooNew := func(h base.Height) bool { return int64(h) > int64(top)-int64(x.deep) }

		for f, n := range before.records {
			h := env.poss[env.factPos[f]].point.Height()

			switch an, ok := after.records[f]; {
			case ok && an != n:
				vio(map[string]any{"kind": "clean-changed-entry", "family": "proposal"}, "fact %s changed from %s to %s by cleanProposals", f, n, an)
			case ok:
				if !tooNew(h) {
					leftold++
				}
			default:
				gone++

				if tooNew(h) {
					vio(map[string]any{"kind": "clean-removed-within-depth", "family": "proposal", "deep_above_3": x.deep > 3},
						"cleanProposals with configured depth %d and newest height %d removed proposal %s at height %d (only %d below the newest); stored before: %s",
						x.deep, top, n, h, int64(top)-int64(h), before.key())
				}
			}
		}

		for p, f := range before.bypoint {
			h := env.poss[env.factPos[f]].point.Height()

			switch af, ok := after.bypoint[p]; {
			case ok && af != f:
				vio(map[string]any{"kind": "clean-changed-entry", "family": "proposal-by-point"}, "position %s changed from %s to %s by cleanProposals", p, f, af)
			case !ok && tooNew(h):
				vio(map[string]any{"kind": "clean-removed-within-depth", "family": "proposal-by-point", "deep_above_3": x.deep > 3},
					"cleanProposals with configured depth %d and newest height %d removed the by-point record of %s at height %d", x.deep, top, p, h)
			}
		}

		for f := range after.records {
			if _, ok := before.records[f]; !ok {
				vio(map[string]any{"kind": "clean-invented-entry", "family": "proposal"}, "fact %s appeared during cleanProposals", f)
			}
		}

		for p := range after.bypoint {
			if _, ok := before.bypoint[p]; !ok {
				vio(map[string]any{"kind": "clean-invented-entry", "family": "proposal-by-point"}, "position %s appeared during cleanProposals", p)
			}
		}

		// the model follows what is left
		for f := range x.first {
			if _, ok := after.records[f]; !ok {
				delete(x.first, f)
			}
		}

		for p, fs := range x.order {
			var nfs []string

			for _, f := range fs {
				if _, ok := after.records[f]; ok {
					nfs = append(nfs, f)
				}
			}

			if len(nfs) < 1 {
				delete(x.order, p)
				delete(x.equiv, p)
			} else {
				x.order[p] = nfs
			}
		}

		x.obs = fmt.Sprintf("clean:removed=%d/gone=%d/leftold=%d", removed, gone, leftold)
	default:
		var pr *c24qProposal

		for i := range env.proposals {
			if "P"+env.proposals[i].name == ev {
				pr = &env.proposals[i]
			}
		}

		if pr == nil {
			panic("bad event " + ev)
		}

		_, known := x.first[pr.fact]

		added, err := x.db.SetProposal(pr.pr)

		switch {
		case err != nil:
			vio(map[string]any{"kind": "error", "call": "SetProposal"}, "%v", err)
		case added == known:
			what := "second-writer-reported-stored"
			if !added {
				what = "first-writer-refused"
			}

			vio(map[string]any{"kind": "setproposal-wrong-result", "what": what},
				"SetProposal(%s) returned %v although the fact was known=%v (%s)", ev, added, known, x.modelKey())
		}

		if !known {
			x.first[pr.fact] = pr.name
			x.order[env.poss[pr.pos].name] = append(x.order[env.poss[pr.pos].name], pr.fact)

			if len(x.order[env.poss[pr.pos].name]) > 1 {
				x.equiv[env.poss[pr.pos].name] = true
			}
		}

		x.obs = fmt.Sprintf("setproposal:%v", added)
	}

	if !check {
		return nil
	}

	// ---- read every fact back by hash
	for f, h := range env.factHash {
		pr, found, err := x.db.Proposal(h)
		want, has := x.first[f]

		switch {
		case err != nil:
			vio(map[string]any{"kind": "error", "call": "Proposal"}, "%v", err)
		case found != has:
			what := "stored-proposal-not-found"
			if found {
				what = "found-never-stored"
			}

			vio(map[string]any{"kind": "proposal-lookup-wrong", "what": what}, "after %s: Proposal(%s) found=%v; %s", ev, f, found, x.modelKey())
		case found:
			if i, ok := env.proposalBy[c24qIdent(pr)]; !ok || env.proposals[i].name != want {
				vio(map[string]any{"kind": "proposal-not-first-writer"},
					"after %s: Proposal(%s) does not return the first proposal stored for the fact (%s)", ev, f, want)
			}
		}
	}

	// ---- and every position by (point, proposer, previous block)
	for _, pos := range env.poss {
		pr, found, err := x.db.ProposalByPoint(pos.point, pos.proposer, pos.prev)
		facts := x.order[pos.name]

		switch {
		case err != nil:
			vio(map[string]any{"kind": "error", "call": "ProposalByPoint"}, "%v", err)
		case found != (len(facts) > 0):
			what := "kept-fact-not-found-by-position"
			if found {
				what = "found-at-empty-position"
			}

			vio(map[string]any{"kind": "proposal-by-point-wrong", "what": what, "position_equivocated": x.equiv[pos.name]},
				"after %s: ProposalByPoint(%s) found=%v although the pool keeps %v for that position (position ever held two facts: %v); %s",
				ev, pos.name, found, facts, x.equiv[pos.name], x.modelKey())
		case found:
			i, ok := env.proposalBy[c24qIdent(pr)]

			switch {
			case !ok, env.proposals[i].pos != env.poss2index(pos.name):
				vio(map[string]any{"kind": "proposal-by-point-wrong", "what": "foreign-proposal", "position_equivocated": x.equiv[pos.name]},
					"after %s: ProposalByPoint(%s) returned a proposal of another position", ev, pos.name)
			case env.proposals[i].name != x.first[env.proposals[i].fact]:
				vio(map[string]any{"kind": "proposal-by-point-wrong", "what": "not-the-kept-proposal-of-its-fact", "position_equivocated": x.equiv[pos.name]},
					"after %s: ProposalByPoint(%s) returned %s, but the pool keeps %s for that fact", ev, pos.name, env.proposals[i].name, x.first[env.proposals[i].fact])
			case len(facts) > 1:
				// two different facts kept for one position (equivocating proposer). The statement
				// is per fact: the lookup by its position returns its kept proposal; it cannot
				// hold for both, it is reported for the one that is not returned
				returned := "first-fact"
				if env.proposals[i].fact != facts[0] {
					returned = "later-fact"
				}

				x.obs += "/equivocation:" + returned

				for _, f := range facts {
					if f != env.proposals[i].fact {
						vio(map[string]any{"kind": "proposal-by-point-other-fact", "returned": returned},
							"after %s: the pool keeps %s for fact %s, but ProposalByPoint of its position %s returns %s (facts kept for the position, in arrival order: %v)",
							ev, x.first[f], f, pos.name, env.proposals[i].name, facts)
					}
				}
			}
		}
	}

	// ---- the other family is untouched
	sp := env.guardBallot.Point()

	switch bl, found, err := x.db.Ballot(sp.Point, sp.Stage(), false); {
	case err != nil, !found, c24qIdent(bl.SignFact()) != c24qIdent(env.guardBallot.SignFact()):
		vio(map[string]any{"kind": "foreign-family-touched", "by": "proposal-event"}, "after %s the guard ballot is found=%v err=%v", ev, found, err)
	}

	return vios
}

func (env *c24qEnv) poss2index(name string) int {
	for i := range env.poss {
		if env.poss[i].name == name {
			return i
		}
	}

	return -1
}

// ---------------------------------------------------------------- search

type c24qRunner interface {
	apply(ev string, check bool) []c24qVio
	key() string
}

type c24qSearch struct {
	id     string // case id prefix: "<family>/d<deep>"
	events []string
	depth  int
	fresh  func() (c24qRunner, func() string, func())
}

type c24qResult struct {
	key  string
	vios []c24qVio
	obs  string
}

// c24qParallel runs f(0..n-1) on GOMAXPROCS workers.
func c24qParallel(n int, f func(int)) {
	w := runtime.GOMAXPROCS(0)
	if w > n {
		w = n
	}

	var wg sync.WaitGroup
	next := int64(-1)

	for k := 0; k < w; k++ {
		wg.Add(1)

		go func() {
			defer wg.Done()

			for {
				i := int(atomic.AddInt64(&next, 1))
				if i >= n {
					return
				}

				f(i)
			}
		}()
	}

	wg.Wait()
}

// c24qBFS: level-synchronous explicit-state BFS over histories. The histories of
// one chunk run in parallel (each on its own fresh pool); their results are
// merged sequentially in (state, event) order, so the outcome is exactly that
// of a sequential BFS and independent of scheduling.
func c24qBFS(r *vlib.Run, s c24qSearch) {
	const chunkStates = 256

	seen := map[string]bool{}

	run := func(path []string) (res c24qResult) {
		x, obs, closef := s.fresh()
		defer closef()

		for k, ev := range path {
			res.vios = x.apply(ev, k == len(path)-1)
		}

		res.key, res.obs = x.key(), obs()

		return res
	}

	{
		k := run(nil).key
		seen[k] = true
		r.State(s.id + "#" + k)
	}

	_, replaying := r.Replaying()
	frontier := [][]string{nil}

	for level := 0; level < s.depth; level++ {
		var next [][]string

		for c0 := 0; c0 < len(frontier); c0 += chunkStates {
			c1 := c0 + chunkStates
			if c1 > len(frontier) {
				c1 = len(frontier)
			}

			if r.Expired() {
				r.Cap(fmt.Sprintf("deadline in search %s at level %d, state %d/%d", s.id, level, c0, len(frontier)))

				return
			}

			type job struct {
				path []string
				id   string
			}

			var jobs []job

			for _, st := range frontier[c0:c1] {
				for _, ev := range s.events {
					path := append(append([]string{}, st...), ev)
					id := s.id + "/" + strings.Join(path, "/")

					if !r.WantPrefix(id) {
						continue
					}

					jobs = append(jobs, job{path, id})
				}
			}

			results := make([]c24qResult, len(jobs))
			c24qParallel(len(jobs), func(i int) { results[i] = run(jobs[i].path) })

			for i, j := range jobs {
				res := results[i]

				if !replaying || r.Want(j.id) { // in a replay only the recorded case reports
					r.Transition()
					r.Trace()
					r.Eval()
					r.Outcome(res.obs)
					r.Max("max_depth", int64(len(j.path)))

					if strings.Contains(res.obs, "false") || strings.Contains(res.obs, "equivocation") ||
						(strings.Contains(res.obs, "clean:") && !strings.Contains(res.obs, "gone=0")) {
						r.Nontrivial(j.id)
					}

					for _, v := range res.vios {
						r.Outcome("violation:" + fmt.Sprint(v.sig["kind"]))
						r.Violation(j.id, v.sig, v.detail, map[string]any{"search": s.id, "events": j.path})
					}
				}

				// NOTE a violating transition is not terminal: the oracle is per event and
				// the model follows the real records after a cleanup.
				if seen[res.key] {
					continue
				}

				seen[res.key] = true

				if r.State(s.id+"#"+res.key) && len(j.path) == 3 {
					r.Sample(map[string]any{"search": s.id, "history": strings.Join(j.path, "/"), "state": res.key, "last_observation": res.obs})
				}

				next = append(next, j.path)
			}
		}

		frontier = next
		r.Add(fmt.Sprintf("new_states_%s_depth_%d", s.id, level+1), int64(len(frontier)))
	}
}

func TestVerifC24(t *testing.T) {
	r := vlib.Start("C24")
	defer r.Finish()

	env := c24qNewEnv(t)

	var bevents, pevents []string

	for _, s := range env.slots {
		bevents = append(bevents, "S"+s.name+":A", "S"+s.name+":B")
	}

	bevents = append(bevents, "C")

	for _, p := range env.proposals {
		pevents = append(pevents, "P"+p.name)
	}

	pevents = append(pevents, "C")

	// configured depth -> history depth
	type cfg struct{ deep, depth int }

	cfgs := vlib.Pick(r,
		[]cfg{{3, 3}, {4, 3}},
		[]cfg{{3, 6}, {4, 5}, {1, 4}, {2, 4}, {5, 4}})

	if _, replaying := r.Replaying(); replaying {
		// only prefixes of the recorded history are expanded (WantPrefix); it may come from the thorough tier
		cfgs = []cfg{{1, 64}, {2, 64}, {3, 64}, {4, 64}, {5, 64}}
	}

	var cfgtxt []string
	for _, c := range cfgs {
		cfgtxt = append(cfgtxt, fmt.Sprintf("configured-depth=%d:history-depth=%d", c.deep, c.depth))
	}

	r.Set("searches", cfgtxt)
	r.Set("ballot_events", bevents)
	r.Set("proposal_events", pevents)
	r.Rule("two BFS searches (ballot family, proposal family) per configured cleanup depth over event histories on a fresh real TempPool; " +
		"ballot events: SetBallot of two different ballots for each of 9 slots (INIT at heights 0..5; ACCEPT, suffrage-confirm and round-1 INIT at height 3), cleanBallots; " +
		"proposal events: SetProposal of one fact signed at two different times for each of 9 positions (heights 0..5; other previous block, other proposer at height 1; round 1 at height 4), a second fact for position 1x, cleanProposals; " +
		"after every event every slot/fact/position is looked up and compared with first-writer-wins maps; states are deduplicated on the leveldb records of the family plus the model maps " +
		"(lookups and cleanup read nothing else; a guard entry of the other family is checked to be untouched); " +
		"non-trivial = a second writer was refused, a cleanup removed something, or a position holds two facts")
	r.Assume("leveldb in-memory storage behaves like the on-disk one for single-process sequential use")
	r.Assume("the configured depths are the unexported TempPool fields cleanRemovedBallotDeep / cleanRemovedProposalDeep (default 3, set in-package by the harness as the repository's own tests do)")
	r.Assume("sequential callers only; the concurrent half of C24 is a separate test unit")

	if sh, nsh := r.Shard(); nsh > 1 && sh > 0 {
		// the searches are parallel inside one process (global state dedup needs shared memory);
		// with several shards configured only shard 0 works
		r.Outcome("idle-shard")

		return
	}

	for _, c := range cfgs {
		deep := c.deep

		c24qBFS(r, c24qSearch{
			id: fmt.Sprintf("b/d%d", deep), events: bevents, depth: c.depth,
			fresh: func() (c24qRunner, func() string, func()) {
				x := env.newBallotRun(deep)

				return x, func() string { return "ballot:" + x.obs }, func() {
					if err := x.db.DeepClose(); err != nil {
						panic(err)
					}
				}
			},
		})

		c24qBFS(r, c24qSearch{
			id: fmt.Sprintf("p/d%d", deep), events: pevents, depth: c.depth,
			fresh: func() (c24qRunner, func() string, func()) {
				x := env.newProposalRun(deep)

				return x, func() string { return "proposal:" + x.obs }, func() {
					if err := x.db.DeepClose(); err != nil {
						panic(err)
					}
				}
			},
		})
	}
}
