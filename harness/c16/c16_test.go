//go:build verif

package isaacblock

import (
	"compress/gzip"
	"context"
	"crypto/sha256"
	"encoding/hex"
	"fmt"
	"io"
	"os"
	"path/filepath"
	"sort"
	"strings"
	"testing"
	"time"

	"github.com/spikeekips/mitum/base"
	"github.com/spikeekips/mitum/isaac"
	isaacdatabase "github.com/spikeekips/mitum/isaac/database"
	leveldbstorage "github.com/spikeekips/mitum/storage/leveldb"
	"github.com/spikeekips/mitum/util"
	"github.com/spikeekips/mitum/util/fixedtree"
	"github.com/spikeekips/mitum/util/valuehash"
	"github.com/spikeekips/mitum/zzverif/vlib"
)

// C16: a block imported from a sync source is stored only if it would also pass
// the repository's own block validator: operations and states match the
// manifest's tree roots, the proposal matches the manifest, the voteproofs are
// for the manifest's point with an ACCEPT majority for the manifest hash.
//
// Seam: isaacblock.NewBlockImporter + WriteItem(every item) + Save + deferred
// merge (exactly what isaacblock.ImportBlocks does per block) against
// isaacblock.IsValidBlockFromLocalFS over the files the importer wrote.
//
// Every variant is written by the real LocalFSWriter, i.e. the block map is
// really signed over the manifest and the real checksums of what is in the
// files; only the semantic inconsistency of the tamper remains. "served-*"
// tampers additionally model a source that serves, for one item, the file of
// another valid block of the same height (so that the per-item checksum is the
// only defence).
//
// Oracles
//   (D) differential:  stored  =>  IsValidBlockFromLocalFS(imported files) == nil
//   (R) reference, written from the property statement over the written
//       components (sets of hashes, no repository validator code): stored =>
//       no clause of c16Broken is violated.
// One violation is reported per (variant, broken clause) so that the class is
// named by the clause the importer failed to enforce.

const c16H = base.Height(33)

var c16ItemOrder = []base.BlockItemType{
	base.BlockItemProposal,
	base.BlockItemOperations,
	base.BlockItemOperationsTree,
	base.BlockItemStates,
	base.BlockItemStatesTree,
	base.BlockItemVoteproofs,
}

func c16hash(parts ...any) util.Hash {
	return valuehash.NewSHA256([]byte("c16|" + fmt.Sprint(parts...)))
}

type c16env struct {
	BaseTestLocalBlockFS
	t       *testing.T
	work    string
	seq     int
	ops     []base.Operation // real operations
	opR     base.Operation   // replacement of ops[0]
	opX     base.Operation   // extra
	opF     []base.Operation // foreign (donor) operations
	sts     map[string][]base.State
	stR     map[string]base.State
	stX     base.State
	stF     []base.State
	prev    util.Hash
	prReal  base.ProposalSignFact
	prOther base.ProposalSignFact
	vpcache map[string]base.Voteproof
	pragain map[string]base.ProposalSignFact
	donor   string // root of the donor block (another valid block of the same height)
	donorB  *c16block
}

// what gets written (content) and what the manifest claims
type c16block struct {
	ops      []base.Operation
	opstree  fixedtree.Tree
	sts      []base.State
	ststree  fixedtree.Tree
	pr       base.ProposalSignFact
	mOpsRoot util.Hash
	mStsRoot util.Hash
	mPr      util.Hash
	manifest base.Manifest

	vpHeight   base.Height
	avpRound   base.Round
	avpBlock   string // "manifest" | "other"
	avpDraw    bool
	initOnly   bool
	ivp        base.INITVoteproof
	avp        base.ACCEPTVoteproof
	served     map[base.BlockItemType]bool
	recoded    map[base.BlockItemType]bool // the source serves an equivalent but byte-different file
	absent     map[base.BlockItemType]bool // the item is not listed in the (re-signed) block map and not served
	count0     map[base.BlockItemType]bool // the list item is served as an empty list ("count":0 header only), checksum matching
	alt        bool                        // write the equivalent, byte-different form
	rebuildSts bool
	rebuildOps bool
}

type c16tamper struct {
	name  string
	excl  string // comma separated groups; tampers sharing a group are not combined
	apply func(e *c16env, basename string, b *c16block)
}

func c16alphabet() []c16tamper {
	served := func(t base.BlockItemType) c16tamper {
		return c16tamper{name: "served-" + strings.ReplaceAll(t.String(), "_", "-") + "-of-other-block", excl: "served-" + t.String(), apply: func(_ *c16env, _ string, b *c16block) {
			b.served[t] = true
		}}
	}
	// the source serves a semantically identical item whose bytes differ from the ones the map was signed for
	// (proposal / voteproofs signed again, operations / states in another order): only the checksum can tell
	recoded := func(t base.BlockItemType, how string) c16tamper {
		return c16tamper{name: "served-" + strings.ReplaceAll(t.String(), "_", "-") + "-" + how, excl: "served-" + t.String(), apply: func(_ *c16env, _ string, b *c16block) {
			b.recoded[t] = true
		}}
	}

	return []c16tamper{
		{name: "state-replaced", apply: func(e *c16env, bn string, b *c16block) { b.sts[0] = e.stR[bn] }},
		{name: "state-dropped", apply: func(_ *c16env, _ string, b *c16block) { b.sts = b.sts[:len(b.sts)-1] }},
		{name: "state-added", apply: func(e *c16env, _ string, b *c16block) { b.sts = append(b.sts, e.stX) }},
		{name: "states-tree-foreign", excl: "ststree,served-states_tree", apply: func(e *c16env, _ string, b *c16block) { b.ststree = e.statesTree(e.stF) }},
		{name: "states-tree-rebuilt", excl: "ststree,served-states_tree", apply: func(_ *c16env, _ string, b *c16block) { b.rebuildSts = true }},
		{name: "op-replaced", apply: func(e *c16env, _ string, b *c16block) { b.ops[0] = e.opR }},
		{name: "op-dropped", apply: func(_ *c16env, _ string, b *c16block) { b.ops = b.ops[:len(b.ops)-1] }},
		{name: "op-added", apply: func(e *c16env, _ string, b *c16block) { b.ops = append(b.ops, e.opX) }},
		{name: "ops-tree-foreign", excl: "opstree,served-operations_tree", apply: func(e *c16env, _ string, b *c16block) { b.opstree = e.opsTree(e.opF) }},
		{name: "ops-tree-rebuilt", excl: "opstree,served-operations_tree", apply: func(_ *c16env, _ string, b *c16block) { b.rebuildOps = true }},
		{name: "proposal-of-other-block", apply: func(e *c16env, _ string, b *c16block) { b.pr = e.prOther }},
		{name: "manifest-states-root-altered", excl: "mstsroot", apply: func(_ *c16env, _ string, b *c16block) { b.mStsRoot = c16hash("altered states root") }},
		{name: "manifest-ops-root-altered", excl: "mopsroot", apply: func(_ *c16env, _ string, b *c16block) { b.mOpsRoot = c16hash("altered ops root") }},
		{name: "vps-other-height", apply: func(_ *c16env, _ string, b *c16block) { b.vpHeight = c16H + 1 }},
		{name: "vps-point-mismatch", apply: func(_ *c16env, _ string, b *c16block) { b.avpRound = 1 }},
		{name: "avp-other-block", excl: "avp", apply: func(_ *c16env, _ string, b *c16block) { b.avpBlock = "other" }},
		{name: "avp-draw", excl: "avp", apply: func(_ *c16env, _ string, b *c16block) { b.avpDraw = true }},
		{name: "vps-init-only", excl: "avp", apply: func(_ *c16env, _ string, b *c16block) { b.initOnly = true }},
		served(base.BlockItemProposal),
		served(base.BlockItemOperations),
		served(base.BlockItemOperationsTree),
		served(base.BlockItemStates),
		served(base.BlockItemStatesTree),
		served(base.BlockItemVoteproofs),
		recoded(base.BlockItemProposal, "signed-again"),
		recoded(base.BlockItemOperations, "reordered"),
		recoded(base.BlockItemStates, "reordered"),
		recoded(base.BlockItemVoteproofs, "signed-again"),
		// items BlockMap.IsValid tolerates to be missing: the lists always, a tree when the manifest has no root for it
		{name: "operations-item-absent", excl: "served-operations", apply: func(_ *c16env, _ string, b *c16block) { b.absent[base.BlockItemOperations] = true }},
		{name: "states-item-absent", excl: "served-states", apply: func(_ *c16env, _ string, b *c16block) { b.absent[base.BlockItemStates] = true }},
		{name: "operations-count-0", excl: "served-operations", apply: func(_ *c16env, _ string, b *c16block) { b.count0[base.BlockItemOperations] = true }},
		{name: "states-count-0", excl: "served-states", apply: func(_ *c16env, _ string, b *c16block) { b.count0[base.BlockItemStates] = true }},
		{name: "manifest-ops-root-nil", excl: "mopsroot", apply: func(_ *c16env, _ string, b *c16block) { b.mOpsRoot = nil }},
		{name: "manifest-states-root-nil", excl: "mstsroot", apply: func(_ *c16env, _ string, b *c16block) { b.mStsRoot = nil }},
		{name: "ops-tree-item-absent", excl: "opstree,served-operations_tree", apply: func(_ *c16env, _ string, b *c16block) { b.absent[base.BlockItemOperationsTree] = true }},
		{name: "states-tree-item-absent", excl: "ststree,served-states_tree", apply: func(_ *c16env, _ string, b *c16block) { b.absent[base.BlockItemStatesTree] = true }},
	}
}

func (e *c16env) must(err error) {
	if err != nil {
		e.t.Helper()
		e.t.Fatalf("c16 fixture: %+v", err)
	}
}

func (e *c16env) newOp(tag string) base.Operation {
	fact := isaac.NewDummyOperationFact(util.UUID().Bytes(), c16hash("op", tag))
	op, err := isaac.NewDummyOperation(fact, e.Local.Privatekey(), e.LocalParams.NetworkID())
	e.must(err)

	return op
}

func (e *c16env) newState(key, value string) base.State {
	return base.NewBaseState(c16H, key, base.NewDummyStateValue(value), c16hash("prev", key), []util.Hash{c16hash("stop", key, value)})
}

func (e *c16env) opsTree(ops []base.Operation) fixedtree.Tree {
	w, err := fixedtree.NewWriter(base.OperationFixedtreeHint, uint64(len(ops)))
	e.must(err)
	for i := range ops {
		e.must(w.Add(uint64(i), base.NewInStateOperationFixedtreeNode(ops[i].Fact().Hash(), "")))
	}
	tr, err := w.Tree()
	e.must(err)

	return tr
}

func (e *c16env) statesTree(sts []base.State) fixedtree.Tree {
	w, err := fixedtree.NewWriter(base.StateFixedtreeHint, uint64(len(sts)))
	e.must(err)
	for i := range sts {
		e.must(w.Add(uint64(i), fixedtree.NewBaseNode(sts[i].Hash().String())))
	}
	tr, err := w.Tree()
	e.must(err)

	return tr
}

func (e *c16env) proposal(ops []base.Operation, prev util.Hash) base.ProposalSignFact {
	ophs := make([][2]util.Hash, len(ops))
	for i := range ops {
		ophs[i] = [2]util.Hash{ops[i].Hash(), ops[i].Fact().Hash()}
	}
	pr := isaac.NewProposalSignFact(isaac.NewProposalFact(base.NewPoint(c16H, 0), e.Local.Address(), prev, ophs))
	e.must(pr.Sign(e.Local.Privatekey(), e.LocalParams.NetworkID()))

	return pr
}

// the same proposal fact, signed again (other signed_at / signature bytes)
func (e *c16env) signedAgain(pr base.ProposalSignFact) base.ProposalSignFact {
	key := "pr-again|" + pr.Fact().Hash().String()
	if i, found := e.pragain[key]; found {
		return i
	}
	n := isaac.NewProposalSignFact(pr.Fact().(isaac.ProposalFact))
	e.must(n.Sign(e.Local.Privatekey(), e.LocalParams.NetworkID()))
	e.pragain[key] = n

	return n
}

func c16newenv(t *testing.T) *c16env {
	e := &c16env{t: t, vpcache: map[string]base.Voteproof{}, pragain: map[string]base.ProposalSignFact{}, sts: map[string][]base.State{}, stR: map[string]base.State{}}
	e.SetT(t)
	e.BaseTestLocalBlockFS.SetupSuite()
	e.BaseTestBallots.SetupTest() // Local, LocalParams (threshold 100, single signer)

	wd, err := os.Getwd()
	e.must(err)
	e.work, err = os.MkdirTemp(wd, "c16-work-")
	e.must(err)

	e.prev = c16hash("previous block")
	e.ops = []base.Operation{e.newOp("a"), e.newOp("b")}
	e.opR = e.newOp("replacement")
	e.opX = e.newOp("extra")
	e.opF = []base.Operation{e.newOp("foreign a"), e.newOp("foreign b")}

	e.sts["plain"] = []base.State{e.newState("c16-key-a", "a"), e.newState("c16-key-b", "b")}
	e.stR["plain"] = e.newState("c16-key-a", "a replaced")
	e.stX = e.newState("c16-key-x", "x")
	e.stF = []base.State{e.newState("c16-key-fa", "fa"), e.newState("c16-key-fb", "fb")}

	// base "suffrage": the block also carries a suffrage nodes state (BlockImporter.Save builds a SuffrageProof from it)
	_, nodes := e.Locals(2)
	sufst, _ := e.SuffrageState(c16H, 7, nodes)
	e.sts["suffrage"] = []base.State{e.newState("c16-key-a", "a"), sufst, e.newState("c16-key-b", "b")}
	e.stR["suffrage"] = e.stR["plain"]

	e.prReal = e.proposal(e.ops, e.prev)
	e.prOther = e.proposal(e.opF, c16hash("another previous"))

	// donor: a fully valid other block of the same height
	d := &c16block{
		ops: e.opF, opstree: e.opsTree(e.opF), sts: e.stF, ststree: e.statesTree(e.stF), pr: e.prOther,
		vpHeight: c16H, avpBlock: "manifest", served: map[base.BlockItemType]bool{}, recoded: map[base.BlockItemType]bool{}, absent: map[base.BlockItemType]bool{}, count0: map[base.BlockItemType]bool{},
	}
	d.mOpsRoot, d.mStsRoot, d.mPr = d.opstree.Root(), d.ststree.Root(), d.pr.Fact().Hash()
	e.donor = filepath.Join(e.work, "donor")
	e.must(os.MkdirAll(e.donor, 0o700))
	e.write(e.donor, d, "donor")
	e.donorB = d

	return e
}

func (e *c16env) voteproofs(b *c16block) {
	ipoint := base.NewPoint(b.vpHeight, 0)
	apoint := base.NewPoint(b.vpHeight, b.avpRound)

	ikey := fmt.Sprintf("init|%v|%v|%v", ipoint, b.mPr, b.alt)
	if _, found := e.vpcache[ikey]; !found {
		ifact := e.NewINITBallotFact(ipoint, e.prev, b.mPr)
		ivp, err := e.NewINITVoteproof(ifact, e.Local, []base.LocalNode{e.Local})
		e.must(err)
		e.vpcache[ikey] = ivp
	}
	b.ivp = e.vpcache[ikey].(base.INITVoteproof)

	if b.initOnly {
		b.avp = nil

		return
	}

	newblock := b.manifest.Hash()
	if b.avpBlock == "other" {
		newblock = c16hash("another new block")
	}

	akey := fmt.Sprintf("accept|%v|%v|%v|%v|%v", apoint, b.mPr, newblock, b.avpDraw, b.alt)
	if _, found := e.vpcache[akey]; !found {
		afact := e.NewACCEPTBallotFact(apoint, b.mPr, newblock)

		switch {
		case b.avpDraw:
			sf := isaac.NewACCEPTBallotSignFact(afact)
			e.must(sf.NodeSign(e.Local.Privatekey(), e.LocalParams.NetworkID(), e.Local.Address()))
			vp := isaac.NewACCEPTVoteproof(apoint)
			vp.SetSignFacts([]base.BallotSignFact{sf}).SetThreshold(e.LocalParams.Threshold()).Finish()
			if vp.Result() != base.VoteResultDraw {
				e.t.Fatalf("c16 fixture: expected a DRAW voteproof")
			}
			e.vpcache[akey] = vp
		default:
			avp, err := e.NewACCEPTVoteproof(afact, e.Local, []base.LocalNode{e.Local})
			e.must(err)
			e.vpcache[akey] = avp
		}
	}
	b.avp = e.vpcache[akey].(base.ACCEPTVoteproof)
}

// write the block with the real LocalFSWriter; returns the signed map
func (e *c16env) write(root string, b *c16block, id string) base.BlockMap {
	ctx := context.Background()

	if b.rebuildOps {
		b.opstree = e.opsTree(b.ops)
	}
	if b.rebuildSts {
		b.ststree = e.statesTree(b.sts)
	}

	if b.mPr == nil {
		b.mPr = e.prReal.Fact().Hash()
	}
	b.manifest = isaac.NewManifest(c16H, e.prev, b.mPr, b.mOpsRoot, b.mStsRoot, c16hash("suffrage"),
		time.Date(2022, 7, 1, 0, 0, 0, 0, time.UTC))
	e.voteproofs(b)

	fs, err := NewLocalFSWriter(root, c16H, e.Enc, e.Enc, e.Local, e.LocalParams.NetworkID())
	e.must(err)

	ops, sts, pr := b.ops, b.sts, b.pr
	if b.alt {
		ops = make([]base.Operation, len(b.ops))
		for i := range b.ops {
			ops[len(b.ops)-1-i] = b.ops[i]
		}
		sts = make([]base.State, len(b.sts))
		for i := range b.sts {
			sts[len(b.sts)-1-i] = b.sts[i]
		}
		pr = e.signedAgain(b.pr)
	}

	opsT, stsT, opsTreeT, stsTreeT := base.BlockItemOperations, base.BlockItemStates, base.BlockItemOperationsTree, base.BlockItemStatesTree

	switch {
	case b.count0[opsT]:
		fs.opsHeaderOnce.Do(func() {
			e.must(writeCountHeader(fs.opsf, LocalFSWriterHint, fs.enc.Hint(), 0))
		})
	default:
		for i := range ops {
			e.must(fs.SetOperation(ctx, uint64(len(ops)), uint64(i), ops[i]))
		}
	}
	if !b.absent[opsTreeT] {
		e.must(fs.SetOperationsTree(ctx, b.opstree)) // also closes the operations file and lists it when it has operations
	}
	_ = fs.opsf.Close()
	switch {
	case b.absent[opsT]:
		_ = fs.m.items.SetValue(opsT, nil) // LocalFSWriter.save drops the file of an item that is not listed
	case b.count0[opsT], b.absent[opsTreeT] && len(ops) > 0:
		e.must(fs.m.SetItem(NewBlockMapItem(opsT, fs.opsf.Checksum())))
	}

	e.must(fs.SetProposal(ctx, pr))

	switch {
	case b.count0[stsT]:
		fs.statesHeaderOnce.Do(func() {
			e.must(writeCountHeader(fs.stsf, LocalFSWriterHint, fs.enc.Hint(), 0))
		})
	default:
		for i := range sts {
			e.must(fs.SetState(ctx, uint64(len(sts)), uint64(i), sts[i]))
		}
	}
	if !b.absent[stsTreeT] {
		e.must(fs.SetStatesTree(ctx, b.ststree)) // also closes the states file and lists it
	}
	_ = fs.stsf.Close()
	switch {
	case b.absent[stsT]:
		_ = fs.m.items.SetValue(stsT, nil)
	case b.absent[stsTreeT]:
		e.must(fs.m.SetItem(NewBlockMapItem(stsT, fs.stsf.Checksum())))
	}

	if b.initOnly {
		// a voteproofs file holding the INIT voteproof only (same file layout as LocalFSWriter.saveVoteproofs)
		f, err := fs.newChecksumWriter(base.BlockItemVoteproofs)
		e.must(err)
		e.must(writeBaseHeader(f, isaac.BlockItemFileBaseItemsHeader{Writer: LocalFSWriterHint, Encoder: fs.enc.Hint()}))
		e.must(fs.appendfile(f, b.ivp))
		e.must(f.Close())
		e.must(fs.m.SetItem(NewBlockMapItem(base.BlockItemVoteproofs, f.Checksum())))
		_, err = fs.bfiles.SetItem(base.BlockItemVoteproofs, isaac.NewLocalFSBlockItemFile(f.Name(), ""))
		e.must(err)
	} else {
		e.must(fs.SetINITVoteproof(ctx, b.ivp))
		e.must(fs.SetACCEPTVoteproof(ctx, b.avp))
	}
	e.must(fs.SetManifest(ctx, b.manifest))

	m, err := fs.Save(ctx)
	if err != nil {
		e.t.Fatalf("c16 fixture %s: LocalFSWriter.Save: %+v", id, err)
	}

	return m
}

func c16itemPath(e *c16env, root string, t base.BlockItemType) string {
	n, err := DefaultBlockItemFileName(t, e.Enc.Hint().Type())
	e.must(err)

	return filepath.Join(root, isaac.BlockHeightDirectory(c16H), n)
}

// sha256 (hex) of the decompressed content of an item file, computed without repository code
func c16fileChecksum(e *c16env, p string) string {
	f, err := os.Open(p)
	e.must(err)
	defer f.Close()

	var rd io.Reader = f
	if strings.HasSuffix(p, ".gz") {
		gr, err := gzip.NewReader(f)
		e.must(err)
		defer gr.Close()
		rd = gr
	}
	h := sha256.New()
	_, err = io.Copy(h, rd)
	e.must(err)

	return hex.EncodeToString(h.Sum(nil))
}

func c16sorted(l []string) string {
	sort.Strings(l)

	return strings.Join(l, ",")
}

// c16Broken is the reference predicate: which clauses of the property statement does the served content break?
func c16Broken(e *c16env, src string, m base.BlockMap, b *c16block) []string {
	var broken []string
	man := m.Manifest()

	// what is really served: a list that is absent or has "count":0 serves nothing, an absent tree has no nodes
	ops, sts := b.ops, b.sts
	if b.absent[base.BlockItemOperations] || b.count0[base.BlockItemOperations] {
		ops = nil
	}
	if b.absent[base.BlockItemStates] || b.count0[base.BlockItemStates] {
		sts = nil
	}

	// operations <-> operations tree <-> manifest root
	var opkeys, opnodes []string
	for i := range ops {
		opkeys = append(opkeys, ops[i].Fact().Hash().String())
	}
	var opsroot util.Hash
	if !b.absent[base.BlockItemOperationsTree] && b.opstree.Len() > 0 {
		opsroot = b.opstree.Root()
		_ = b.opstree.Traverse(func(_ uint64, n fixedtree.Node) (bool, error) {
			opnodes = append(opnodes, strings.TrimSuffix(n.Key(), "-"))

			return true, nil
		})
	}
	if c16sorted(opkeys) != c16sorted(opnodes) {
		broken = append(broken, "operations-vs-tree")
	}
	switch {
	case man.OperationsTree() == nil && opsroot == nil: // a block without operations
	case man.OperationsTree() == nil || opsroot == nil || !opsroot.Equal(man.OperationsTree()):
		broken = append(broken, "operations-tree-root")
	}

	// states <-> states tree <-> manifest root
	var stkeys, stnodes []string
	for i := range sts {
		stkeys = append(stkeys, sts[i].Hash().String())
		if sts[i].Height() != man.Height() {
			broken = append(broken, "state-height")
		}
	}
	var stsroot util.Hash
	if !b.absent[base.BlockItemStatesTree] && b.ststree.Len() > 0 {
		stsroot = b.ststree.Root()
		_ = b.ststree.Traverse(func(_ uint64, n fixedtree.Node) (bool, error) {
			stnodes = append(stnodes, n.Key())

			return true, nil
		})
	}
	if c16sorted(stkeys) != c16sorted(stnodes) {
		broken = append(broken, "states-vs-tree")
	}
	switch {
	case man.StatesTree() == nil && stsroot == nil: // a block without states
	case man.StatesTree() == nil || stsroot == nil || !stsroot.Equal(man.StatesTree()):
		broken = append(broken, "states-tree-root")
	}

	// proposal
	if !b.pr.Fact().Hash().Equal(man.Proposal()) || b.pr.Point().Height() != man.Height() {
		broken = append(broken, "proposal")
	}

	// voteproofs
	switch {
	case b.ivp == nil || b.avp == nil:
		broken = append(broken, "voteproofs-missing")
	default:
		if b.ivp.Point().Height() != man.Height() || b.avp.Point().Height() != man.Height() {
			broken = append(broken, "voteproofs-height")
		}
		if !b.ivp.Point().Point.Equal(b.avp.Point().Point) {
			broken = append(broken, "voteproofs-point-mismatch")
		}
		switch {
		case b.avp.Result() != base.VoteResultMajority || b.avp.BallotMajority() == nil:
			broken = append(broken, "accept-not-majority")
		case !b.avp.BallotMajority().NewBlock().Equal(man.Hash()):
			broken = append(broken, "accept-other-block")
		}
	}

	// every served item is the one the signed map lists
	for _, t := range c16ItemOrder {
		item, found := m.Item(t)
		if !found {
			continue
		}
		if c16fileChecksum(e, c16itemPath(e, src, t)) != item.Checksum() {
			broken = append(broken, "item-checksum")

			break
		}
	}

	return broken
}

func c16copy(e *c16env, from, to string) {
	b, err := os.ReadFile(from)
	e.must(err)
	e.must(os.WriteFile(to, b, 0o600))
}

func c16class(err error) string {
	if err == nil {
		return "ok"
	}
	s := err.Error()
	for _, k := range []string{
		"checksum does not match",
		"voteproofs with manifest",
		"proposal with manifest",
		"operations and tree with manifest",
		"states and tree with manifest",
		"make proof of suffrage state",
		"missing",
		"not yet finished",
	} {
		if strings.Contains(s, k) {
			return strings.ReplaceAll(k, " ", "-")
		}
	}

	return "other"
}

type c16result struct {
	badmap  bool  // the block map is not well formed: outside the quantifier
	itemerr error // first WriteItem error
	stored  bool
	imperr  error
	valerr  error
	srcerr  error
	broken  []string
	tampers []string
}

// returns the result of driver 1 (stop at the first WriteItem error) and, if withcont and a WriteItem failed, of driver 2
// (the caller ignores WriteItem errors, writes the remaining items and calls Save + merge anyway) over the same served files
func (e *c16env) run(basename, order string, tampers []c16tamper, withcont bool) []c16result {
	e.seq++
	src := filepath.Join(e.work, fmt.Sprintf("src-%d", e.seq))
	dst := filepath.Join(e.work, fmt.Sprintf("dst-%d", e.seq))
	e.must(os.MkdirAll(src, 0o700))
	e.must(os.MkdirAll(dst, 0o700))
	defer func() {
		_ = os.RemoveAll(src)
		_ = os.RemoveAll(dst)
	}()

	var res c16result

	b := &c16block{
		ops: append([]base.Operation{}, e.ops...), sts: append([]base.State{}, e.sts[basename]...), pr: e.prReal,
		vpHeight: c16H, avpBlock: "manifest", served: map[base.BlockItemType]bool{}, recoded: map[base.BlockItemType]bool{}, absent: map[base.BlockItemType]bool{}, count0: map[base.BlockItemType]bool{},
	}
	b.opstree = e.opsTree(b.ops)
	b.ststree = e.statesTree(b.sts)
	b.mOpsRoot, b.mStsRoot = b.opstree.Root(), b.ststree.Root()

	for i := range tampers {
		res.tampers = append(res.tampers, tampers[i].name)
		tampers[i].apply(e, basename, b)
	}

	id := strings.Join(res.tampers, "+")
	_ = e.write(src, b, id)

	// the source serves, for these items, the file of the donor block
	for _, t := range c16ItemOrder {
		if !b.served[t] {
			continue
		}
		c16copy(e, c16itemPath(e, e.donor, t), c16itemPath(e, src, t))
		switch t {
		case base.BlockItemProposal:
			b.pr = e.donorB.pr
		case base.BlockItemOperations:
			b.ops = e.donorB.ops
		case base.BlockItemOperationsTree:
			b.opstree = e.donorB.opstree
		case base.BlockItemStates:
			b.sts = e.donorB.sts
		case base.BlockItemStatesTree:
			b.ststree = e.donorB.ststree
		case base.BlockItemVoteproofs:
			b.ivp, b.avp = e.donorB.ivp, e.donorB.avp
		}
	}

	if len(b.recoded) > 0 {
		altroot := filepath.Join(e.work, fmt.Sprintf("alt-%d", e.seq))
		e.must(os.MkdirAll(altroot, 0o700))
		ab := *b
		ab.alt = true
		am := e.write(altroot, &ab, id+"(alt)")
		if !am.Manifest().Hash().Equal(b.manifest.Hash()) {
			e.t.Fatalf("c16 fixture %s: the equivalent block has another manifest", id)
		}
		for _, t := range c16ItemOrder {
			if b.recoded[t] {
				from, to := c16itemPath(e, altroot, t), c16itemPath(e, src, t)
				if c16fileChecksum(e, from) == c16fileChecksum(e, to) {
					continue // a list of one element has no other order: the variant degenerates to its other tampers
				}
				c16copy(e, from, to)
			}
		}
		_ = os.RemoveAll(altroot)
	}

	srcReaders := e.NewReaders(src)
	defer srcReaders.Close()

	// what a syncer gets first: the signed map (must be a valid signed map: precondition of the quantifier)
	m, found, err := isaac.BlockItemReadersDecode[base.BlockMap](srcReaders.Item, c16H, base.BlockItemMap, nil)
	e.must(err)
	if !found {
		e.t.Fatalf("c16 fixture %s: map not found", id)
	}
	if err := m.IsValid(e.LocalParams.NetworkID()); err != nil {
		// only by construction: a tree item left out although the manifest has its root; the syncer refuses such a map
		if !strings.Contains(err.Error(), "empty operations tree") && !strings.Contains(err.Error(), "empty states tree") {
			e.t.Fatalf("c16 fixture %s: the re-signed block map is not valid: %+v", id, err)
		}
		res.badmap = true

		return []c16result{res}
	}

	res.broken = c16Broken(e, src, m, b)

	// reference validator on the served files (information only)
	res.srcerr = IsValidBlockFromLocalFS(srcReaders.Item, c16H, e.LocalParams.NetworkID(), nil, nil, nil)

	items := append([]base.BlockItemType{}, c16ItemOrder...)
	if order == "rev" {
		for i, j := 0, len(items)-1; i < j; i, j = i+1, j-1 {
			items[i], items[j] = items[j], items[i]
		}
	}

	// the importer, driven like isaacblock.importBlock + saveImporters; one fresh importer, database and root per driver
	doimport := func(res c16result, cont bool, dst string) c16result {
		bwdb := isaacdatabase.NewLeveldbBlockWrite(c16H, leveldbstorage.NewMemStorage(), e.Encs, e.Enc)
		defer bwdb.DeepClose()

		merged := false
		im, err := NewBlockImporter(dst, e.Encs, m, bwdb, func(context.Context) error {
			merged = true

			return nil
		}, e.LocalParams.NetworkID())
		e.must(err)

		for _, t := range items {
			if _, found := m.Item(t); !found {
				continue
			}
			_, found, err := srcReaders.Item(c16H, t, func(ir isaac.BlockItemReader) error {
				return im.WriteItem(t, ir)
			})
			if err == nil && !found {
				err = fmt.Errorf("item %q not found in source", t)
			}
			if err != nil {
				if res.itemerr == nil {
					res.itemerr = err
				}
				if !cont {
					res.imperr = err

					break
				}
			}
		}

		if res.imperr == nil {
			switch deferred, err := im.Save(context.Background()); {
			case err != nil:
				res.imperr = err
			default:
				res.imperr = deferred(context.Background())
			}
		}

		if res.imperr != nil {
			_ = im.CancelImport(context.Background())

			return res
		}

		if !merged {
			e.t.Fatalf("c16 %s: Save succeeded but the merge callback did not run", id)
		}

		res.stored = true

		dstReaders := e.NewReaders(dst)
		defer dstReaders.Close()

		res.valerr = IsValidBlockFromLocalFS(dstReaders.Item, c16H, e.LocalParams.NetworkID(), nil, nil, nil)

		return res
	}

	out := []c16result{doimport(res, false, dst)}
	// whatever the caller does with a WriteItem error, the block must not be stored: write the rest, Save, merge
	if withcont && out[0].itemerr != nil {
		dst2 := dst + "-cont"
		e.must(os.MkdirAll(dst2, 0o700))
		defer os.RemoveAll(dst2)
		out = append(out, doimport(res, true, dst2))
	}

	return out
}

func c16subsets(n, depth int, ok func([]int) bool) [][]int {
	var out [][]int
	var rec func(start int, cur []int)
	rec = func(start int, cur []int) {
		if ok(cur) {
			out = append(out, append([]int{}, cur...))
		}
		if len(cur) == depth {
			return
		}
		for i := start; i < n; i++ {
			rec(i+1, append(cur, i))
		}
	}
	rec(0, nil)

	return out
}

func TestVerifC16(t *testing.T) {
	r := vlib.Start("C16")
	defer r.Finish()

	r.Rule("one real block (2 operations, 2 states, proposal, INIT+ACCEPT voteproofs, really signed map) per base; every subset of <= depth tampers of the alphabet " +
		"(mutually exclusive tampers of one component not combined) is written by the real LocalFSWriter (map re-signed, checksums recomputed), " +
		"imported by the real BlockImporter (driver 1: stop at the first WriteItem error like ImportBlocks; driver 2, whenever a WriteItem failed: ignore the error, write the remaining items, Save and merge anyway) " +
		"and, if stored, validated by IsValidBlockFromLocalFS; non-trivial = the reference predicate names at least one broken clause")
	r.Assume("signature/hash primitives and the individual IsValid methods are trusted; the block map is a valid map signed by the source node (the syncer checks that before importing)")

	e := c16newenv(t)
	defer os.RemoveAll(e.work)

	alphabet := c16alphabet()

	type combo struct {
		base, order string
		depth       int
	}
	combos := []combo{{"plain", "fwd", 2}}
	if _, replaying := r.Replaying(); r.Thorough() || replaying { // a replay runs in the quick tier: enumerate the thorough superset, r.Want filters
		combos = []combo{{"plain", "fwd", 3}, {"plain", "rev", 2}, {"suffrage", "fwd", 2}, {"suffrage", "rev", 2}}
	}
	r.Set("tamper_alphabet", len(alphabet))
	r.Set("combos_base_order_maxtampers", fmt.Sprint(combos))

	subsetsOf := func(depth int) [][]int {
		return c16subsets(len(alphabet), depth, func(cur []int) bool {
			seen := map[string]bool{}
			for _, i := range cur {
				for _, g := range strings.Split(alphabet[i].excl, ",") {
					if g == "" {
						continue
					}
					if seen[g] {
						return false
					}
					seen[g] = true
				}
			}

			return true
		})
	}

	// sanity (every shard): the untampered block is stored and accepted, otherwise nothing below means anything
	for _, bn := range []string{"plain", "suffrage"} {
		res := e.run(bn, "fwd", nil, false)[0]
		if !res.stored || res.valerr != nil || res.srcerr != nil || len(res.broken) > 0 {
			t.Fatalf("c16: untampered block (base %s) not stored/valid: importer=%v validator=%v source=%v broken=%v",
				bn, res.imperr, res.valerr, res.srcerr, res.broken)
		}
	}

	idx := 0
	for _, cb := range combos {
		bn, order := cb.base, cb.order
		subsets := subsetsOf(cb.depth)
		{
			for _, ss := range subsets {
				idx++
				if !r.Mine(idx) {
					continue
				}
				if r.Expired() {
					return
				}

				tampers := make([]c16tamper, len(ss))
				names := make([]string, len(ss))
				for i := range ss {
					tampers[i] = alphabet[ss[i]]
					names[i] = alphabet[ss[i]].name
				}
				baseid := fmt.Sprintf("base=%s/order=%s/tampers=%s", bn, order, strings.Join(names, "+"))
				contid := baseid + "/driver=continue-after-writeitem-error"
				wantStop, wantCont := r.Want(baseid), r.Want(contid)
				if !wantStop && !wantCont {
					continue
				}

				results := e.run(bn, order, tampers, wantCont)
				first := results[0]
				if first.badmap {
					r.Add("skipped_block_map_not_wellformed", 1)
					r.Outcome("precondition:block-map-not-wellformed")

					continue
				}

				type one struct {
					id   string
					res  c16result
					cont bool
				}
				var runs []one
				if wantStop {
					runs = append(runs, one{baseid, first, false})
				}
				if len(results) > 1 {
					runs = append(runs, one{contid, results[1], true})
				}

				for _, x := range runs {
					id, res := x.id, x.res
					r.Eval()
					r.Trace()
					r.State(id)
					if len(res.broken) > 0 {
						r.Nontrivial(id)
					}

					mode := ""
					if x.cont {
						mode = "continued-after:" + c16class(res.itemerr) + "/"
					}
					switch {
					case !res.stored:
						r.Outcome(mode + "importer-rejects:" + c16class(res.imperr) + "/source-validator:" + c16class(res.srcerr))
					default:
						r.Outcome(mode + "stored/validator:" + c16class(res.valerr))
					}
					r.Sample(map[string]any{"case": id, "stored": res.stored, "importer": fmt.Sprint(res.imperr), "validator_on_imported": fmt.Sprint(res.valerr), "broken_clauses": res.broken})

					if !res.stored {
						if len(res.broken) == 0 {
							r.Add("wellformed_rejected_by_importer", 1) // not a violation of the (one-directional) property
						}

						continue
					}

					r.Add("stored", 1)
					validator := "accepts"
					if res.valerr != nil {
						validator = "rejects"
					}

					detail := fmt.Sprintf("BlockImporter stored the block (Save + merge returned nil; first WriteItem error: %v) although %v; IsValidBlockFromLocalFS on the imported files: %v; tampers: %v",
						res.itemerr, res.broken, res.valerr, names)
					replay := map[string]any{"base": bn, "order": order, "tampers": names, "continue_after_writeitem_error": x.cont}

					switch {
					case len(res.broken) > 0:
						for _, c := range res.broken {
							r.Violation(id, map[string]any{"kind": "importer-accepts", "clause": c, "validator": validator, "writeitem_error_ignored": x.cont}, detail, replay)
						}
					case res.valerr != nil:
						// differential mismatch that the reference predicate does not explain
						r.Violation(id, map[string]any{"kind": "importer-accepts", "clause": "none", "validator": "rejects:" + c16class(res.valerr), "writeitem_error_ignored": x.cont}, detail, replay)
					}
				}
			}
		}
	}
}
