//go:build verif

package leveldbstorage

import (
	"context"
	"fmt"
	"os"
	"sort"
	"strings"
	"testing"

	"github.com/spikeekips/mitum/zzverif/vlib"
	"github.com/spikeekips/mitum/zzverif/vsched"
	"github.com/syndtr/goleveldb/leveldb"
	leveldbOpt "github.com/syndtr/goleveldb/leveldb/opt"
	leveldbStorage "github.com/syndtr/goleveldb/leveldb/storage"
	leveldbutil "github.com/syndtr/goleveldb/leveldb/util"
)

// C25 (concurrent half, engine S): prefix isolation also holds when two
// PrefixStorage views that share one Storage are used by 2-3 threads at once.
//
// The two prefixes are P and Q = P+x (P is a byte-prefix of Q, as in the
// sequential half), so in the reference model - ONE sorted map raw-key -> value,
// the view of a prefix = the raw keys that have it as a byte prefix - the keys
// of view Q are also keys of view P (as suffix x+k) and nothing else is shared.
//
// storage/leveldb/prefix.go, storage/leveldb/db.go and util/lock.go are compiled
// with the scheduler shims: every lock acquisition of a view (key(), origkey(),
// Close, Remove), of the storage (db(), Close) and of the BatchFunc batch holder
// is a scheduling point; goleveldb itself (Get / Has / Put / Delete / Write /
// NewIterator, which takes a snapshot) runs as an atomic step of the caller.
//
// Oracle. Nothing in the property makes Remove, RemoveByPrefix, BatchRemove or a
// BatchFunc writer atomic, so the model executes every call as the sequence of
// atomic storage steps the API is made of (closed-check of the view, closed-check
// of the storage, ONE snapshot read or ONE batch write per step; BatchRemove =
// repeat {snapshot of the next `limit` keys of the range; delete them}). An
// execution is accepted iff some interleaving of these model steps that respects
// program order and real time (a call that returned before another was invoked
// comes first) gives every call the answer it really returned and ends in exactly
// the raw content that is really in goleveldb at quiescence. Model steps only ever
// touch raw keys under the prefix (or inside the range) of the call they belong
// to, so a write that lands outside, a foreign or wrongly named key in an answer,
// or a lost own write cannot be explained. For views with disjoint key sets this
// is exactly the per-view statement (linearizability is local); for the nested
// pair it is the same statement on the shared raw keys. Two direct checks run
// first and name the class: every raw key whose final value differs from the
// seed lies in the footprint of some call of the scenario; every key/value
// delivered by Get / Iter is a seed entry or was written by a call, under the
// view's prefix and inside the requested range. No deadlock, no panic.
//
// Which error a refused call returns is not judged (any error = "err"). While the
// STORAGE is being closed an Iter that already holds the db handle returns an
// empty answer without error (db.go: `if !seek() { return nil }`): recorded as an
// outcome, not judged (it reveals nothing).

type c25cOp struct {
	kind   string // put del get exists iter batch bfunc remove rbp brm close sclose
	view   int
	key    string   // put del get exists; batch: the key put
	key2   string   // batch: the key deleted
	keys   []string // bfunc: keys put (flush after every 2)
	start  *string  // iter: view-relative bounds; brm: view-relative sub-range (nil,nil = BytesPrefix of the view)
	limit  *string
	asc    bool
	n      int // brm batch limit
	val    string
	thread int
}

func (o c25cOp) String() string {
	v := fmt.Sprintf("v%d.", o.view)

	switch o.kind {
	case "put", "del", "get", "exists":
		return fmt.Sprintf("%s%s(%x)", v, o.kind, o.key)
	case "iter":
		return fmt.Sprintf("%siter([%s,%s),asc=%v)", v, c25x(o.start), c25x(o.limit), o.asc)
	case "batch":
		return fmt.Sprintf("%sbatch(put %x,del %x)", v, o.key, o.key2)
	case "bfunc":
		return fmt.Sprintf("%sbatchfunc(put %x)", v, strings.Join(o.keys, ","))
	case "brm":
		if o.start == nil && o.limit == nil {
			return fmt.Sprintf("BatchRemove(BytesPrefix(v%d),%d)", o.view, o.n)
		}

		return fmt.Sprintf("BatchRemove(v%d+[%s,%s),%d)", o.view, c25x(o.start), c25x(o.limit), o.n)
	case "rbp":
		return fmt.Sprintf("RemoveByPrefix(v%d)", o.view)
	case "sclose":
		return "Storage.Close"
	}

	return v + o.kind
}

type c25cScenario struct {
	name    string
	threads [][]c25cOp
}

func (s c25cScenario) id(pair string) string {
	var ts []string

	for _, t := range s.threads {
		var xs []string
		for _, o := range t {
			xs = append(xs, o.String())
		}

		ts = append(ts, strings.Join(xs, ","))
	}

	return fmt.Sprintf("%s/%s|%s", pair, s.name, strings.Join(ts, " || "))
}

func (s c25cScenario) has(kind string) bool {
	for _, t := range s.threads {
		for _, o := range t {
			if o.kind == kind {
				return true
			}
		}
	}

	return false
}

// ---------------------------------------------------------------- the step model

type c25cState struct {
	m       c25model // treated as immutable; writes clone
	vclosed [2]bool
	sclosed bool
}

type c25cProg struct {
	pc      int
	started bool
	snap    []string // raw keys seen by the last snapshot of remove / rbp / brm
	start   string   // brm: moving raw start
	removed int
	done    bool
	res     string
}

func (p c25cProg) key() string {
	if p.done {
		return "D"
	}

	return fmt.Sprintf("%d,%v,%x,%x,%d", p.pc, p.started, strings.Join(p.snap, "\x01"), p.start, p.removed)
}

type c25cEnv struct {
	pfx      [2]string
	vcl, scl bool // the scenario contains a view close / a storage close (otherwise the check steps are no-ops and are left out)
	seed     c25model
	pairName string
}

// steps of a call; loopTo is where a BatchRemove continues after its last step.
func (e *c25cEnv) steps(o c25cOp) (steps []string, loopTo int) {
	loopTo = -1

	add := func(s ...string) {
		for _, x := range s {
			switch {
			case x == "vchk" && !e.vcl, x == "schk" && !e.scl:
			default:
				steps = append(steps, x)
			}
		}
	}

	switch o.kind {
	case "put", "del", "get", "exists", "iter":
		add("vchk", "schk", o.kind)
	case "batch":
		add("vchk", "schk", "wbatch")
	case "bfunc":
		add("vchk") // the writer takes the prefix when it is created

		for i := 0; i < len(o.keys); i += 2 {
			add("schk", fmt.Sprintf("wb%d", i))
		}
	case "remove":
		add("vchk", "schk", "ksnap", "schk", "wsnapdel")
	case "rbp":
		add("schk", "ksnap", "schk", "wsnapdel")
	case "brm":
		add("schk")
		loopTo = len(steps)
		add("schk", "brmsnap", "schk", "brmwrite")
	case "close":
		add("vclose")
	case "sclose":
		add("sclose")
	default:
		panic("unknown op " + o.kind)
	}

	return steps, loopTo
}

func c25cErr(o c25cOp, pg c25cProg) string {
	if o.kind == "brm" {
		return fmt.Sprintf("err:%d", pg.removed)
	}

	return "err"
}

func c25cInRange(k string, start string, limit *string) bool {
	return k >= start && (limit == nil || k < *limit)
}

// brmRange: the raw range of a BatchRemove call.
func (e *c25cEnv) brmRange(o c25cOp) (string, *string) {
	p := e.pfx[o.view]

	if o.start == nil && o.limit == nil {
		rg := leveldbutil.BytesPrefix([]byte(p))

		var lim *string

		if rg.Limit != nil {
			s := string(rg.Limit)
			lim = &s
		}

		return string(rg.Start), lim
	}

	s, l := p+*o.start, p+*o.limit

	return s, &l
}

// step executes the next model step of call o.
func (e *c25cEnv) step(o c25cOp, pg c25cProg, s c25cState) (c25cProg, c25cState) {
	steps, loopTo := e.steps(o)
	p := e.pfx[o.view]
	name := steps[pg.pc]

	finish := func(res string) { pg.done, pg.res = true, res }

	pg.started = true

	write := func(f func(m c25model)) {
		s.m = s.m.clone()
		f(s.m)
	}

	switch {
	case name == "vchk":
		if s.vclosed[o.view] {
			finish(c25cErr(o, pg))
		}
	case name == "schk":
		if s.sclosed {
			finish(c25cErr(o, pg))
		}
	case name == "put":
		if s.sclosed {
			finish("err")
		} else {
			write(func(m c25model) { m[p+o.key] = o.val })
		}
	case name == "del":
		if s.sclosed {
			finish("err")
		} else {
			write(func(m c25model) { delete(m, p+o.key) })
		}
	case name == "get":
		switch v, found := s.m[p+o.key]; {
		case s.sclosed:
			finish("err")
		case found:
			finish("ok:" + v)
		default:
			finish("none")
		}
	case name == "exists":
		_, found := s.m[p+o.key]

		if s.sclosed {
			finish("err")
		} else {
			finish(fmt.Sprintf("ok:%v", found))
		}
	case name == "iter":
		if s.sclosed {
			finish("ok:[]") // see the header: not judged
		} else {
			finish("ok:" + c25kvs(s.m.view(p, o.start, o.limit, o.asc)))
		}
	case name == "wbatch":
		if s.sclosed {
			finish("err")
		} else {
			write(func(m c25model) {
				m[p+o.key] = o.val
				delete(m, p+o.key2)
			})
		}
	case strings.HasPrefix(name, "wb"):
		var i int
		fmt.Sscanf(name, "wb%d", &i)

		if s.sclosed {
			finish("err")
		} else {
			write(func(m c25model) {
				for j := i; j < i+2 && j < len(o.keys); j++ {
					m[p+o.keys[j]] = o.val
				}
			})
		}
	case name == "ksnap":
		pg.snap = nil

		if !s.sclosed {
			for _, k := range s.m.keys() {
				if strings.HasPrefix(k, p) {
					pg.snap = append(pg.snap, k)
				}
			}
		}
	case name == "wsnapdel":
		if s.sclosed {
			finish("err")
		} else {
			snap := pg.snap
			write(func(m c25model) {
				for _, k := range snap {
					delete(m, k)
				}
			})
		}
	case name == "brmsnap":
		_, rl := e.brmRange(o) // pg.start was initialised with the start of the range

		pg.snap = nil

		if !s.sclosed {
			for _, k := range s.m.keys() {
				if !c25cInRange(k, pg.start, rl) {
					continue
				}

				if len(pg.snap) == o.n {
					pg.start = k

					break
				}

				pg.snap = append(pg.snap, k)
			}
		}

		if len(pg.snap) == 0 {
			finish(fmt.Sprintf("ok:%d", pg.removed))
		}
	case name == "brmwrite":
		if s.sclosed {
			finish(c25cErr(o, pg))
		} else {
			snap := pg.snap
			write(func(m c25model) {
				for _, k := range snap {
					delete(m, k)
				}
			})

			pg.removed += len(snap)
		}
	case name == "vclose":
		s.vclosed[o.view] = true
	case name == "sclose":
		s.sclosed = true
	default:
		panic("unknown step " + name)
	}

	if pg.done {
		return pg, s
	}

	pg.pc++

	if pg.pc == len(steps) {
		if loopTo >= 0 {
			pg.pc = loopTo
		} else {
			finish("ok")
		}
	}

	return pg, s
}

type c25cEvent struct {
	op        c25cOp
	call, ret int
	res       string
	kvs       []c25kv // iter: what the callback saw
}

// explained: is there an interleaving of the model steps, consistent with
// program order and real time, that yields every observed answer and the
// observed final raw content?
func (e *c25cEnv) explained(evs []c25cEvent, final string) bool {
	n := len(evs)
	progs := make([]c25cProg, n)
	dead := map[string]bool{}

	for i := range evs {
		if evs[i].op.kind == "brm" {
			progs[i].start, _ = e.brmRange(evs[i].op)
		}
	}

	var rec func(s c25cState, ndone int) bool

	rec = func(s c25cState, ndone int) bool {
		if ndone == n {
			return s.m.canon() == final
		}

		var sb strings.Builder

		fmt.Fprintf(&sb, "%v%v|%s", s.vclosed, s.sclosed, s.m.canon())

		for i := range progs {
			sb.WriteString("|" + progs[i].key())
		}

		key := sb.String()
		if dead[key] {
			return false
		}

		for i := 0; i < n; i++ {
			if progs[i].done {
				continue
			}

			if !progs[i].started {
				// the first step of i needs every call that returned before i was invoked to be complete
				ok := true

				for j := 0; j < n; j++ {
					if j != i && !progs[j].done && evs[j].ret < evs[i].call {
						ok = false

						break
					}
				}

				if !ok {
					continue
				}
			}

			saved := progs[i]
			npg, ns := e.step(evs[i].op, saved, s)

			if npg.done && npg.res != evs[i].res {
				continue
			}

			progs[i] = npg

			nd := ndone
			if npg.done {
				nd++
			}

			if rec(ns, nd) {
				progs[i] = saved

				return true
			}

			progs[i] = saved
		}

		dead[key] = true

		return false
	}

	return rec(c25cState{m: e.seed}, 0)
}

// ---------------------------------------------------------------- the real calls

func c25cDo(st *Storage, views [2]*PrefixStorage, e *c25cEnv, o c25cOp, seen *[]c25kv) string {
	pst := views[o.view]

	errs := func(err error) string {
		if err != nil {
			return "err"
		}

		return "ok"
	}

	switch o.kind {
	case "put":
		return errs(pst.Put([]byte(o.key), []byte(o.val), nil))
	case "del":
		return errs(pst.Delete([]byte(o.key), nil))
	case "get":
		switch b, found, err := pst.Get([]byte(o.key)); {
		case err != nil:
			return "err"
		case !found:
			return "none"
		default:
			return "ok:" + string(b)
		}
	case "exists":
		found, err := pst.Exists([]byte(o.key))
		if err != nil {
			return "err"
		}

		return fmt.Sprintf("ok:%v", found)
	case "iter":
		var rg *leveldbutil.Range
		if o.start != nil || o.limit != nil {
			rg = &leveldbutil.Range{Start: c25b(o.start), Limit: c25b(o.limit)}
		}

		var got []c25kv

		if err := pst.Iter(rg, func(k, v []byte) (bool, error) {
			got = append(got, c25kv{string(k), string(v)})

			return true, nil
		}, o.asc); err != nil {
			return "err"
		}

		*seen = got

		return "ok:" + c25kvs(got)
	case "batch":
		bt := pst.NewBatch()
		bt.Put([]byte(o.key), []byte(o.val))
		bt.Delete([]byte(o.key2))

		return errs(pst.Batch(bt, nil))
	case "bfunc":
		add, done, cancel := pst.BatchFunc(context.Background(), 2, nil)
		defer cancel()

		run := func(f func() error) error { return f() }

		for _, k := range o.keys {
			k := k

			if err := add(func(b LeveldbBatch) { b.Put([]byte(k), []byte(o.val)) }, run); err != nil {
				return "err"
			}
		}

		return errs(done(run))
	case "remove":
		return errs(pst.Remove())
	case "rbp":
		return errs(RemoveByPrefix(st, []byte(e.pfx[o.view])))
	case "brm":
		rs, rl := e.brmRange(o)
		rg := &leveldbutil.Range{Start: []byte(rs), Limit: c25b(rl)}

		n, err := BatchRemove(st, rg, o.n)
		if err != nil {
			return fmt.Sprintf("err:%d", n)
		}

		return fmt.Sprintf("ok:%d", n)
	case "close":
		return errs(pst.Close())
	case "sclose":
		return errs(st.Close())
	}

	panic("unknown op " + o.kind)
}

// footprint: may call o legitimately change raw key k?
func (e *c25cEnv) footprint(o c25cOp, k string) bool {
	p := e.pfx[o.view]

	switch o.kind {
	case "put", "del":
		return k == p+o.key
	case "batch":
		return k == p+o.key || k == p+o.key2
	case "bfunc":
		for _, x := range o.keys {
			if k == p+x {
				return true
			}
		}
	case "remove", "rbp":
		return strings.HasPrefix(k, p)
	case "brm":
		rs, rl := e.brmRange(o)

		return c25cInRange(k, rs, rl)
	}

	return false
}

// puts: the values call o may store under raw key k.
func (e *c25cEnv) puts(o c25cOp, k string) bool {
	p := e.pfx[o.view]

	switch o.kind {
	case "put", "batch":
		return k == p+o.key
	case "bfunc":
		for _, x := range o.keys {
			if k == p+x {
				return true
			}
		}
	}

	return false
}

func (e *c25cEnv) keyClass(k string, v int) string {
	switch {
	case k == "":
		return "empty-raw-key"
	case strings.HasPrefix(k, e.pfx[v]):
		return "own-prefix"
	case strings.HasPrefix(k, e.pfx[1-v]):
		return "other-view"
	default:
		return "outside-both-prefixes"
	}
}

// direct isolation checks; returns a signature and a description, or nil.
func (e *c25cEnv) direct(sc c25cScenario, evs []c25cEvent, final c25model) (map[string]any, string) {
	var ops []c25cOp
	for _, t := range sc.threads {
		ops = append(ops, t...)
	}

	// 1. every changed raw key is in the footprint of some call
	keys := map[string]bool{}
	for k := range final {
		keys[k] = true
	}

	for k := range e.seed {
		keys[k] = true
	}

	var ks []string
	for k := range keys {
		ks = append(ks, k)
	}

	sort.Strings(ks)

	var foreign map[string]any
	var fdetail string
	var nforeign int

	for _, k := range ks {
		sv, sok := e.seed[k]
		fv, fok := final[k]

		if sok == fok && sv == fv {
			continue
		}

		legit := false

		for _, o := range ops {
			if e.footprint(o, k) {
				legit = true

				break
			}
		}

		if legit {
			continue
		}

		// whose value is it?
		writer, wkind := -1, "removed"

		for _, o := range ops {
			if fok && o.val == fv && o.val != "" {
				writer, wkind = o.view, o.kind
			}
		}

		class := "outside-both-prefixes"
		if writer >= 0 {
			class = e.keyClass(k, writer)
		} else if k == "" {
			class = "empty-raw-key"
		}

		if foreign == nil {
			foreign = map[string]any{"half": "concurrent", "kind": "foreign-key-changed", "key": class, "by": wkind, "with_view_close": sc.has("close")}
			fdetail = fmt.Sprintf("raw key %x is no key of any call of the scenario, but it changed: seed (%q,%v) final (%q,%v)", k, sv, sok, fv, fok)
		}

		nforeign++
	}

	if foreign != nil {
		foreign["foreign_keys_changed"] = map[bool]string{true: "one", false: "several"}[nforeign == 1]

		return foreign, fmt.Sprintf("%s (%d such keys)", fdetail, nforeign)
	}

	// 2. every key / value delivered by a read is a seed entry or was written by a call, under the prefix and in the range
	for _, ev := range evs {
		o := ev.op
		p := e.pfx[o.view]

		known := func(raw, val string) bool {
			if sv, ok := e.seed[raw]; ok && sv == val {
				return true
			}

			for _, w := range ops {
				if e.puts(w, raw) && w.val == val {
					return true
				}
			}

			return false
		}

		switch {
		case o.kind == "get" && strings.HasPrefix(ev.res, "ok:"):
			if v := ev.res[3:]; !known(p+o.key, v) {
				return map[string]any{"half": "concurrent", "kind": "read-reveals-foreign-entry", "op": "Get", "with_view_close": sc.has("close")},
					fmt.Sprintf("%s returned %q, which is neither the seed value nor written by a call to raw key %x", o, v, p+o.key)
			}
		case o.kind == "iter" && strings.HasPrefix(ev.res, "ok:["):
			for _, kv := range ev.kvs {
				k, v := kv.k, kv.v
				inr := (o.start == nil || k >= *o.start) && (o.limit == nil || k < *o.limit)

				if known(p+k, v) && inr {
					continue
				}

				class := "unknown-key"

				switch {
				case strings.HasPrefix(k, p) && known(k, v):
					class = "raw-key-not-stripped"
				case !inr:
					class = "outside-the-range"
				}

				return map[string]any{"half": "concurrent", "kind": "read-reveals-foreign-entry", "op": "Iter", "entry": class, "with_view_close": sc.has("close")},
					fmt.Sprintf("%s delivered (%x,%q): raw key %x with that value is neither in the seed nor written by a call, or it is outside the range (%s)", o, k, v, p+k, class)
			}
		}
	}

	return nil, ""
}

// ---------------------------------------------------------------- scenario

func (e *c25cEnv) build(sc c25cScenario) vsched.Scenario {
	ms := leveldbStorage.NewMemStorage()

	st, err := NewStorage(ms, &leveldbOpt.Options{WriteBuffer: 64 << 10})
	if err != nil {
		panic(err)
	}

	var b leveldb.Batch
	for _, k := range e.seed.keys() {
		b.Put([]byte(k), []byte(e.seed[k]))
	}

	if err := st.DB().Write(&b, nil); err != nil {
		panic(err)
	}

	views := [2]*PrefixStorage{NewPrefixStorage(st, []byte(e.pfx[0])), NewPrefixStorage(st, []byte(e.pfx[1]))}

	var evs []c25cEvent
	var clock int

	tick := func() int { clock++; return clock }

	var roots []func()

	for _, ops := range sc.threads {
		ops := ops

		roots = append(roots, func() {
			for _, o := range ops {
				call := tick()
				var seen []c25kv

				res := c25cDo(st, views, e, o, &seen)
				evs = append(evs, c25cEvent{op: o, call: call, ret: tick(), res: res, kvs: seen})
			}
		})
	}

	hist := func() string {
		sorted := append([]c25cEvent{}, evs...)
		sort.Slice(sorted, func(i, j int) bool { return sorted[i].call < sorted[j].call })

		var sb strings.Builder
		for _, ev := range sorted {
			fmt.Fprintf(&sb, "T%d %s -> %s [call %d ret %d]; ", ev.op.thread, ev.op, ev.res, ev.call, ev.ret)
		}

		return sb.String()
	}

	// the raw content at quiescence, read with goleveldb directly (after a Storage.Close: by reopening the memory storage)
	scan := func() c25model {
		if st.DB() != nil {
			m := c25scan(st)
			_ = st.Close()

			return m
		}

		db, err := leveldb.Open(ms, &leveldbOpt.Options{WriteBuffer: 64 << 10})
		if err != nil {
			panic(err)
		}

		m := c25model{}

		it := db.NewIterator(nil, nil)
		for it.Next() {
			m[string(it.Key())] = string(it.Value())
		}

		it.Release()

		_ = db.Close()

		return m
	}

	var fin c25model

	return vsched.Scenario{
		Roots: roots,
		Outcome: func(*vsched.Exec) string {
			sorted := append([]c25cEvent{}, evs...)
			sort.Slice(sorted, func(i, j int) bool {
				if sorted[i].op.thread != sorted[j].op.thread {
					return sorted[i].op.thread < sorted[j].op.thread
				}

				return sorted[i].call < sorted[j].call
			})

			var xs []string
			for _, ev := range sorted {
				xs = append(xs, ev.res)
			}

			return strings.Join(xs, ",") + "=>" + vlib.H(fin.canon())
		},
		Check: func(x *vsched.Exec) *vsched.Fail {
			fin = scan()

			if x.Panic != nil {
				return &vsched.Fail{Sig: map[string]any{"half": "concurrent", "kind": "panic"}, Detail: fmt.Sprintf("%v\n%s", x.Panic, x.PanicStack)}
			}

			if x.Deadlock {
				return &vsched.Fail{Sig: map[string]any{"half": "concurrent", "kind": "deadlock"}, Detail: sc.id(e.pairName) + ": " + strings.Join(x.Blocked, ";") + " | " + hist()}
			}

			ctx := fmt.Sprintf(" | views %x and %x; history: %s final raw content %s | seed %s | scenario %s", e.pfx[0], e.pfx[1], hist(), fin.canon(), e.seed.canon(), sc.id(e.pairName))

			if sig, detail := e.direct(sc, evs, fin); sig != nil {
				return &vsched.Fail{Sig: sig, Detail: detail + ctx}
			}

			if e.explained(evs, fin.canon()) {
				return nil
			}

			var kinds []string

			seen := map[string]bool{}
			for _, ev := range evs {
				if !seen[ev.op.kind] {
					seen[ev.op.kind] = true

					kinds = append(kinds, ev.op.kind)
				}
			}

			sort.Strings(kinds)

			return &vsched.Fail{
				Sig:    map[string]any{"half": "concurrent", "kind": "not-explained-by-own-steps", "ops": strings.Join(kinds, "+"), "with_view_close": sc.has("close")},
				Detail: "no interleaving of the calls' own atomic steps on the raw-key model gives these answers and this final content" + ctx,
			}
		},
	}
}

func c25cSeed(p, q string) c25model {
	m := c25seed(p, q)
	m[""] = "e" // the empty raw key: no key of any view
	m[p+"c"] = "s"

	return m
}

func c25cScenarios(x string) []c25cScenario {
	sp := func(s string) *string { return &s }

	put := func(v int, k string) c25cOp { return c25cOp{kind: "put", view: v, key: k} }
	del := func(v int, k string) c25cOp { return c25cOp{kind: "del", view: v, key: k} }
	get := func(v int, k string) c25cOp { return c25cOp{kind: "get", view: v, key: k} }
	exists := func(v int, k string) c25cOp { return c25cOp{kind: "exists", view: v, key: k} }
	iter := func(v int, start, limit *string, asc bool) c25cOp {
		return c25cOp{kind: "iter", view: v, start: start, limit: limit, asc: asc}
	}
	batch := func(v int, k, k2 string) c25cOp { return c25cOp{kind: "batch", view: v, key: k, key2: k2} }
	bfunc := func(v int, keys ...string) c25cOp { return c25cOp{kind: "bfunc", view: v, keys: keys} }
	remove := func(v int) c25cOp { return c25cOp{kind: "remove", view: v} }
	rbp := func(v int) c25cOp { return c25cOp{kind: "rbp", view: v} }
	brm := func(v int, start, limit *string, n int) c25cOp {
		return c25cOp{kind: "brm", view: v, start: start, limit: limit, n: n}
	}
	vclose := func(v int) c25cOp { return c25cOp{kind: "close", view: v} }
	sclose := c25cOp{kind: "sclose"}

	type T = [][]c25cOp

	// view 0 = prefix P, view 1 = prefix Q = P+x: key k of view 1 is key x+k of view 0.
	// seed: P+{"", a, c, 0xff}, Q+{a, 0xff} and raw keys outside both prefixes (one of them the empty key).
	scs := []c25cScenario{
		{"batch-vs-ranged-iter-of-other-view", T{{batch(0, "a", "\xff")}, {iter(1, sp("a"), sp("\xff\xff"), true), get(1, "a")}}},
		{"inner-batch-vs-outer-range-over-it", T{{batch(1, "a", "\xff")}, {iter(0, sp(x), sp(x+"\xff\xff"), false), get(0, x+"a")}}},
		{"outer-remove-vs-inner-batch-vs-inner-iter", T{{remove(0)}, {batch(1, "b", "a")}, {iter(1, nil, nil, true)}}},
		{"inner-remove-vs-outer-puts-vs-outer-iter", T{{remove(1)}, {put(0, "a"), put(0, x+"b")}, {iter(0, nil, nil, true)}}},
		{"batchremove-inner-range-vs-puts", T{{brm(1, nil, nil, 1)}, {put(1, "b"), put(0, "b")}, {exists(0, x+"a")}}},
		{"batchremove-outer-subrange-vs-inner-batch", T{{brm(0, sp("a"), sp("d"), 2)}, {batch(1, "a", "\xff"), iter(1, sp("a"), nil, false)}}},
		{"one-raw-key-through-both-views", T{{put(0, x+"a")}, {put(1, "a"), get(1, "a")}, {del(0, x+"a"), get(0, x+"a")}}},
		{"two-threads-on-one-view-vs-other-range", T{{put(1, "a"), exists(1, "a")}, {del(1, "a"), batch(1, "b", "\xff")}, {iter(0, sp("a"), sp(x), true)}}},
		{"batchfunc-vs-subrange-remove-vs-iter", T{{bfunc(1, "a", "b", "c")}, {brm(0, sp("a"), sp("d"), 2)}, {iter(1, nil, nil, true)}}},
		{"removebyprefix-inner-vs-outer-batchfunc", T{{rbp(1)}, {bfunc(0, "a", x+"c", "\xff")}, {get(1, "c")}}},

		{"put-vs-close", T{{put(0, "a")}, {vclose(0), get(1, "a")}}},
		{"delete-vs-close", T{{del(0, "a")}, {vclose(0)}, {exists(1, "a")}}},
		{"get-exists-vs-close", T{{get(0, "a"), exists(0, "zz")}, {vclose(0)}}},
		{"iter-vs-close", T{{iter(0, nil, nil, true)}, {vclose(0)}}},
		{"ranged-iter-vs-close-vs-outer-put", T{{iter(1, sp("a"), sp("\xff\xff"), true)}, {vclose(1), put(0, x+"b")}}},
		{"batch-vs-close-vs-outer-iter", T{{batch(1, "b", "a")}, {vclose(1)}, {iter(0, sp(x), nil, true)}}},
		{"remove-vs-close-vs-inner-put", T{{remove(0)}, {vclose(0)}, {put(1, "b")}}},
		{"batchfunc-vs-close", T{{bfunc(1, "a", "b", "c")}, {vclose(1)}}},
		{"close-of-other-view", T{{vclose(0)}, {put(1, "b"), iter(1, nil, nil, false)}}},

		{"storage-close-vs-remove-vs-put", T{{remove(0)}, {sclose}, {put(0, "a")}}},
		{"storage-close-vs-batchremove-vs-batch", T{{brm(1, nil, nil, 1)}, {sclose}, {batch(1, "b", "a")}}},
	}

	for si := range scs {
		for ti := range scs[si].threads {
			for oi := range scs[si].threads[ti] {
				o := &scs[si].threads[ti][oi]
				o.thread = ti

				switch o.kind {
				case "put", "batch", "bfunc":
					o.val = fmt.Sprintf("t%d.%d", ti, oi)
				}
			}
		}
	}

	return scs
}

func TestVerifC25Conc(t *testing.T) {
	r := vlib.Start("C25")
	defer r.Finish()

	r.Rule("concurrent half: scenario = 2-3 threads x 1-2 calls (Put / Delete / Get / Exists / Iter with and without range / Batch / BatchFunc writer / Remove / RemoveByPrefix / BatchRemove / Close of a view / Close of the storage) on two views P and Q=P+x of one fresh real storage; " +
		"all interleavings within the preemption bound; oracle = the answers and the final raw content are explained by an interleaving of the calls' own atomic steps on the raw-key model (so no call changes or reveals a key outside its prefix or range), no deadlock, no panic; " +
		"states = distinct (scenario, outcome); non-trivial = a scenario with more than one outcome")

	bound := vlib.Pick(r, 2, 3)
	if v := os.Getenv("VERIF_C25C_BOUND"); v != "" { // tuning aid only; never set by run.sh
		fmt.Sscanf(v, "%d", &bound)
	}

	r.Set("conc_preemption_bound", bound)

	pairs := vlib.Pick(r, [][2]string{{"a", "ab"}}, [][2]string{{"a", "ab"}, {"\xff", "\xff\xff"}})
	r.Set("conc_prefix_pairs", len(pairs))

	type item struct {
		env *c25cEnv
		sc  c25cScenario
	}

	var items []item

	for _, pr := range pairs {
		for _, sc := range c25cScenarios(pr[1][len(pr[0]):]) {
			items = append(items, item{
				env: &c25cEnv{pfx: pr, vcl: sc.has("close"), scl: sc.has("sclose"), seed: c25cSeed(pr[0], pr[1]), pairName: fmt.Sprintf("%x+%x", pr[0], pr[1])},
				sc:  sc,
			})
		}
	}

	r.Set("conc_scenarios_enumerated", len(items))

	for i, it := range items {
		if !r.Mine(i) || r.Expired() {
			continue
		}

		env, sc := it.env, it.sc
		id := "conc/" + sc.id(env.pairName)

		build := func() vsched.Scenario { return env.build(sc) }

		if rid, rp := r.Replaying(); rp {
			k := strings.LastIndex(rid, "#")
			if k < 0 || rid[:k] != id {
				continue
			}

			s := build()
			x := vsched.Run(vsched.Options{Prefix: vsched.ParseChoices(rid[k+1:])}, s.Roots...)
			r.Trace()

			if f := s.Check(x); f != nil {
				r.Violation(rid, f.Sig, f.Detail, nil)
			}

			continue
		}

		res := vsched.Explore(vsched.Config{Name: id, Bound: bound, Build: build, Expired: r.Expired, MaxFound: 2, Horizon: 5000})
		if res.EngineError != "" {
			panic("engine error in " + id + ": " + res.EngineError)
		}

		r.TraceN(res.Executions)
		r.TransitionN(res.Points)
		r.EvalN(res.Executions)
		r.Add("conc_scenarios", 1)
		r.Add("conc_executions", res.Executions)

		if res.Capped != "" {
			r.Cap(res.Capped)
		} else {
			r.Min("conc_preemption_bound_completed", int64(res.BoundCompleted))
		}

		r.Max("conc_max_points_per_execution", int64(res.MaxPoints))

		if len(res.Outcomes) > 1 {
			r.Nontrivial(id)
		}

		for o := range res.Outcomes {
			r.State(id + "=>" + o)
			r.Outcome("conc:" + sc.name + ":" + strings.SplitN(o, "=>", 2)[0])
		}

		for _, f := range res.Found {
			r.Violation(id+"#"+vsched.ChoicesString(f.Choices), f.Fail.Sig, f.Fail.Detail+fmt.Sprintf(" (preemptions=%d)", f.Preempt), nil)
		}

		r.Sample(map[string]any{"scenario": id, "executions": res.Executions, "distinct_outcomes": len(res.Outcomes), "max_points": res.MaxPoints})
	}
}
