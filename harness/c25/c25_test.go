//go:build verif

package leveldbstorage

import (
	"bytes"
	"fmt"
	"sort"
	"strings"
	"testing"

	"github.com/spikeekips/mitum/zzverif/vlib"
	"github.com/syndtr/goleveldb/leveldb"
	leveldbOpt "github.com/syndtr/goleveldb/leveldb/opt"
	leveldbStorage "github.com/syndtr/goleveldb/leveldb/storage"
	leveldbutil "github.com/syndtr/goleveldb/leveldb/util"
)

// C25: prefix storage isolates prefixes.
//
// Reference model: ONE sorted map raw-key -> value for the shared storage. The
// view of prefix p is the set of keys having p as a byte prefix, with p
// stripped. Every read through a view must equal the model's view; every
// write/removal must change the model's map exactly as specified and nothing
// else (checked by a full raw scan after every operation).
//
//   part "iter":   full keyset, every view x every range {nil,start,limit,both}
//                  over the suffix alphabet x ascending/descending; Get/Exists of every suffix
//   part "brm":    BatchRemove over every (start,limit) of a boundary set + BytesPrefix(p) x batch limits
//   part "rmp":    RemoveByPrefix / PrefixStorage.Remove for every prefix (+ foreign prefixes)
//   part "bfs":    BFS over operation histories on two overlapping-looking views of one storage

// ---------------------------------------------------------------- model

type c25model map[string]string

func (m c25model) clone() c25model {
	n := make(c25model, len(m))
	for k, v := range m {
		n[k] = v
	}

	return n
}

func (m c25model) keys() []string {
	ks := make([]string, 0, len(m))
	for k := range m {
		ks = append(ks, k)
	}

	sort.Strings(ks) // Go string order is bytewise, as leveldb's default comparer

	return ks
}

func (m c25model) canon() string {
	var sb strings.Builder

	for _, k := range m.keys() {
		fmt.Fprintf(&sb, "%x=%s;", k, m[k])
	}

	return sb.String()
}

type c25kv struct{ k, v string }

// view: keys under prefix p, stripped, restricted to [start,limit), ordered.
func (m c25model) view(p string, start, limit *string, asc bool) []c25kv {
	var out []c25kv

	for _, k := range m.keys() {
		if !strings.HasPrefix(k, p) {
			continue
		}

		s := k[len(p):]
		if start != nil && s < *start {
			continue
		}

		if limit != nil && s >= *limit {
			continue
		}

		out = append(out, c25kv{s, m[k]})
	}

	if !asc {
		for i, j := 0, len(out)-1; i < j; i, j = i+1, j-1 {
			out[i], out[j] = out[j], out[i]
		}
	}

	return out
}

func (m c25model) removeRange(start, limit *string) int {
	n := 0

	for _, k := range m.keys() {
		if start != nil && k < *start {
			continue
		}

		if limit != nil && k >= *limit {
			continue
		}

		delete(m, k)

		n++
	}

	return n
}

func (m c25model) removePrefix(p string) int {
	n := 0

	for _, k := range m.keys() {
		if strings.HasPrefix(k, p) {
			delete(m, k)

			n++
		}
	}

	return n
}

func c25kvs(l []c25kv) string {
	s := make([]string, len(l))
	for i := range l {
		s[i] = fmt.Sprintf("%x=%s", l[i].k, l[i].v)
	}

	return "[" + strings.Join(s, " ") + "]"
}

func c25x(s *string) string {
	if s == nil {
		return "nil"
	}

	return fmt.Sprintf("%x", *s)
}

func c25b(s *string) []byte {
	if s == nil {
		return nil
	}

	return []byte(*s)
}

// ---------------------------------------------------------------- real storage handling

type c25db struct {
	st   *Storage
	uses int
}

// reset makes the storage content exactly m, using goleveldb directly (not the
// code under test). A goleveldb instance is reused for a few cases (opening one
// costs 1..20 ms) and then replaced, so that dead versions do not pile up.
func (d *c25db) reset(m c25model) *Storage {
	if d.st != nil && d.uses >= 24 {
		_ = d.st.Close()
		d.st = nil
	}

	if d.st == nil {
		st, err := NewStorage(leveldbStorage.NewMemStorage(), &leveldbOpt.Options{WriteBuffer: 128 << 10})
		if err != nil {
			panic(err)
		}

		d.st = st
		d.uses = 0
	}

	d.uses++

	ldb := d.st.DB()

	var b leveldb.Batch

	it := ldb.NewIterator(nil, nil)
	for it.Next() {
		b.Delete(bytes.Clone(it.Key()))
	}

	it.Release()

	for k, v := range m {
		b.Put([]byte(k), []byte(v))
	}

	if err := ldb.Write(&b, nil); err != nil {
		panic(err)
	}

	return d.st
}

func (d *c25db) close() {
	if d.st != nil {
		_ = d.st.Close()
	}
}

// scan reads the whole storage with goleveldb directly.
func c25scan(st *Storage) c25model {
	m := c25model{}

	it := st.DB().NewIterator(nil, nil)
	for it.Next() {
		m[string(it.Key())] = string(it.Value())
	}

	it.Release()

	return m
}

func c25diff(real, model c25model) string {
	var sb strings.Builder

	for _, k := range model.keys() {
		v, ok := real[k]

		switch {
		case !ok:
			fmt.Fprintf(&sb, " missing %x(%s)", k, model[k])
		case v != model[k]:
			fmt.Fprintf(&sb, " changed %x: %s, model %s", k, v, model[k])
		}
	}

	for _, k := range real.keys() {
		if _, ok := model[k]; !ok {
			fmt.Fprintf(&sb, " extra %x(%s)", k, real[k])
		}
	}

	return sb.String()
}

// where the lost / extra keys lie relative to the prefix or range operated on
func c25diffClass(real, model c25model, inside func(k string) bool) string {
	in, out := false, false

	mark := func(k string) {
		if inside(k) {
			in = true
		} else {
			out = true
		}
	}

	for k, v := range model {
		if rv, ok := real[k]; !ok || rv != v {
			mark(k)
		}
	}

	for k := range real {
		if _, ok := model[k]; !ok {
			mark(k)
		}
	}

	switch {
	case in && out:
		return "inside+outside"
	case out:
		return "outside"
	case in:
		return "inside"
	default:
		return "none"
	}
}

// ---------------------------------------------------------------- harness

type c25 struct {
	r  *vlib.Run
	db c25db
}

func (c *c25) vio(id string, sig map[string]any, detail string, replay any) {
	c.r.Outcome("VIOLATION:" + fmt.Sprint(sig["kind"]))
	c.r.Violation(id, sig, detail, replay)
}

var (
	c25prefixes = []string{"a", "ab", "b", "a\xff", "\xff", "\xff\xff"}
	c25alpha    = []string{"a", "b", "\x00", "\xff"}
	c25outside  = []string{"\x00", "A", "`", "c", "\xfe", "\xfe\xff", "a", "b", "\xff"} // the last three are keys equal to a prefix
)

func c25suffixes() []string {
	var out []string

	out = append(out, c25alpha...)

	for _, x := range c25alpha {
		for _, y := range c25alpha {
			out = append(out, x+y)
		}
	}

	sort.Strings(out)

	return out
}

func c25universe() c25model {
	m := c25model{}

	for _, p := range c25prefixes {
		for _, s := range c25suffixes() {
			m[p+s] = "u"
		}
	}

	for _, k := range c25outside {
		m[k] = "o"
	}

	return m
}

func c25prefixClass(p string) string {
	if p != "" && strings.Trim(p, "\xff") == "" {
		return "all-0xff"
	}

	return "plain"
}

// iterView runs PrefixStorage.Iter and collects what the callback sees.
func c25iterView(pst *PrefixStorage, start, limit *string, asc bool) (got []c25kv, err error, panicked string) {
	var r *leveldbutil.Range
	if start != nil || limit != nil {
		r = &leveldbutil.Range{Start: c25b(start), Limit: c25b(limit)}
	}

	if p, msg := vlib.Catch(func() {
		err = pst.Iter(r, func(k, v []byte) (bool, error) {
			got = append(got, c25kv{string(k), string(v)})

			return true, nil
		}, asc)
	}); p {
		return got, nil, msg
	}

	return got, err, ""
}

func c25sameKVs(a, b []c25kv) bool {
	if len(a) != len(b) {
		return false
	}

	for i := range a {
		if a[i] != b[i] {
			return false
		}
	}

	return true
}

// ---- part iter

func (c *c25) partIter(pi int) {
	r := c.r
	p := c25prefixes[pi]
	m := c25universe()
	st := c.db.reset(m)
	pst := NewPrefixStorage(st, []byte(p))
	sfx := c25suffixes()

	bounds := []*string{nil}
	for i := range sfx {
		bounds = append(bounds, &sfx[i])
	}

	for _, start := range bounds {
		for _, limit := range bounds {
			for _, asc := range []bool{true, false} {
				id := fmt.Sprintf("iter/p=%x/start=%s/limit=%s/asc=%v", p, c25x(start), c25x(limit), asc)
				if !r.Want(id) {
					continue
				}

				r.Eval()
				r.Trace()

				if start != nil || limit != nil {
					r.Nontrivial(id)
				}

				want := m.view(p, start, limit, asc)
				got, err, pmsg := c25iterView(pst, start, limit, asc)
				rp := map[string]any{"id": id}
				rng := "nil"

				switch {
				case start != nil && limit != nil:
					rng = "both"
				case start != nil:
					rng = "start"
				case limit != nil:
					rng = "limit"
				}

				switch {
				case pmsg != "":
					c.vio(id, map[string]any{"kind": "panic", "op": "Iter"}, "PrefixStorage.Iter panicked: "+pmsg, rp)
				case err != nil:
					c.vio(id, map[string]any{"kind": "unexpected-error", "op": "Iter", "range": rng}, fmt.Sprintf("Iter(prefix %x, start %s, limit %s, asc %v): %v", p, c25x(start), c25x(limit), asc, err), rp)
				case !c25sameKVs(got, want):
					c.vio(id, map[string]any{"kind": "iter-differs", "range": rng, "prefix": c25prefixClass(p), "view": "open"},
						fmt.Sprintf("Iter(prefix %x, start %s, limit %s, asc %v) saw %s; the model's view is %s", p, c25x(start), c25x(limit), asc, c25kvs(got), c25kvs(want)), rp)
				default:
					if start != nil && limit != nil && len(got) > 1 {
						r.Sample(map[string]any{"op": "Iter", "prefix": fmt.Sprintf("%x", p), "start": c25x(start), "limit": c25x(limit), "asc": asc, "saw": c25kvs(got)})
					}

					r.Outcome(fmt.Sprintf("iter:ok:%d-keys", min(len(got), 3)))
				}
			}
		}
	}

	// point reads of every suffix and of suffixes that exist only under other prefixes
	for _, s := range append(sfx, "c", "\xff\xff\xff", "aaa") {
		id := fmt.Sprintf("get/p=%x/k=%x", p, s)
		if !r.Want(id) {
			continue
		}

		r.Eval()
		r.Trace()

		wv, wfound := m[p+s]

		var b []byte
		var found, exists bool
		var err, err2 error

		if pn, msg := vlib.Catch(func() {
			b, found, err = pst.Get([]byte(s))
			exists, err2 = pst.Exists([]byte(s))
		}); pn {
			c.vio(id, map[string]any{"kind": "panic", "op": "Get"}, "Get/Exists panicked: "+msg, nil)

			continue
		}

		if err != nil || err2 != nil || found != wfound || exists != wfound || (wfound && string(b) != wv) {
			c.vio(id, map[string]any{"kind": "get-differs", "prefix": c25prefixClass(p)},
				fmt.Sprintf("prefix %x Get(%x) = (%q,%v,%v) Exists = (%v,%v); model found=%v value=%q", p, s, b, found, err, exists, err2, wfound, wv), map[string]any{"id": id})

			continue
		}

		r.Outcome(fmt.Sprintf("get:found=%v", found))
	}

	if sc := c25scan(st); sc.canon() != m.canon() {
		c.vio(fmt.Sprintf("iter/p=%x/readonly", p), map[string]any{"kind": "raw-differs", "op": "reads"}, "reads changed the storage:"+c25diff(sc, m), nil)
	}
}

// ---- part brm: BatchRemove on the raw storage

func c25brmKeyset() c25model {
	m := c25model{}

	for _, p := range []string{"a", "ab", "\xff", "\xff\xff"} {
		for _, s := range []string{"a", "b\x00", "\xff"} {
			m[p+s] = "u"
		}
	}

	for _, k := range []string{"\x00", "`", "a", "b", "c", "\xfe\xff", "\xff"} {
		m[k] = "o"
	}

	return m
}

func (c *c25) brmCase(id string, base c25model, start, limit *string, batchLimit int, sigRange string) {
	r := c.r
	if !r.Want(id) {
		return
	}

	r.Eval()
	r.Trace()

	m := base.clone()
	st := c.db.reset(m)

	var rg *leveldbutil.Range
	if start != nil || limit != nil {
		rg = &leveldbutil.Range{Start: c25b(start), Limit: c25b(limit)}
	}

	wantN := m.removeRange(start, limit)

	var n int
	var err error

	if pn, msg := vlib.Catch(func() { n, err = BatchRemove(st, rg, batchLimit) }); pn {
		c.vio(id, map[string]any{"kind": "panic", "op": "BatchRemove"}, "BatchRemove panicked: "+msg, map[string]any{"id": id})

		return
	}

	exact := wantN > 0 && wantN%batchLimit == 0
	if exact {
		r.Nontrivial(id)
	}

	sc := c25scan(st)
	rp := map[string]any{"id": id, "start": c25x(start), "limit": c25x(limit), "batch_limit": batchLimit}
	inside := func(k string) bool {
		return (start == nil || k >= *start) && (limit == nil || k < *limit)
	}

	switch {
	case err != nil:
		c.vio(id, map[string]any{"kind": "unexpected-error", "op": "BatchRemove"}, fmt.Sprintf("BatchRemove([%s,%s), %d): %v", c25x(start), c25x(limit), batchLimit, err), rp)
	case sc.canon() != m.canon():
		c.vio(id, map[string]any{"kind": "raw-differs", "op": "BatchRemove", "range": sigRange, "where": c25diffClass(sc, m, inside), "batch_fills_exactly": exact},
			fmt.Sprintf("BatchRemove([%s,%s), batch limit %d) on %d keys:%s", c25x(start), c25x(limit), batchLimit, len(base), c25diff(sc, m)), rp)
	case n != wantN:
		c.vio(id, map[string]any{"kind": "count-differs", "op": "BatchRemove", "range": sigRange, "batch_fills_exactly": exact},
			fmt.Sprintf("BatchRemove([%s,%s), batch limit %d) returned %d, %d keys were in the range", c25x(start), c25x(limit), batchLimit, n, wantN), rp)
	default:
		if exact {
			r.Sample(map[string]any{"op": "BatchRemove", "start": c25x(start), "limit": c25x(limit), "batch_limit": batchLimit, "removed": n, "keys_before": len(base)})
		}

		r.Outcome(fmt.Sprintf("brm:ok:removed-%s:exact-fill=%v", c25nclass(wantN), exact))
	}
}

func c25nclass(n int) string {
	switch {
	case n == 0:
		return "0"
	case n == 1:
		return "1"
	default:
		return "many"
	}
}

func (c *c25) partBRM(si int, bounds []*string, limits []int) {
	base := c25brmKeyset()
	start := bounds[si]

	for _, limit := range bounds {
		for _, bl := range limits {
			c.brmCase(fmt.Sprintf("brm/start=%s/limit=%s/batch=%d", c25x(start), c25x(limit), bl), base, start, limit, bl, "explicit")
		}
	}
}

func (c *c25) partBRMPrefix(limits []int) {
	for _, base := range []struct {
		name string
		m    c25model
	}{{"small", c25brmKeyset()}, {"universe", c25universe()}} {
		for _, p := range append(append([]string{}, c25prefixes...), "c", "\xff\xff\xff", "a\xff\xff") {
			rg := leveldbutil.BytesPrefix([]byte(p))

			var start, limit *string

			if rg.Start != nil {
				s := string(rg.Start)
				start = &s
			}

			if rg.Limit != nil {
				s := string(rg.Limit)
				limit = &s
			}

			for _, bl := range limits {
				c.brmCase(fmt.Sprintf("brm/%s/bytesprefix=%x/batch=%d", base.name, p, bl), base.m, start, limit, bl, "bytesprefix-"+c25prefixClass(p))
			}
		}
	}
}

// ---- part rmp: RemoveByPrefix and PrefixStorage.Remove

func (c *c25) partRMP() {
	r := c.r

	for _, base := range []struct {
		name string
		m    c25model
	}{{"small", c25brmKeyset()}, {"universe", c25universe()}} {
		for _, p := range append(append([]string{}, c25prefixes...), "c", "\xff\xff\xff", "a\xff\xff", "\x00") {
			for _, via := range []string{"RemoveByPrefix", "PrefixStorage.Remove"} {
				id := fmt.Sprintf("rmp/%s/p=%x/%s", base.name, p, via)
				if !r.Want(id) {
					continue
				}

				r.Eval()
				r.Trace()

				m := base.m.clone()
				st := c.db.reset(m)
				n := m.removePrefix(p)

				if n > 0 {
					r.Nontrivial(id)
				}

				var err error

				if pn, msg := vlib.Catch(func() {
					if via == "RemoveByPrefix" {
						err = RemoveByPrefix(st, []byte(p))
					} else {
						err = NewPrefixStorage(st, []byte(p)).Remove()
					}
				}); pn {
					c.vio(id, map[string]any{"kind": "panic", "op": via}, via+" panicked: "+msg, nil)

					continue
				}

				sc := c25scan(st)

				switch {
				case err != nil:
					c.vio(id, map[string]any{"kind": "unexpected-error", "op": via}, fmt.Sprintf("%s(%x): %v", via, p, err), nil)
				case sc.canon() != m.canon():
					c.vio(id, map[string]any{"kind": "raw-differs", "op": via, "prefix": c25prefixClass(p), "where": c25diffClass(sc, m, func(k string) bool { return strings.HasPrefix(k, p) }), "view": "open"},
						fmt.Sprintf("%s(%x) on %d keys:%s", via, p, len(base.m), c25diff(sc, m)), map[string]any{"id": id})
				default:
					r.Outcome("rmp:ok:removed-" + c25nclass(n))
				}
			}
		}
	}
}

// ---- part edge: inputs whose documented behaviour is unclear (empty but non-nil
// range bounds, BatchRemove with a batch limit <= 0). What the call does is
// recorded as an outcome; only the isolation statement is judged: an iteration
// delivers nothing but entries of its own view, a removal changes nothing outside
// the widest reading of its range and reports the number of keys it removed.

func (c *c25) partEdgeIter(pi int) {
	r := c.r
	p := c25prefixes[pi]
	m := c25universe()
	st := c.db.reset(m)
	pst := NewPrefixStorage(st, []byte(p))

	type bound struct {
		name string
		b    []byte
	}

	bounds := []bound{{"nil", nil}, {"empty", []byte{}}, {"a", []byte("a")}, {"b", []byte("b")}}

	for _, bs := range bounds {
		for _, bl := range bounds {
			if bs.name != "empty" && bl.name != "empty" {
				continue
			}

			for _, asc := range []bool{true, false} {
				id := fmt.Sprintf("edge-iter/p=%x/start=%s/limit=%s/asc=%v", p, bs.name, bl.name, asc)
				if !r.Want(id) {
					continue
				}

				r.Eval()
				r.Trace()
				r.Nontrivial(id)

				var got []c25kv
				var err error

				if pn, msg := vlib.Catch(func() {
					err = pst.Iter(&leveldbutil.Range{Start: bs.b, Limit: bl.b}, func(k, v []byte) (bool, error) {
						got = append(got, c25kv{string(k), string(v)})

						return true, nil
					}, asc)
				}); pn {
					c.vio(id, map[string]any{"kind": "panic", "op": "Iter", "range": "empty-bound"}, "Iter panicked: "+msg, map[string]any{"id": id})

					continue
				}

				foreign := ""

				for _, kv := range got {
					if v, ok := m[p+kv.k]; !ok || v != kv.v {
						foreign = fmt.Sprintf("(%x,%q)", kv.k, kv.v)
					}
				}

				// the two readings of an empty bound: no bound / the empty key
				var sN, lN, sE, lE *string

				if bs.b != nil {
					x := string(bs.b)
					sE = &x

					if bs.name != "empty" {
						sN = &x
					}
				}

				if bl.b != nil {
					x := string(bl.b)
					lE = &x

					if bl.name != "empty" {
						lN = &x
					}
				}

				switch {
				case foreign != "":
					c.vio(id, map[string]any{"kind": "iter-differs", "range": "empty-bound", "prefix": c25prefixClass(p), "view": "open"},
						fmt.Sprintf("Iter(prefix %x, start %s, limit %s, asc %v) delivered %s, which is no entry of the view; saw %s", p, bs.name, bl.name, asc, foreign, c25kvs(got)), map[string]any{"id": id})
				case err != nil:
					r.Outcome("edge-iter:start=" + c25edgeName(bs.name) + ":limit=" + c25edgeName(bl.name) + ":error")
				case c25sameKVs(got, m.view(p, sN, lN, asc)):
					r.Outcome("edge-iter:start=" + c25edgeName(bs.name) + ":limit=" + c25edgeName(bl.name) + ":empty-bound-read-as-no-bound")
				case c25sameKVs(got, m.view(p, sE, lE, asc)):
					r.Outcome("edge-iter:start=" + c25edgeName(bs.name) + ":limit=" + c25edgeName(bl.name) + ":empty-bound-read-as-empty-key")
				default:
					r.Outcome("edge-iter:start=" + c25edgeName(bs.name) + ":limit=" + c25edgeName(bl.name) + ":other-subset-of-the-view")
				}
			}
		}
	}

	if sc := c25scan(st); sc.canon() != m.canon() {
		c.vio(fmt.Sprintf("edge-iter/p=%x/readonly", p), map[string]any{"kind": "raw-differs", "op": "reads"}, "reads changed the storage:"+c25diff(sc, m), nil)
	}
}

func c25edgeName(s string) string {
	if s == "nil" || s == "empty" {
		return s
	}

	return "key"
}

func (c *c25) partEdgeBRM() {
	r := c.r
	base := c25brmKeyset()

	type bound struct {
		name string
		b    []byte
	}

	bounds := []bound{{"nil", nil}, {"empty", []byte{}}, {"ab", []byte("ab")}, {"b", []byte("b")}, {"ff", []byte("\xff")}}

	for _, bs := range bounds {
		for _, bl := range bounds {
			for _, n := range []int{-1, 0, 1, 333} {
				if bs.name != "empty" && bl.name != "empty" && n > 0 {
					continue // covered by part brm
				}

				id := fmt.Sprintf("edge-brm/start=%s/limit=%s/batch=%d", bs.name, bl.name, n)
				if !r.Want(id) {
					continue
				}

				r.Eval()
				r.Trace()
				r.Nontrivial(id)

				m := base.clone()
				st := c.db.reset(m)

				var removed int
				var err error

				if pn, msg := vlib.Catch(func() {
					removed, err = BatchRemove(st, &leveldbutil.Range{Start: bs.b, Limit: bl.b}, n)
				}); pn {
					c.vio(id, map[string]any{"kind": "panic", "op": "BatchRemove", "range": "edge"}, "BatchRemove panicked: "+msg, map[string]any{"id": id})

					continue
				}

				// widest reading: an empty bound is no bound
				inside := func(k string) bool {
					return (len(bs.b) == 0 || k >= string(bs.b)) && (len(bl.b) == 0 || k < string(bl.b))
				}
				// narrowest reading: an empty limit is the empty key (nothing is below it)
				insideNarrow := func(k string) bool { return inside(k) && bl.name != "empty" }

				sc := c25scan(st)
				gone, goneOutside, inN, inNarrowN := 0, "", 0, 0

				for _, k := range m.keys() {
					if inside(k) {
						inN++
					}

					if insideNarrow(k) {
						inNarrowN++
					}

					if v, ok := sc[k]; !ok || v != m[k] {
						gone++

						if !inside(k) {
							goneOutside += fmt.Sprintf(" %x", k)
						}
					}
				}

				for k := range sc {
					if _, ok := m[k]; !ok {
						goneOutside += fmt.Sprintf(" +%x", k)
					}
				}

				rp := map[string]any{"id": id}
				limitClass := map[bool]string{true: "positive", false: "zero-or-negative"}[n > 0]

				switch {
				case goneOutside != "":
					c.vio(id, map[string]any{"kind": "raw-differs", "op": "BatchRemove", "range": "edge", "where": "outside", "batch_limit": limitClass},
						fmt.Sprintf("BatchRemove([%s,%s), batch limit %d) changed keys outside the range:%s", bs.name, bl.name, n, goneOutside), rp)
				case err == nil && removed != gone:
					c.vio(id, map[string]any{"kind": "count-differs", "op": "BatchRemove", "range": "edge", "batch_limit": limitClass},
						fmt.Sprintf("BatchRemove([%s,%s), batch limit %d) returned %d, %d keys are gone", bs.name, bl.name, n, removed, gone), rp)
				default:
					what := "removed-part-of-the-range"

					switch {
					case err != nil:
						what = "error"
					case gone == 0 && inN == 0:
						what = "empty-range"
					case gone == 0:
						what = "removed-nothing"
					case gone == inN:
						what = "removed-the-widest-range"
					case gone == inNarrowN:
						what = "removed-the-narrow-range"
					}

					lim := map[bool]string{true: "positive", false: fmt.Sprint(n)}[n > 0]
					r.Outcome(fmt.Sprintf("edge-brm:empty-start=%v:empty-limit=%v:batch=%s:%s", bs.name == "empty", bl.name == "empty", lim, what))
				}
			}
		}
	}
}

// ---- part bfs: operation histories over two views of one storage

type c25event struct {
	name string
	kind string
	view int    // which view (0/1), or which prefix for raw operations
	key  string // suffix
	n    int    // batch limit
}

type c25world struct {
	m      c25model
	closed [2]bool
}

func (w c25world) key() string {
	return fmt.Sprintf("%v|%s", w.closed, w.m.canon())
}

type c25bfs struct {
	c        *c25
	pfx      [2]string
	seed     c25model
	events   []c25event
	pairName string
}

func c25events() []c25event {
	var ev []c25event

	keys := []string{"a", "b", "\xff"}

	for v := 0; v < 2; v++ {
		for _, k := range keys {
			ev = append(ev, c25event{name: fmt.Sprintf("put%d:%x", v, k), kind: "put", view: v, key: k})
		}

		for _, k := range keys {
			ev = append(ev, c25event{name: fmt.Sprintf("del%d:%x", v, k), kind: "del", view: v, key: k})
		}

		ev = append(ev,
			c25event{name: fmt.Sprintf("batch%d", v), kind: "batch", view: v},
			c25event{name: fmt.Sprintf("batchempty%d", v), kind: "batchempty", view: v},
			c25event{name: fmt.Sprintf("remove%d", v), kind: "remove", view: v},
			c25event{name: fmt.Sprintf("close%d", v), kind: "close", view: v},
			c25event{name: fmt.Sprintf("rbp%d", v), kind: "rbp", view: v},
			c25event{name: fmt.Sprintf("brm%d:1", v), kind: "brm", view: v, n: 1},
			c25event{name: fmt.Sprintf("brm%d:2", v), kind: "brm", view: v, n: 2},
			c25event{name: fmt.Sprintf("brmsub%d:1", v), kind: "brmsub", view: v, n: 1},
		)
	}

	return ev
}

func c25seed(p, q string) c25model {
	m := c25model{}

	for _, x := range []string{p, q} {
		m[x+"a"] = "s"
		m[x+"\xff"] = "s"
	}

	for _, k := range []string{"\x00", "A", "c", "\xfe\xff", "a", "\xff"} {
		m[k] = "s"
	}

	return m
}

func c25viewOp(kind string) bool {
	switch kind {
	case "put", "del", "batch", "batchempty", "remove":
		return true
	}

	return false
}

// apply runs one event on the real views and on the model. It returns a
// violation description if the operation's own result is wrong.
func (b *c25bfs) apply(st *Storage, views [2]*PrefixStorage, w *c25world, e c25event) (sig map[string]any, detail string) {
	p := b.pfx[e.view]
	pst := views[e.view]
	closed := w.closed[e.view]
	val := fmt.Sprintf("v%d", e.view)

	var err error
	var n, wantN int

	pn, msg := vlib.Catch(func() {
		switch e.kind {
		case "put":
			err = pst.Put([]byte(e.key), []byte(val), nil)

			if !closed {
				w.m[p+e.key] = val
			}
		case "del":
			err = pst.Delete([]byte(e.key), nil)

			if !closed {
				delete(w.m, p+e.key)
			}
		case "batch":
			bt := pst.NewBatch()
			bt.Put([]byte("a"), []byte("b"+val))
			bt.Delete([]byte("\xff"))
			err = pst.Batch(bt, nil)

			if !closed {
				w.m[p+"a"] = "b" + val
				delete(w.m, p+"\xff")
			}
		case "batchempty":
			bt := pst.NewBatch()
			bt.Put(nil, []byte("e"+val))
			err = pst.Batch(bt, nil)

			if !closed {
				w.m[p] = "e" + val
			}
		case "remove":
			err = pst.Remove()

			if !closed {
				w.m.removePrefix(p)
			}
		case "close":
			err = pst.Close()
			w.closed[e.view] = true
		case "rbp":
			err = RemoveByPrefix(st, []byte(p))
			w.m.removePrefix(p)
		case "brm":
			rg := leveldbutil.BytesPrefix([]byte(p))
			n, err = BatchRemove(st, rg, e.n)

			var lim *string
			if rg.Limit != nil {
				s := string(rg.Limit)
				lim = &s
			}

			wantN = w.m.removeRange(&p, lim)
		case "brmsub":
			s, l := p+"a", p+"\xff"
			n, err = BatchRemove(st, &leveldbutil.Range{Start: []byte(s), Limit: []byte(l)}, e.n)
			wantN = w.m.removeRange(&s, &l)
		default:
			panic("unknown event " + e.kind)
		}
	})

	// an operation through a closed view may fail or do nothing; what matters is
	// that the storage stays equal to the model (checked by observe)
	switch {
	case pn:
		return map[string]any{"kind": "panic", "op": e.kind}, e.name + " panicked: " + msg
	case !(closed && c25viewOp(e.kind)) && err != nil:
		return map[string]any{"kind": "unexpected-error", "op": e.kind}, fmt.Sprintf("%s (prefix %x): %v", e.name, p, err)
	case n != wantN:
		return map[string]any{"kind": "count-differs", "op": e.kind}, fmt.Sprintf("%s (prefix %x) returned %d, model removed %d", e.name, p, n, wantN)
	}

	return nil, ""
}

// observe compares everything observable with the model.
type c25finding struct {
	sig    map[string]any
	detail string
}

// observe returns every discrepancy; insync=false when the storage content
// itself differs from the model (then nothing else is compared).
func (b *c25bfs) observe(st *Storage, views [2]*PrefixStorage, w *c25world, last c25event) (out []c25finding, insync bool) {
	add := func(sig map[string]any, detail string) {
		out = append(out, c25finding{sig, detail})
	}

	sc := c25scan(st)
	if sc.canon() != w.m.canon() {
		lp := b.pfx[last.view]

		add(map[string]any{
				"kind": "raw-differs", "op": last.kind,
				"where": c25diffClass(sc, w.m, func(k string) bool { return strings.HasPrefix(k, lp) }),
				"view":  map[bool]string{true: "closed", false: "open"}[w.closed[last.view] && c25viewOp(last.kind)],
			},
			fmt.Sprintf("after %s (prefix %x) the storage differs from the model:%s", last.name, lp, c25diff(sc, w.m)))

		return out, false
	}

	for v := 0; v < 2; v++ {
		p := b.pfx[v]

		for _, asc := range []bool{true, false} {
			got, err, pmsg := c25iterView(views[v], nil, nil, asc)

			switch {
			case pmsg != "":
				add(map[string]any{"kind": "panic", "op": "Iter"}, "Iter panicked: " + pmsg)
			case w.closed[v]:
				// a closed view has no prefix any more: it must not show anything
				if len(got) > 0 {
					add(map[string]any{"kind": "iter-differs", "view": "closed", "range": "nil", "prefix": c25prefixClass(p)},
						fmt.Sprintf("Iter(nil) on the CLOSED view of prefix %x (err=%v) saw %s", p, err, c25kvs(got)))
				}
			case err != nil:
				add(map[string]any{"kind": "unexpected-error", "op": "Iter"}, fmt.Sprintf("Iter(nil) on view %x: %v", p, err))
			default:
				if want := w.m.view(p, nil, nil, asc); !c25sameKVs(got, want) {
					add(map[string]any{"kind": "iter-differs", "view": "open", "range": "nil", "prefix": c25prefixClass(p)},
						fmt.Sprintf("Iter(nil, asc=%v) on view %x saw %s, model %s", asc, p, c25kvs(got), c25kvs(want)))
				}
			}
		}

		// a sub-range through the view
		s, l := "a", "b\x00"

		got, err, pmsg := c25iterView(views[v], &s, &l, true)

		switch {
		case pmsg != "":
			add(map[string]any{"kind": "panic", "op": "Iter"}, "Iter panicked: " + pmsg)
		case w.closed[v]:
			if len(got) > 0 {
				add(map[string]any{"kind": "iter-differs", "view": "closed", "range": "both", "prefix": c25prefixClass(p)},
					fmt.Sprintf("Iter([a,b00)) on the CLOSED view of prefix %x: err=%v saw %s", p, err, c25kvs(got)))
			}
		case err != nil:
			add(map[string]any{"kind": "unexpected-error", "op": "Iter"}, fmt.Sprintf("Iter([a,b00)) on view %x: %v", p, err))
		default:
			if want := w.m.view(p, &s, &l, true); !c25sameKVs(got, want) {
				add(map[string]any{"kind": "iter-differs", "view": "open", "range": "both", "prefix": c25prefixClass(p)},
					fmt.Sprintf("Iter([a,b00)) on view %x saw %s, model %s", p, c25kvs(got), c25kvs(want)))
			}
		}

		for _, k := range []string{"a", "b", "\xff", "ba"} {
			val, found, err := views[v].Get([]byte(k))
			ex, err2 := views[v].Exists([]byte(k))
			wv, wfound := w.m[p+k]

			switch {
			case w.closed[v]:
				if found || ex {
					add(map[string]any{"kind": "get-differs", "view": "closed"}, fmt.Sprintf("Get(%x) on the CLOSED view %x = (%q,%v,%v), Exists=(%v,%v)", k, p, val, found, err, ex, err2))
				}
			case err != nil || err2 != nil || found != wfound || ex != wfound || (found && string(val) != wv):
				add(map[string]any{"kind": "get-differs", "view": "open"}, fmt.Sprintf("Get(%x) on view %x = (%q,%v,%v), Exists=(%v,%v); model found=%v value=%q", k, p, val, found, err, ex, err2, wfound, wv))
			}
		}
	}

	return out, true
}

// run replays a history on fresh views over a reset storage; ok=false on a violation.
func (b *c25bfs) run(hist []int) (w c25world, ok bool) {
	r := b.c.r
	w = c25world{m: b.seed.clone()}
	st := b.c.db.reset(w.m)
	views := [2]*PrefixStorage{NewPrefixStorage(st, []byte(b.pfx[0])), NewPrefixStorage(st, []byte(b.pfx[1]))}

	names := make([]string, len(hist))
	for i := range hist {
		names[i] = b.events[hist[i]].name
	}

	id := "bfs/" + b.pairName + "/" + strings.Join(names, "/")

	r.Trace()

	for i, ei := range hist {
		e := b.events[ei]

		r.Transition()

		fail := func(sig map[string]any, detail string) {
			if i == len(hist)-1 {
				b.c.vio(id, sig, fmt.Sprintf("views %x and %x over seed %s; history %s: %s", b.pfx[0], b.pfx[1], b.seed.canon(), strings.Join(names, " / "), detail),
					map[string]any{"pair": b.pairName, "history": names})
			}
		}

		if sig, detail := b.apply(st, views, &w, e); sig != nil {
			fail(sig, detail)

			return w, false
		}

		if i == len(hist)-1 { // earlier prefixes were observed when they were the last event
			fs, insync := b.observe(st, views, &w, e)
			for _, f := range fs {
				fail(f.sig, f.detail)
			}

			if !insync {
				return w, false
			}
		}
	}

	return w, true
}

func (b *c25bfs) search(first int, depth int) {
	r := b.c.r

	type node struct{ hist []int }

	frontier := []node{{[]int{first}}}
	seen := map[string]bool{}

	for d := 1; d <= depth && len(frontier) > 0; d++ {
		var next []node

		for _, nd := range frontier {
			if r.Expired() {
				return
			}

			names := make([]string, len(nd.hist))
			for i := range nd.hist {
				names[i] = b.events[nd.hist[i]].name
			}

			if !r.WantPrefix("bfs/" + b.pairName + "/" + strings.Join(names, "/")) {
				continue
			}

			r.Eval()

			w, ok := b.run(nd.hist)
			if !ok {
				continue
			}

			last := b.events[nd.hist[len(nd.hist)-1]]
			r.Outcome("bfs:" + last.kind + map[bool]string{true: ":view-closed", false: ""}[w.closed[last.view] && c25viewOp(last.kind)])

			if len(nd.hist) >= 2 {
				r.Sample(map[string]any{"op": "history", "views": b.pairName, "events": names, "storage_after": w.m.canon(), "closed": w.closed})
			}

			k := w.key()
			if seen[k] {
				continue
			}

			seen[k] = true

			r.State(b.pairName + "|" + k)
			r.Max("bfs_depth_reached", int64(d))

			if w.closed[0] || w.closed[1] {
				r.Nontrivial(b.pairName + "|" + k)
			}

			if d == depth {
				continue
			}

			for ei := range b.events {
				next = append(next, node{append(append([]int(nil), nd.hist...), ei)})
			}
		}

		frontier = next
	}
}

func TestVerifC25(t *testing.T) {
	r := vlib.Start("C25")
	defer r.Finish()

	c := &c25{r: r}
	defer c.db.close()

	depth := vlib.Pick(r, 3, 4)
	pairs := vlib.Pick(r,
		[][2]string{{"a", "ab"}, {"\xff", "\xff\xff"}, {"a\xff", "b"}},
		[][2]string{{"a", "ab"}, {"\xff", "\xff\xff"}, {"a\xff", "b"}, {"a", "a\xff"}, {"ab", "b"}})
	limits := []int{1, 2, 3, 333}

	r.Rule("iter: every prefix of {a,ab,b,a\\xff,\\xff,\\xff\\xff} over the full keyset (every 1..2-byte suffix over {a,b,\\x00,\\xff} under every prefix + 9 outside keys) x every (start,limit) in ({nil} + 20 suffixes)^2 x asc/desc, plus Get/Exists of every suffix; " +
		"brm: BatchRemove over every (start,limit) of the boundary set and BytesPrefix(p) for every prefix x batch limits {1,2,3,333}; rmp: RemoveByPrefix / Remove for every prefix; " +
		"bfs: BFS to the stated depth over 28 events (put/del x3 keys, batch, batch with empty key, Remove, Close, RemoveByPrefix, BatchRemove x2 limits, BatchRemove sub-range; per view) on two views of one storage, state = storage content + closed flags (the views hold no other state, so equal states have equal futures). " +
		"edge: Iter of every prefix with an empty non-nil start and/or limit (x nil/a/b for the other bound, asc/desc), BatchRemove over {nil,empty,ab,b,\\xff}^2 bounds with an empty bound or a batch limit in {-1,0}; " +
		"non-trivial = ranged iteration, a removal that removes something, a batch that fills exactly at the range end, a state with a closed view, an edge input")
	r.Assume("goleveldb's own iterator/batch are trusted; the storage instance is reused between cases and reset to the exact seed content through goleveldb directly (fresh PrefixStorage views per history)")
	r.Assume("empty (non-nil, zero length) range bounds and BatchRemove batch limits <= 0 have no documented meaning: what the code does with them is recorded as an outcome (edge-iter / edge-brm), only 'nothing outside the view or the widest reading of the range is delivered or changed' is judged; concurrent use is explored by the second unit")
	r.Set("bfs_depth", depth)
	r.Set("bfs_pairs", len(pairs))
	r.Set("bfs_events", len(c25events()))
	r.Set("batch_limits", limits)

	// boundary set for explicit BatchRemove ranges
	bk := c25brmKeyset().keys()
	bk = append(bk, "a\xff\xff", "ab", "b\x00", "\xff\xff\xff")
	sort.Strings(bk)

	bounds := []*string{nil}
	for i := range bk {
		bounds = append(bounds, &bk[i])
	}

	var work []func()

	for pi := range c25prefixes {
		pi := pi
		work = append(work, func() { c.partIter(pi) })
	}

	for si := range bounds {
		si := si
		work = append(work, func() { c.partBRM(si, bounds, limits) })
	}

	work = append(work, func() { c.partBRMPrefix(limits) }, func() { c.partRMP() })

	events := c25events()

	for _, pr := range pairs {
		b := &c25bfs{c: c, pfx: pr, seed: c25seed(pr[0], pr[1]), events: events, pairName: fmt.Sprintf("%x+%x", pr[0], pr[1])}

		for ei := range events {
			ei := ei
			work = append(work, func() { b.search(ei, depth) })
		}
	}

	// inputs with unclear documented behaviour (appended last: the earlier items keep their indexes)
	for pi := range c25prefixes {
		pi := pi
		work = append(work, func() { c.partEdgeIter(pi) })
	}

	work = append(work, func() { c.partEdgeBRM() })

	r.Set("work_items", len(work))

	for i := range work {
		if !r.Mine(i) {
			continue
		}

		if r.Expired() {
			break
		}

		work[i]()
	}

	if r.Violations() == 0 {
		r.Outcome("no-violation-in-shard")
	}
}
