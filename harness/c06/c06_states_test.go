//go:build verif

package isaacstates

import (
	"fmt"
	"testing"

	"github.com/spikeekips/mitum/base"
	"github.com/spikeekips/mitum/isaac"
	"github.com/spikeekips/mitum/util"
	"github.com/spikeekips/mitum/zzverif/vlib"
)

// C06 (unit isaac/states): Ballotbox.SetLastPoint / isNewBallot on the real
// Ballotbox. The reference relation is the same as in the isaac unit (see
// c06_isaac_test.go for the derivation from the statement).
//
// (b1) complete graph: every last position L (incl. none) x every candidate C on a
//      fresh Ballotbox: an accepted update must be allowed by the reference and must
//      store exactly C; a rejected one must leave L untouched; isNewBallot agrees with
//      isaac.IsNewBallot and never accepts a lower height.
// (b2) every sequence of 3 updates on ONE live Ballotbox: the stored position after
//      each update is the one predicted by the edge relation measured in (b1) (the box
//      has no hidden state), and every accepted step is an allowed edge.

type c06sPos struct {
	h      int64
	r      uint64
	accept bool
	maj    bool
	sc     bool
	zero   bool
}

func (p c06sPos) String() string {
	if p.zero {
		return "zero"
	}

	st := "I"
	if p.accept {
		st = "A"
	}

	m, s := "-", "-"
	if p.maj {
		m = "m"
	}

	if p.sc {
		s = "s"
	}

	return fmt.Sprintf("h%dr%d%s%s%s", p.h, p.r, st, m, s)
}

func (p c06sPos) sp() base.StagePoint {
	if p.zero {
		return base.ZeroStagePoint
	}

	st := base.StageINIT
	if p.accept {
		st = base.StageACCEPT
	}

	return base.NewStagePoint(base.RawPoint(p.h, p.r), st)
}

func (p c06sPos) lp() isaac.LastPoint {
	if p.zero {
		return isaac.LastPoint{}
	}

	l, err := isaac.NewLastPoint(p.sp(), p.maj, p.sc)
	if err != nil {
		panic(err)
	}

	return l
}

func (p c06sPos) rank() int {
	if p.accept {
		return 1
	}

	return 0
}

func c06sMay(l, c c06sPos) (allowed bool, class string) {
	switch {
	case l.zero:
		return true, "first"
	case c.h < l.h:
		return false, "lower-height"
	case c.h > l.h:
		return true, "higher-height"
	}

	cmp := 0

	switch {
	case c.r < l.r:
		cmp = -1
	case c.r > l.r:
		cmp = 1
	case c.rank() < l.rank():
		cmp = -1
	case c.rank() > l.rank():
		cmp = 1
	}

	switch {
	case cmp < 0:
		if c.sc && !l.maj {
			return true, "earlier:sc-over-nonmaj"
		}

		if c.sc {
			return false, "earlier:sc-over-maj"
		}

		return false, "earlier"
	case cmp > 0:
		return true, "later"
	case c.sc && !l.sc:
		return true, "same:sc-after-init"
	case !l.maj && c.maj:
		return true, "same:maj-over-nonmaj"
	default:
		return false, "same:retake"
	}
}

func c06sDomain(heights []int64, rounds []uint64) []c06sPos {
	var ps []c06sPos

	for _, h := range heights {
		for _, r := range rounds {
			for _, k := range [][3]bool{
				{false, false, false}, {false, true, false}, {false, false, true}, {false, true, true},
				{true, false, false}, {true, true, false},
			} {
				ps = append(ps, c06sPos{h: h, r: r, accept: k[0], maj: k[1], sc: k[2]})
			}
		}
	}

	return ps
}

// c06sBox returns a Ballotbox whose last point is unset. NewBallotbox allocates a
// 65535-slot voteproof channel (1 MB), so one constructed box is kept per process and
// its lsp field (the only field SetLastPoint, isNewBallot and LastPoint touch) is
// replaced by a fresh empty one, exactly as the constructor does.
func c06sBox() *Ballotbox {
	if c06sTheBox == nil {
		c06sTheBox = c06sNewBox()
	}

	c06sTheBox.lsp = util.EmptyLocked[isaac.LastPoint]()

	return c06sTheBox
}

var c06sTheBox *Ballotbox

func c06sNewBox() *Ballotbox {
	return NewBallotbox(
		base.NewStringAddress("c06-local"),
		func() base.Threshold { return base.Threshold(100) },
		func(base.Height) (base.Suffrage, bool, error) { return nil, false, nil },
	)
}

func TestVerifC06(t *testing.T) {
	r := vlib.Start("C06")
	defer r.Finish()

	heights := vlib.Pick(r, []int64{1, 2, 3}, []int64{0, 1, 2, 3, 4})
	rounds := vlib.Pick(r, []uint64{0, 1, 2}, []uint64{0, 1, 2, 3})
	seqHeights := vlib.Pick(r, []int64{1, 2}, []int64{1, 2, 3})
	seqRounds := vlib.Pick(r, []uint64{0, 1}, []uint64{0, 1, 2})

	r.Rule("(b1) every (last incl. none, candidate) pair on a fresh Ballotbox through SetLastPoint and isNewBallot; (b2) every sequence of 3 SetLastPoint calls " +
		"on one live Ballotbox. Non-trivial = an accepted update that is not simply later than the stored position")
	r.Set("b_heights", heights)
	r.Set("b_rounds", rounds)
	r.Set("b_seq_heights", seqHeights)
	r.Set("b_seq_rounds", seqRounds)
	r.Set("b_seq_len", 3)
	r.Assume("Ballotbox.SetLastPoint / isNewBallot / LastPoint read and write only the lsp field; a 'fresh' box is the constructed box with a new empty lsp")

	dom := c06sDomain(heights, rounds)
	lasts := append([]c06sPos{{zero: true}}, dom...)

	r.Set("b_positions", len(dom))

	// (b1)
	for li, l := range lasts {
		if !r.Mine(li) {
			continue
		}

		for _, c := range dom {
			id := fmt.Sprintf("b1/L=%s/C=%s", l, c)
			if !r.Want(id) {
				continue
			}

			r.StatesN(1)
			c06sEdge(r, id, l, c)
		}
	}

	// (b2)
	sdom := c06sDomain(seqHeights, seqRounds)
	r.Set("b_seq_positions", len(sdom))

	// edge relation as measured on fresh boxes
	type edge struct{ l, c c06sPos }

	accepted := map[edge]bool{}

	for _, l := range append([]c06sPos{{zero: true}}, sdom...) {
		for _, c := range sdom {
			box := c06sBox()
			if !l.zero {
				box.SetLastPoint(l.lp())
			}

			accepted[edge{l, c}] = box.SetLastPoint(c.lp())
		}
	}

	for i0, p0 := range sdom {
		if !r.Mine(i0) {
			continue
		}

		if r.Expired() {
			return
		}

		for _, p1 := range sdom {
			for _, p2 := range sdom {
				id := fmt.Sprintf("b2/%s/%s/%s", p0, p1, p2)
				if !r.Want(id) {
					continue
				}

				r.Trace()

				box := c06sBox()
				cur := c06sPos{zero: true}

				for step, c := range []c06sPos{p0, p1, p2} {
					got := box.SetLastPoint(c.lp())
					r.Transition()

					want := accepted[edge{cur, c}]
					allowed, class := c06sMay(cur, c)

					switch {
					case got != want:
						r.Violation(id, map[string]any{"kind": "box-has-hidden-state", "step": step},
							fmt.Sprintf("sequence %s step %d: SetLastPoint(%s) on stored %s returned %v on the live box but %v on a fresh box", id, step, c, cur, got, want), nil)
					case got && !allowed:
						r.Violation(id, map[string]any{"kind": "accepts-disallowed", "pred": "SetLastPoint-seq", "class": class},
							fmt.Sprintf("sequence %s step %d: SetLastPoint moved %s -> %s (%s)", id, step, cur, c, class), nil)
					}

					if got {
						cur = c
					}

					if stored := box.LastPoint(); stored != cur.lp() {
						r.Violation(id, map[string]any{"kind": "stored-position-wrong", "pred": "SetLastPoint-seq"},
							fmt.Sprintf("sequence %s step %d: stored %v, expected %s", id, step, stored, cur), nil)
					}
				}

				r.State("b2:" + cur.String())
			}
		}
	}
}

func c06sEdge(r *vlib.Run, id string, l, c c06sPos) {
	box := c06sBox()

	if !l.zero {
		if !box.SetLastPoint(l.lp()) {
			r.Violation(id, map[string]any{"kind": "first-update-rejected"}, fmt.Sprintf("fresh box rejected %s", l), nil)

			return
		}
	}

	if stored := box.LastPoint(); stored != l.lp() {
		r.Violation(id, map[string]any{"kind": "stored-position-wrong", "pred": "SetLastPoint"}, fmt.Sprintf("stored %v after setting %s", stored, l), nil)

		return
	}

	// ballot judgement first (must not change the stored position)
	cb := c
	cb.maj = false
	allowedB, classB := c06sMay(l, cb)

	nb := box.isNewBallot(c.sp(), c.sc)
	r.Eval()

	wantnb := l.zero || isaac.IsNewBallot(l.lp(), c.sp(), c.sc)

	r.Outcome(fmt.Sprintf("b:isNewBallot:%s:%v", classB, nb))

	switch {
	case nb != wantnb:
		r.Violation(id, map[string]any{"kind": "predicates-disagree", "pred": "Ballotbox.isNewBallot/IsNewBallot"},
			fmt.Sprintf("stored %s ballot %s: box.isNewBallot=%v isaac.IsNewBallot=%v", l, c, nb, wantnb), nil)
	case nb && !allowedB:
		r.Violation(id, map[string]any{"kind": "accepts-disallowed", "pred": "Ballotbox.isNewBallot", "class": classB},
			fmt.Sprintf("stored %s: box.isNewBallot(%v, sc=%v) = true (%s)", l, c.sp(), c.sc, classB), nil)
	}

	if stored := box.LastPoint(); stored != l.lp() {
		r.Violation(id, map[string]any{"kind": "judging-a-ballot-moved-position"}, fmt.Sprintf("stored %v after isNewBallot on %s", stored, l), nil)
	}

	allowed, class := c06sMay(l, c)
	got := box.SetLastPoint(c.lp())
	stored := box.LastPoint()

	r.Eval()
	r.Transition()
	r.Outcome(fmt.Sprintf("b:SetLastPoint:%s:%v", class, got))

	if got && class != "later" && class != "higher-height" && class != "first" {
		r.Nontrivial(id)
	}

	if l.h == 2 && l.r == 1 && !l.accept && !l.maj && !l.sc && c.h == 2 && c.r == 0 && !c.accept {
		r.Sample(map[string]any{"part": "b1", "stored": l.String(), "candidate": c.String(), "SetLastPoint": got, "class": class})
	}

	switch {
	case got && !allowed:
		r.Violation(id, map[string]any{"kind": "accepts-disallowed", "pred": "SetLastPoint", "class": class},
			fmt.Sprintf("Ballotbox.SetLastPoint moved %s -> %s, which the statement does not allow (%s)", l, c, class),
			map[string]any{"last": l.String(), "candidate": c.String()})
	case got && stored != c.lp():
		r.Violation(id, map[string]any{"kind": "stored-position-wrong", "pred": "SetLastPoint"},
			fmt.Sprintf("SetLastPoint(%s) on %s returned true but stored %v", c, l, stored), nil)
	case !got && stored != l.lp():
		r.Violation(id, map[string]any{"kind": "rejected-update-changed-position", "class": class},
			fmt.Sprintf("SetLastPoint(%s) on %s returned false but stored %v", c, l, stored), nil)
	}
}
