//go:build verif

package isaac

import (
	"fmt"
	"sort"
	"strings"
	"testing"

	"github.com/spikeekips/mitum/base"
	"github.com/spikeekips/mitum/util"
	"github.com/spikeekips/mitum/util/valuehash"
	"github.com/spikeekips/mitum/zzverif/vlib"
)

// C06 (unit isaac): consensus progress is monotonic.
//
// Reference relation "position L may be replaced by position C", written from the
// property statement. A position is (height, round, stage, majority, suffrage-confirm);
// its stage point is (height, round, stage).
//   * L zero (nothing yet)                         -> anything may be taken
//   * C.height < L.height                          -> never            ("lower-height")
//   * C.height > L.height                          -> allowed          ("higher-height")
//   * same height, C's stage point earlier         -> only if C is a suffrage-confirm
//     result and L is not a majority               ("earlier:sc-over-nonmaj" / "earlier")
//   * same height, C's stage point later           -> allowed          ("later")
//   * same stage point:
//       C suffrage-confirm, L not                  -> allowed (the confirm follows the INIT result)
//       otherwise                                  -> only a majority replacing a non-majority
//                                                     ("same:maj-over-nonmaj" / "same:retake")
//
// (a) every (last, candidate) pair through LastPoint.Before, IsNewBallot,
//     IsNewVoteproofbyPoint, IsNewVoteproof: whatever is accepted must be allowed.
// (c) BFS over LastVoteproofsHandler.Set histories (plus at most one ForceSetLast per
//     history, as a state generator without an oracle on that edge): after every Set the
//     position the handler reports (Last().Cap()) may only have moved along an allowed
//     edge; a voteproof that IsNew() rejects (in particular any lower-height one) must
//     not move it.

type c06Pos struct {
	h      int64
	r      uint64
	accept bool
	maj    bool
	sc     bool
	zero   bool
}

func (p c06Pos) String() string {
	if p.zero {
		return "zero"
	}

	st := "I"
	if p.accept {
		st = "A"
	}

	m, s := "-", "-"
	if p.maj {
		m = "m"
	}

	if p.sc {
		s = "s"
	}

	return fmt.Sprintf("h%dr%d%s%s%s", p.h, p.r, st, m, s)
}

func (p c06Pos) stage() base.Stage {
	if p.accept {
		return base.StageACCEPT
	}

	return base.StageINIT
}

func (p c06Pos) sp() base.StagePoint {
	if p.zero {
		return base.ZeroStagePoint
	}

	return base.NewStagePoint(base.RawPoint(p.h, p.r), p.stage())
}

func (p c06Pos) lp() LastPoint {
	if p.zero {
		return LastPoint{}
	}

	l, err := NewLastPoint(p.sp(), p.maj, p.sc)
	if err != nil {
		panic(err)
	}

	return l
}

func (p c06Pos) rank() int {
	if p.accept {
		return 1
	}

	return 0
}

// c06May is the reference relation; class names the structural kind of the edge.
func c06May(l, c c06Pos) (allowed bool, class string) {
	switch {
	case l.zero:
		return true, "first"
	case c.h < l.h:
		return false, "lower-height"
	case c.h > l.h:
		return true, "higher-height"
	}

	cmp := 0

	switch {
	case c.r < l.r:
		cmp = -1
	case c.r > l.r:
		cmp = 1
	case c.rank() < l.rank():
		cmp = -1
	case c.rank() > l.rank():
		cmp = 1
	}

	switch {
	case cmp < 0:
		if c.sc && !l.maj {
			return true, "earlier:sc-over-nonmaj"
		}

		if c.sc {
			return false, "earlier:sc-over-maj"
		}

		return false, "earlier"
	case cmp > 0:
		return true, "later"
	case c.sc && !l.sc:
		return true, "same:sc-after-init"
	case !l.maj && c.maj:
		return true, "same:maj-over-nonmaj"
	default:
		return false, "same:retake"
	}
}

// c06Domain lists the positions. voteproofOnly drops (INIT, non-majority,
// suffrage-confirm), which no voteproof can express (confirm is read from the
// majority fact).
func c06Domain(heights []int64, rounds []uint64, voteproofOnly bool) []c06Pos {
	var ps []c06Pos

	for _, h := range heights {
		for _, r := range rounds {
			for _, k := range [][3]bool{
				{false, false, false}, {false, true, false}, {false, false, true}, {false, true, true},
				{true, false, false}, {true, true, false},
			} {
				p := c06Pos{h: h, r: r, accept: k[0], maj: k[1], sc: k[2]}
				if voteproofOnly && p.sc && !p.maj {
					continue
				}

				ps = append(ps, p)
			}
		}
	}

	return ps
}

var (
	c06Prev   = valuehash.NewSHA256([]byte("c06-prev"))
	c06Pr     = valuehash.NewSHA256([]byte("c06-proposal"))
	c06Block  = valuehash.NewSHA256([]byte("c06-block"))
	c06Expelf = valuehash.NewSHA256([]byte("c06-expel-fact"))
)

// c06Voteproof builds the real (unsigned; Set/IsNew do not validate) voteproof of a position.
func c06Voteproof(p c06Pos) base.Voteproof {
	point := base.RawPoint(p.h, p.r)

	if p.accept {
		vp := NewACCEPTVoteproof(point)
		if p.maj {
			vp.SetMajority(NewACCEPTBallotFact(point, c06Pr, c06Block, nil))
		}

		vp.Finish()
		vp.SetID(p.String())

		return vp
	}

	vp := NewINITVoteproof(point)

	switch {
	case p.maj && p.sc:
		vp.SetMajority(NewSuffrageConfirmBallotFact(point, c06Prev, c06Pr, []util.Hash{c06Expelf}))
	case p.maj:
		vp.SetMajority(NewINITBallotFact(point, c06Prev, c06Pr, nil))
	case p.sc:
		panic("no voteproof for non-majority suffrage confirm")
	}

	vp.Finish()
	vp.SetID(p.String())

	return vp
}

func c06PosOfVoteproof(vp base.Voteproof, byID map[string]c06Pos) c06Pos {
	if vp == nil {
		return c06Pos{zero: true}
	}

	p, found := byID[vp.ID()]
	if !found {
		panic("unknown voteproof " + vp.ID())
	}

	// cross-check the position against what the code derives from the object
	l, err := NewLastPointFromVoteproof(vp)
	if err != nil {
		panic(err)
	}

	if !l.StagePoint.Equal(p.sp()) || l.IsMajority() != p.maj || l.IsSuffrageConfirm() != p.sc {
		panic(fmt.Sprintf("voteproof %s does not express its position: %v %v %v", p, l.StagePoint, l.IsMajority(), l.IsSuffrageConfirm()))
	}

	return p
}

type c06Env struct {
	r      *vlib.Run
	events []c06Pos // voteproof positions
	vps    map[string]base.Voteproof
	byID   map[string]c06Pos
	sps    []base.StagePoint
}

func TestVerifC06(t *testing.T) {
	r := vlib.Start("C06")
	defer r.Finish()

	heightsA := vlib.Pick(r, []int64{1, 2, 3}, []int64{0, 1, 2, 3, 4})
	roundsA := vlib.Pick(r, []uint64{0, 1, 2}, []uint64{0, 1, 2, 3})
	heightsC := vlib.Pick(r, []int64{1, 2, 3}, []int64{1, 2, 3, 4})
	roundsC := vlib.Pick(r, []uint64{0, 1, 2}, []uint64{0, 1, 2})
	depthC1 := 40
	heightsF := []int64{1, 2}
	roundsF := []uint64{0, 1}
	depthC2 := vlib.Pick(r, 4, 5)

	r.Rule("(a) all (last, candidate) pairs of the position domain through Before/IsNewBallot/IsNewVoteproofbyPoint/IsNewVoteproof; " +
		"(c1) BFS over histories of LastVoteproofsHandler.Set (one real voteproof per position), dedup on the (ivp,avp,mvp) positions, run to closure; " +
		"(c2) BFS over histories of Set with exactly <=1 ForceSetLast (state generator, no oracle on that edge), dedup on (ivp,avp,mvp, per cached stage point " +
		"which of ivp/avp are present, force used), depth-capped. Non-trivial = an accepted candidate that is not simply later than the last position " +
		"(earlier, same stage point), or a handler transition that moves Cap()")
	r.Set("a_heights", heightsA)
	r.Set("a_rounds", roundsA)
	r.Set("c1_heights", heightsC)
	r.Set("c1_rounds", roundsC)
	r.Set("c1_depth_cap", depthC1)
	r.Set("c2_heights", heightsF)
	r.Set("c2_rounds", roundsF)
	r.Set("c2_depth_cap", depthC2)
	r.Set("c2_force_per_history", 1)
	r.Assume("LastVoteproofsHandler.Set/IsNew do not validate voteproofs, so unsigned voteproof objects with the right point/result/majority-fact type are used")
	r.Assume("the handler's LRU cache (8 entries) influences Set only through the nil-ness of the cached ivp/avp (read in fillMissing); see c06HState.key")

	c06PartA(r, heightsA, roundsA)

	env1 := c06NewEnv(r, heightsC, roundsC)
	env2 := c06NewEnv(r, heightsF, roundsF)

	r.Set("c1_set_events", len(env1.events))
	r.Set("c2_set_events", len(env2.events))

	if id, replaying := r.Replaying(); replaying {
		if strings.HasPrefix(id, "c/") {
			env1.replayPath(id)
		}

		return
	}

	if r.Mine(0) {
		env1.bfs("c1", false, depthC1)
	}

	env2.bfs("c2", true, depthC2)
}

func c06NewEnv(r *vlib.Run, heights []int64, rounds []uint64) *c06Env {
	env := &c06Env{r: r, vps: map[string]base.Voteproof{}, byID: map[string]c06Pos{}}
	env.events = c06Domain(heights, rounds, true)

	for _, p := range env.events {
		env.vps[p.String()] = c06Voteproof(p)
		env.byID[p.String()] = p
	}

	seen := map[string]bool{}

	for _, p := range env.events {
		if k := p.sp().String(); !seen[k] {
			seen[k] = true
			env.sps = append(env.sps, p.sp())
		}
	}

	return env
}

func c06PartA(r *vlib.Run, heights []int64, rounds []uint64) {
	dom := c06Domain(heights, rounds, false)
	lasts := append([]c06Pos{{zero: true}}, dom...)

	r.Set("a_positions", len(dom))

	for li, l := range lasts {
		if !r.Mine(li) {
			continue
		}

		ll := l.lp()

		for _, c := range dom {
			id := fmt.Sprintf("a/L=%s/C=%s", l, c)
			if !r.Want(id) {
				continue
			}

			r.StatesN(1)

			// ballot path: the candidate's result is unknown, so the majority
			// exception cannot apply
			cb := c
			cb.maj = false
			allowedB, classB := c06May(l, cb)

			before := ll.Before(c.sp(), c.sc)
			isnewballot := IsNewBallot(ll, c.sp(), c.sc)
			r.EvalN(2)

			if before != isnewballot {
				r.Violation(id, map[string]any{"kind": "predicates-disagree", "pred": "Before/IsNewBallot"},
					fmt.Sprintf("last=%s candidate=%s: Before=%v IsNewBallot=%v", l, c, before, isnewballot), nil)
			}

			r.Outcome(fmt.Sprintf("a:Before:%s:%v", classB, before))

			if before && !allowedB {
				r.Violation(id, map[string]any{"kind": "accepts-disallowed", "pred": "Before", "class": classB},
					fmt.Sprintf("LastPoint(%s).Before(%v, sc=%v) = true, but the statement does not allow %s -> %s (%s)", l, c.sp(), c.sc, l, cb, classB),
					map[string]any{"last": l.String(), "candidate": c.String()})
			}

			allowedV, classV := c06May(l, c)
			isnewp := IsNewVoteproofbyPoint(ll, c.sp(), c.maj, c.sc)
			r.Eval()

			r.Outcome(fmt.Sprintf("a:IsNewVoteproofbyPoint:%s:%v", classV, isnewp))

			if isnewp && !allowedV {
				r.Violation(id, map[string]any{"kind": "accepts-disallowed", "pred": "IsNewVoteproofbyPoint", "class": classV},
					fmt.Sprintf("IsNewVoteproofbyPoint(last=%s, %v, maj=%v, sc=%v) = true, but the statement does not allow %s -> %s (%s)", l, c.sp(), c.maj, c.sc, l, c, classV),
					map[string]any{"last": l.String(), "candidate": c.String()})
			}

			if (before || isnewp) && classV != "later" && classV != "higher-height" && classV != "first" {
				r.Nontrivial(id)
			}

			if !(c.sc && !c.maj) {
				isnewvp := IsNewVoteproof(ll, c06Voteproof(c))
				r.Eval()

				if isnewvp != isnewp {
					r.Violation(id, map[string]any{"kind": "predicates-disagree", "pred": "IsNewVoteproof/IsNewVoteproofbyPoint"},
						fmt.Sprintf("last=%s candidate=%s: IsNewVoteproof(object)=%v IsNewVoteproofbyPoint=%v", l, c, isnewvp, isnewp), nil)
				}
			}

			if l.h == 2 && l.r == 1 && !l.accept && !l.maj && !l.sc && c.h == 2 && c.r == 0 {
				r.Sample(map[string]any{"part": "a", "last": l.String(), "candidate": c.String(), "Before": before, "IsNewVoteproofbyPoint": isnewp, "class": classV})
			}
		}
	}
}

// ---- (c) LastVoteproofsHandler ----

type c06Event struct {
	force bool
	pos   c06Pos
}

func (e c06Event) String() string {
	if e.force {
		return "F:" + e.pos.String()
	}

	return "S:" + e.pos.String()
}

type c06HState struct {
	ivp, avp, mvp, cap c06Pos
	cache              string
}

// key is the canonical state. Without ForceSetLast (withCache=false) the triple of
// positions is enough: Set reads the cache only in fillMissing, only to learn whether
// the cached ivp/avp are nil, and only to decide whether to fill a nil l.last.ivp /
// l.last.avp; Set never resets those to nil, and every cache entry is a copy of an
// earlier l.last, so "cached.x != nil" implies "l.last.x != nil" and the cache cannot
// change what happens to (ivp, avp, mvp). ForceSetLast can reset them to nil, so
// histories with a force keep, per cached stage point, which of ivp/avp are present.
func (s c06HState) key(withCache, forced bool) string {
	if !withCache {
		return fmt.Sprintf("%s|%s|%s", s.ivp, s.avp, s.mvp)
	}

	return fmt.Sprintf("%s|%s|%s|%s|%v", s.ivp, s.avp, s.mvp, s.cache, forced)
}

func (env *c06Env) observe(h *LastVoteproofsHandler) c06HState {
	last := h.Last()

	var s c06HState

	s.ivp = c06PosOfVoteproof(voteproofOrNil(last.INIT()), env.byID)
	s.avp = c06PosOfVoteproof(voteproofOrNil(last.ACCEPT()), env.byID)
	s.mvp = c06PosOfVoteproof(last.Majority(), env.byID)
	s.cap = c06PosOfVoteproof(last.Cap(), env.byID)

	var cs []string

	for _, sp := range env.sps {
		if c, found := h.Voteproofs(sp); found {
			cs = append(cs, fmt.Sprintf("%d.%d.%s:%v%v", sp.Height(), sp.Round(), sp.Stage(), c.ivp != nil, c.avp != nil))
		}
	}

	sort.Strings(cs)
	s.cache = strings.Join(cs, ",")

	return s
}

func voteproofOrNil(vp base.Voteproof) base.Voteproof {
	// typed nil interfaces (INITVoteproof(nil)) compare unequal to nil after conversion
	switch t := vp.(type) {
	case nil:
		return nil
	case base.INITVoteproof:
		if t == nil {
			return nil
		}
	case base.ACCEPTVoteproof:
		if t == nil {
			return nil
		}
	}

	return vp
}

// apply runs one event on h and checks the oracle for that transition. path is the
// id of the history including this event.
func (env *c06Env) apply(h *LastVoteproofsHandler, ev c06Event, path string, check bool) c06HState {
	r := env.r
	vp := env.vps[ev.pos.String()]

	if ev.force {
		_ = h.ForceSetLast(vp)

		return env.observe(h)
	}

	before := env.observe(h)
	isnew := h.IsNew(vp)
	isnew2 := h.Last().IsNew(vp)
	ret := h.Set(vp)
	after := env.observe(h)

	if !check {
		return after
	}

	r.Transition()

	moved := after.cap != before.cap
	allowed, class := c06May(before.cap, after.cap)
	_, evclass := c06May(before.cap, ev.pos)

	r.Outcome(fmt.Sprintf("c:isnew=%v:set=%v:capmoved=%v:event=%s", isnew, ret, moved, evclass))

	if moved {
		r.Nontrivial("c/" + before.key(false, false) + ">" + after.cap.String())
	}

	rep := map[string]any{"path": path, "cap_before": before.cap.String(), "cap_after": after.cap.String(), "event": ev.String()}

	switch {
	case isnew != isnew2:
		r.Violation(path, map[string]any{"kind": "handler-isnew-disagree"},
			fmt.Sprintf("%s: handler.IsNew=%v but Last().IsNew=%v", path, isnew, isnew2), rep)
	case moved && !allowed:
		r.Violation(path, map[string]any{"kind": "cap-disallowed-move", "class": class, "cap_is_event": after.cap == ev.pos, "event_class": evclass, "isnew": isnew},
			fmt.Sprintf("history %s: Set(%s) returned %v (IsNew=%v) and Last().Cap() moved %s -> %s, which the statement does not allow (%s); last voteproofs before: ivp=%s avp=%s mvp=%s, after: ivp=%s avp=%s mvp=%s",
				path, ev.pos, ret, isnew, before.cap, after.cap, class, before.ivp, before.avp, before.mvp, after.ivp, after.avp, after.mvp), rep)
	case moved && !isnew:
		r.Violation(path, map[string]any{"kind": "cap-moved-by-rejected-voteproof", "event_class": evclass},
			fmt.Sprintf("history %s: IsNew(%s)=false but Last().Cap() moved %s -> %s", path, ev.pos, before.cap, after.cap), rep)
	case isnew && !ret:
		r.Violation(path, map[string]any{"kind": "new-voteproof-not-set", "event_class": evclass},
			fmt.Sprintf("history %s: IsNew(%s)=true but Set returned false (cap %s)", path, ev.pos, before.cap), rep)
	case !before.cap.zero && after.cap.zero:
		r.Violation(path, map[string]any{"kind": "cap-lost"}, fmt.Sprintf("history %s: Cap() became nil", path), rep)
	}

	return after
}

func (env *c06Env) run(hist []c06Event, checkLast bool) (c06HState, string) {
	h := NewLastVoteproofsHandler()

	var s c06HState

	parts := make([]string, 0, len(hist)+1)
	parts = append(parts, "c")

	for i, ev := range hist {
		parts = append(parts, ev.String())

		if i < len(hist)-1 {
			// prefix: already checked when it was the last step of a shorter history
			vp := env.vps[ev.pos.String()]
			if ev.force {
				_ = h.ForceSetLast(vp)
			} else {
				_ = h.Set(vp)
			}

			continue
		}

		s = env.apply(h, ev, strings.Join(parts, "/"), checkLast)
	}

	env.r.Trace()

	return s, strings.Join(parts, "/")
}

func (env *c06Env) allEvents(withForce bool) []c06Event {
	evs := make([]c06Event, 0, 2*len(env.events))
	for _, p := range env.events {
		evs = append(evs, c06Event{pos: p})
	}

	if withForce {
		for _, p := range env.events {
			evs = append(evs, c06Event{force: true, pos: p})
		}
	}

	return evs
}

type c06Node struct {
	hist   []c06Event
	forced bool
}

// bfs explores histories breadth first. force=false: Set events only, state =
// (ivp,avp,mvp), single process, until no new state appears (closure) or maxdepth.
// force=true: Set events plus at most one ForceSetLast per history, state includes the
// cache abstraction, first events partitioned over the shards, depth cap maxdepth.
func (env *c06Env) bfs(tag string, force bool, maxdepth int) {
	r := env.r

	var frontier []c06Node

	for i, ev := range env.allEvents(force) {
		if force && !r.Mine(i) {
			continue
		}

		s, _ := env.run([]c06Event{ev}, true)
		if r.State(tag + s.key(force, ev.force)) {
			frontier = append(frontier, c06Node{hist: []c06Event{ev}, forced: ev.force})
		}
	}

	r.Max(tag+"_depth_completed", 1)

	for d := 2; d <= maxdepth && len(frontier) > 0; d++ {
		var next []c06Node

		for _, n := range frontier {
			if r.Expired() {
				return
			}

			for _, ev := range env.allEvents(force && !n.forced) {
				hist := make([]c06Event, len(n.hist)+1)
				copy(hist, n.hist)
				hist[len(n.hist)] = ev

				s, path := env.run(hist, true)
				forced := n.forced || ev.force

				if r.State(tag + s.key(force, forced)) {
					next = append(next, c06Node{hist: hist, forced: forced})

					if !force && s.cap != ev.pos {
						r.Sample(map[string]any{"part": tag, "history": path, "ivp": s.ivp.String(), "avp": s.avp.String(), "mvp": s.mvp.String(), "cap": s.cap.String()})
					}
				}
			}
		}

		frontier = next

		r.Max(tag+"_depth_completed", int64(d))
		r.Max(tag+"_frontier_max", int64(len(frontier)))
	}

	if len(frontier) == 0 {
		r.Set(tag+"_closed", true)
	} else {
		r.Set(tag+"_closed", false)
	}
}

func (env *c06Env) replayPath(id string) {
	parts := strings.Split(id, "/")[1:]
	hist := make([]c06Event, 0, len(parts))

	for _, p := range parts {
		force := strings.HasPrefix(p, "F:")
		pos, found := env.byID[p[2:]]

		if !found {
			panic("replay: unknown event " + p)
		}

		hist = append(hist, c06Event{force: force, pos: pos})
	}

	if env.r.Want(id) {
		env.run(hist, true)
	}
}
