//go:build verif

package isaac

import (
	"fmt"
	"os"
	"sort"
	"strings"
	"testing"

	"github.com/spikeekips/mitum/base"
	"github.com/spikeekips/mitum/zzverif/vlib"
	"github.com/spikeekips/mitum/zzverif/vsched"
)

// C06 (concurrent half, engine S): consensus progress is monotonic for
// concurrent callers of LastVoteproofsHandler.
//
// 2-3 threads call Set (optionally one ForceSetLast) with voteproofs of different
// / equal positions on one fresh real handler while one reader thread calls
// Last() / IsNew(vp) / Voteproofs(stage point). isaac/last_voteproofs.go is
// compiled onto the scheduler shims, so every acquisition of the handler's
// RWMutex is a scheduling point; the gcache-based LRU cache is third party code
// and runs as an atomic step of the calling thread (Voteproofs(), which takes no
// handler lock, gets an explicit point where gcache would take its own mutex).
// Every interleaving within the preemption bound is executed.
//
// Oracle
//  (1) position oracle, judged on the observations alone (no model of the handler):
//      whenever a Last() returned before another Last() was called, the later
//      Cap() position must be the same or reachable from the earlier one through
//      edges the statement allows (c06May, closed over the positions of the
//      scenario); never back to "nothing". Pairs that a ForceSetLast may separate
//      are not judged (ForceSetLast is a state generator, as in the sequential half).
//  (2) linearizability: some total order of the calls, consistent with real time,
//      reproduces every return value (Set/ForceSetLast/IsNew booleans, the
//      (ivp,avp,mvp) of Last(), the cached (ivp,avp,mvp) of Voteproofs()) and the
//      state at quiescence (Last() and the cache entry of every stage point) when
//      the same calls are made one after another on a fresh handler. The
//      sequential behaviour itself is what the sequential half (c1/c2) judges.
//  (3) the Set steps of that witness order are judged with the oracle of the
//      sequential half (same signatures): Cap() may only move along an allowed
//      edge, a voteproof IsNew rejects must not move it, a new one must be set.

type c06cOp struct {
	kind string // S(et) F(orceSetLast) L(ast) N (IsNew) V(oteproofs)
	pos  c06Pos // voteproof position; for V the stage point of this position
}

func (o c06cOp) String() string {
	switch o.kind {
	case "L":
		return "L"
	case "V":
		return fmt.Sprintf("V(h%dr%d%s)", o.pos.h, o.pos.r, map[bool]string{false: "I", true: "A"}[o.pos.accept])
	}

	return o.kind + "(" + o.pos.String() + ")"
}

func (o c06cOp) mutator() bool { return o.kind == "S" || o.kind == "F" }

type c06cEvent struct {
	idx       int // index of the op in the flattened scenario
	thread    int
	op        c06cOp
	call, ret int
	res       string
	cap       c06Pos // L only
}

type c06cScenario struct {
	name    string
	init    []c06Pos // Set one after another before the threads start
	threads [][]c06cOp
}

func (s c06cScenario) id() string {
	var ts []string

	for _, t := range s.threads {
		var xs []string
		for _, o := range t {
			xs = append(xs, o.String())
		}

		ts = append(ts, strings.Join(xs, ","))
	}

	var is []string
	for _, p := range s.init {
		is = append(is, p.String())
	}

	return fmt.Sprintf("%s|init=%s|%s", s.name, strings.Join(is, ","), strings.Join(ts, " || "))
}

func (s c06cScenario) flat() []c06cOp {
	var ops []c06cOp
	for _, t := range s.threads {
		ops = append(ops, t...)
	}

	return ops
}

// ---- observing the real handler

func c06cVPID(vp base.Voteproof) string {
	if vp = voteproofOrNil(vp); vp == nil {
		return "-"
	}

	return vp.ID()
}

func c06cLVPS(l LastVoteproofs) string {
	return c06cVPID(l.INIT()) + "," + c06cVPID(l.ACCEPT()) + "," + c06cVPID(l.Majority())
}

// c06cDo performs one call on the real handler. inSched: called from a scheduled thread.
func c06cDo(env *c06Env, h *LastVoteproofsHandler, o c06cOp, inSched bool) (res string, cap c06Pos) {
	switch o.kind {
	case "S":
		return fmt.Sprint(h.Set(env.vps[o.pos.String()])), cap
	case "F":
		return fmt.Sprint(h.ForceSetLast(env.vps[o.pos.String()])), cap
	case "N":
		return fmt.Sprint(h.IsNew(env.vps[o.pos.String()])), cap
	case "L":
		last := h.Last()

		return c06cLVPS(last), c06PosOfVoteproof(voteproofOrNil(last.Cap()), env.byID)
	case "V":
		if inSched {
			// Voteproofs() does not take the handler lock; the cache's own mutex is
			// where it synchronises with the Set that fills the cache
			vsched.Point("Voteproofs:gcache", nil)
		}

		l, found := h.Voteproofs(o.pos.sp())
		if !found {
			return "none", cap
		}

		return c06cLVPS(l), cap
	}

	panic("unknown op " + o.kind)
}

func c06cFinal(env *c06Env, h *LastVoteproofsHandler) string {
	var sb strings.Builder

	sb.WriteString("last=" + c06cLVPS(h.Last()))

	for _, sp := range env.sps {
		if l, found := h.Voteproofs(sp); found {
			fmt.Fprintf(&sb, " %d.%d.%s=%s", sp.Height(), sp.Round(), sp.Stage(), c06cLVPS(l))
		}
	}

	return sb.String()
}

// ---- the sequential reference: the same calls, one after another, on a fresh handler

type c06cSeqNode struct {
	res       string // result of the last call of the order
	isnew     bool   // S only: IsNew(vp) just before the Set
	capBefore c06Pos
	capAfter  c06Pos
	ivp, avp  [2]c06Pos // before, after (for messages)
	mvp       [2]c06Pos
	final     string // state after the order
}

type c06cSeq struct {
	env  *c06Env
	s    c06cScenario
	ops  []c06cOp
	memo map[string]*c06cSeqNode
}

func c06cNewHandler(env *c06Env, s c06cScenario) *LastVoteproofsHandler {
	h := NewLastVoteproofsHandler()

	for _, p := range s.init {
		if !h.Set(env.vps[p.String()]) {
			panic("init Set(" + p.String() + ") returned false in " + s.name)
		}
	}

	return h
}

func c06cOrderKey(order []int) string {
	var sb strings.Builder
	for _, i := range order {
		sb.WriteByte(byte('a' + i))
	}

	return sb.String()
}

// node runs `order` (op indices) sequentially on a fresh handler; memoised, since the
// handler is deterministic and the scenario fixed. Called outside the scheduler
// (from Check), where the shims are the real primitives.
func (q *c06cSeq) node(order []int) *c06cSeqNode {
	key := c06cOrderKey(order)
	if n, found := q.memo[key]; found {
		return n
	}

	h := c06cNewHandler(q.env, q.s)

	for _, i := range order[:len(order)-1] {
		c06cDo(q.env, h, q.ops[i], false)
	}

	o := q.ops[order[len(order)-1]]
	n := &c06cSeqNode{}

	if o.kind == "S" {
		before := q.env.observe(h)
		n.capBefore, n.ivp[0], n.avp[0], n.mvp[0] = before.cap, before.ivp, before.avp, before.mvp
		n.isnew = h.IsNew(q.env.vps[o.pos.String()])
	}

	n.res, _ = c06cDo(q.env, h, o, false)

	if o.kind == "S" {
		after := q.env.observe(h)
		n.capAfter, n.ivp[1], n.avp[1], n.mvp[1] = after.cap, after.ivp, after.avp, after.mvp
	}

	n.final = c06cFinal(q.env, h)
	q.memo[key] = n

	return n
}

// linearize: brute force over all total orders consistent with real time. use
// filters the events taking part (e.g. mutators only); final "" = not compared.
func (q *c06cSeq) linearize(evs []c06cEvent, use func(c06cEvent) bool, final string) []int {
	var sel []c06cEvent

	for _, e := range evs {
		if use(e) {
			sel = append(sel, e)
		}
	}

	n := len(sel)
	used := make([]bool, n)
	order := make([]int, 0, n)

	if n == 0 {
		return order
	}

	var rec func() bool

	rec = func() bool {
		if len(order) == n {
			return final == "" || q.node(order).final == final
		}

		for i := 0; i < n; i++ {
			if used[i] {
				continue
			}

			ok := true

			for j := 0; j < n; j++ {
				if j != i && !used[j] && sel[j].ret < sel[i].call {
					ok = false

					break
				}
			}

			if !ok {
				continue
			}

			order = append(order, sel[i].idx)

			if q.node(order).res == sel[i].res {
				used[i] = true

				if rec() {
					return true
				}

				used[i] = false
			}

			order = order[:len(order)-1]
		}

		return false
	}

	if rec() {
		return order
	}

	return nil
}

// ---- reachability under the statement's relation

func c06cReach(universe []c06Pos) map[string]bool {
	reach := map[string]bool{}

	for _, a := range universe {
		seen := map[string]bool{a.String(): true}
		queue := []c06Pos{a}

		for len(queue) > 0 {
			x := queue[0]
			queue = queue[1:]

			for _, y := range universe {
				if seen[y.String()] {
					continue
				}

				if ok, _ := c06May(x, y); ok {
					seen[y.String()] = true
					reach[a.String()+">"+y.String()] = true
					queue = append(queue, y)
				}
			}
		}
	}

	return reach
}

// c06cOnlyPositionOracle (env VERIF_C06C_ORACLE=position; demonstration aid, never set by
// run.sh) switches oracles (2) and (3) off, to show what the model-free oracle (1) catches alone.
var c06cOnlyPositionOracle = os.Getenv("VERIF_C06C_ORACLE") == "position"

func c06cFail(kind string, sig map[string]any, detail string) *vsched.Fail {
	sig["kind"] = kind
	sig["half"] = "concurrent"

	return &vsched.Fail{Sig: sig, Detail: detail}
}

func c06cBuild(env *c06Env, s c06cScenario, seq *c06cSeq, reach map[string]bool) vsched.Scenario {
	h := c06cNewHandler(env, s)

	var evs []c06cEvent
	var clock int

	tick := func() int { clock++; return clock }

	var roots []func()

	idx := 0

	for ti, ops := range s.threads {
		ti, ops, off := ti, ops, idx
		idx += len(ops)

		roots = append(roots, func() {
			for k, o := range ops {
				call := tick()
				res, cap := c06cDo(env, h, o, true)
				evs = append(evs, c06cEvent{idx: off + k, thread: ti, op: o, call: call, ret: tick(), res: res, cap: cap})
			}
		})
	}

	hist := func() string {
		sorted := append([]c06cEvent{}, evs...)
		sort.Slice(sorted, func(i, j int) bool { return sorted[i].call < sorted[j].call })

		var sb strings.Builder
		for _, e := range sorted {
			fmt.Fprintf(&sb, "T%d %s -> %s [call %d ret %d]; ", e.thread, e.op, e.res, e.call, e.ret)
		}

		return sb.String()
	}

	var fin string

	return vsched.Scenario{
		Roots: roots,
		Outcome: func(*vsched.Exec) string {
			sorted := append([]c06cEvent{}, evs...)
			sort.Slice(sorted, func(i, j int) bool { return sorted[i].idx < sorted[j].idx })

			var xs []string
			for _, e := range sorted {
				xs = append(xs, e.res)
			}

			return strings.Join(xs, ";") + "=>" + fin
		},
		Check: func(x *vsched.Exec) *vsched.Fail {
			fin = c06cFinal(env, h)

			if x.Panic != nil {
				return c06cFail("panic", map[string]any{}, fmt.Sprintf("%v\n%s", x.Panic, x.PanicStack))
			}

			if x.Deadlock {
				return c06cFail("deadlock", map[string]any{}, strings.Join(x.Blocked, ";"))
			}

			if len(evs) != len(seq.ops) {
				return c06cFail("incomplete", map[string]any{}, hist())
			}

			// (1) position oracle on the observations alone
			for _, a := range evs {
				if a.op.kind != "L" {
					continue
				}

				for _, b := range evs {
					if b.op.kind != "L" || !(a.ret < b.call) || a.cap == b.cap || a.cap.zero {
						continue
					}

					forced := false

					for _, f := range evs {
						if f.op.kind == "F" && f.call < b.ret && f.ret > a.call {
							forced = true
						}
					}

					if forced {
						continue
					}

					if b.cap.zero {
						return c06cFail("reader-cap-lost", map[string]any{},
							fmt.Sprintf("Last().Cap() was %s and later nothing: %s | scenario %s", a.cap, hist(), s.id()))
					}

					if !reach[a.cap.String()+">"+b.cap.String()] {
						_, class := c06May(a.cap, b.cap)

						return c06cFail("reader-cap-backwards", map[string]any{"class": class, "same_reader": a.thread == b.thread},
							fmt.Sprintf("Last().Cap() returned %s (T%d, returned at %d) and afterwards %s (T%d, called at %d): not reachable through moves the statement allows (direct edge: %s): %s | scenario %s",
								a.cap, a.thread, a.ret, b.cap, b.thread, b.call, class, hist(), s.id()))
					}
				}
			}

			if c06cOnlyPositionOracle {
				return nil
			}

			// (2) linearizability against the sequential behaviour
			all := func(c06cEvent) bool { return true }

			order := seq.linearize(evs, all, fin)
			if order == nil {
				cause := "reader-observation"
				mut := func(e c06cEvent) bool { return e.op.mutator() }

				switch {
				case seq.linearize(evs, all, "") != nil:
					cause = "state-at-quiescence"
				case seq.linearize(evs, mut, "") == nil:
					cause = "mutator-results"
				case seq.linearize(evs, mut, fin) == nil:
					cause = "mutator-results-and-state-at-quiescence"
				}

				var kinds []string

				seenk := map[string]bool{}
				for _, e := range evs {
					if e.op.mutator() && !seenk[e.op.kind] {
						seenk[e.op.kind] = true
						kinds = append(kinds, map[string]string{"S": "Set", "F": "ForceSetLast"}[e.op.kind])
					}
				}

				sort.Strings(kinds)

				return c06cFail("not-linearizable", map[string]any{"cause": cause, "mutators": strings.Join(kinds, "+")},
					fmt.Sprintf("no sequential order of the calls on a fresh handler gives these results (%s): %s state at quiescence %s | scenario %s",
						cause, hist(), fin, s.id()))
			}

			// (3) the sequential oracle on the Set steps of the witness order
			for k := range order {
				o := seq.ops[order[k]]
				if o.kind != "S" {
					continue
				}

				n := seq.node(order[:k+1])
				moved := n.capAfter != n.capBefore
				allowed, class := c06May(n.capBefore, n.capAfter)
				_, evclass := c06May(n.capBefore, o.pos)

				var names []string
				for _, i := range order[:k+1] {
					names = append(names, seq.ops[i].String())
				}

				where := fmt.Sprintf("witness order %s of scenario %s", strings.Join(names, "/"), s.id())

				switch {
				case moved && !allowed:
					return c06cFail("cap-disallowed-move", map[string]any{"class": class, "cap_is_event": n.capAfter == o.pos, "event_class": evclass, "isnew": n.isnew},
						fmt.Sprintf("%s: Set(%s) returned %s (IsNew=%v) and Last().Cap() moved %s -> %s, which the statement does not allow (%s); before: ivp=%s avp=%s mvp=%s, after: ivp=%s avp=%s mvp=%s",
							where, o.pos, n.res, n.isnew, n.capBefore, n.capAfter, class, n.ivp[0], n.avp[0], n.mvp[0], n.ivp[1], n.avp[1], n.mvp[1]))
				case moved && !n.isnew:
					return c06cFail("cap-moved-by-rejected-voteproof", map[string]any{"event_class": evclass},
						fmt.Sprintf("%s: IsNew(%s)=false but Last().Cap() moved %s -> %s", where, o.pos, n.capBefore, n.capAfter))
				case n.isnew && n.res != "true":
					return c06cFail("new-voteproof-not-set", map[string]any{"event_class": evclass},
						fmt.Sprintf("%s: IsNew(%s)=true but Set returned false (cap %s)", where, o.pos, n.capBefore))
				case !n.capBefore.zero && n.capAfter.zero:
					return c06cFail("cap-lost", map[string]any{}, where+": Cap() became nil")
				}
			}

			return nil
		},
	}
}

func c06cScenarios() []c06cScenario {
	P := func(h int64, r uint64, k string) c06Pos {
		p := c06Pos{h: h, r: r}

		switch k {
		case "I--":
		case "Im-":
			p.maj = true
		case "Ims":
			p.maj, p.sc = true, true
		case "A--":
			p.accept = true
		case "Am-":
			p.accept, p.maj = true, true
		default:
			panic(k)
		}

		return p
	}

	S := func(p c06Pos) c06cOp { return c06cOp{"S", p} }
	F := func(p c06Pos) c06cOp { return c06cOp{"F", p} }
	N := func(p c06Pos) c06cOp { return c06cOp{"N", p} }
	V := func(p c06Pos) c06cOp { return c06cOp{"V", p} }
	L := c06cOp{kind: "L"}

	type T = [][]c06cOp

	h1I, h1A := P(1, 0, "Im-"), P(1, 0, "Am-")
	i20, i20d, i20sc, a20, a20d := P(2, 0, "Im-"), P(2, 0, "I--"), P(2, 0, "Ims"), P(2, 0, "Am-"), P(2, 0, "A--")
	i21, i21d := P(2, 1, "Im-"), P(2, 1, "I--")
	i30 := P(3, 0, "Im-")

	basic := []c06cScenario{
		// a voteproof of the next height and one of the height after it arrive together
		{"two-heights", []c06Pos{h1I, h1A}, T{{S(i20)}, {S(i30)}, {L, L}}},
		// the same voteproof arrives twice (ballotbox and sync): taken once
		{"equal-voteproof-twice", []c06Pos{h1I, h1A}, T{{S(i20), L}, {S(i20), L}, {N(i20), L}}},
		// draw and majority result of one stage point: the majority may replace the draw, not the reverse
		{"draw-vs-majority-same-point", []c06Pos{h1I, h1A}, T{{S(i20d)}, {S(i20)}, {L, N(i20), L}}},
		// INIT and ACCEPT of one point set by different threads
		{"init-vs-accept-same-point", []c06Pos{h1I, h1A}, T{{S(i20)}, {S(a20)}, {L, L}}},
		// the normal pipeline of one node against a next-round result from another source
		{"pipeline-vs-next-round", []c06Pos{h1I, h1A}, T{{S(i20), S(a20d)}, {S(i21d)}, {L, L}}},
		// three setters: two rounds of one height and the next height
		{"three-setters", []c06Pos{h1A}, T{{S(i20)}, {S(i21)}, {S(i30)}, {L, L}}},
		// a late ACCEPT voteproof of the previous height is filled in, not taken as position
		{"late-accept-of-previous-height", nil, T{{S(i30)}, {S(a20)}, {L, V(i30), L}}},
		// a lower-height voteproof never becomes the position
		{"lower-height-late", []c06Pos{h1A, i20}, T{{S(a20)}, {S(h1I)}, {N(h1A), L, L}}},
		// a late suffrage-confirm of an earlier round against the draw of the next round (no ACCEPT stored at that height)
		{"late-confirm-vs-next-round", []c06Pos{h1I, h1A}, T{{S(i21d)}, {S(i20sc)}, {L, N(i21d), L}}},
		// ForceSetLast (drops the ACCEPT voteproof at or above its point) against a Set
		{"force-vs-set", []c06Pos{i20, a20}, T{{F(i20)}, {S(i21d)}, {L, L}}},
		// a late INIT voteproof of the ACCEPT position is filled in while the next height arrives
		{"late-init-fill-vs-next-height", []c06Pos{a20}, T{{S(i20)}, {S(i30)}, {L, V(a20), V(i30)}}},
		// two readers of two setters
		{"two-readers", []c06Pos{h1I, h1A}, T{{S(i20), S(a20)}, {S(i30)}, {L, L}, {L, L}}},
	}

	return basic
}

func c06cScenariosAll(thorough bool) []c06cScenario {
	scs := c06cScenarios()

	P := func(h int64, r uint64, accept, maj, sc bool) c06Pos {
		return c06Pos{h: h, r: r, accept: accept, maj: maj, sc: sc}
	}
	S := func(p c06Pos) c06cOp { return c06cOp{"S", p} }
	F := func(p c06Pos) c06cOp { return c06cOp{"F", p} }
	N := func(p c06Pos) c06cOp { return c06cOp{"N", p} }
	L := c06cOp{kind: "L"}

	type T = [][]c06cOp

	h1A := P(1, 0, true, true, false)
	i20, a20 := P(2, 0, false, true, false), P(2, 0, true, true, false)
	i20d, a20d := P(2, 0, false, false, false), P(2, 0, true, false, false)
	i21, i21d := P(2, 1, false, true, false), P(2, 1, false, false, false)
	i30, a30 := P(3, 0, false, true, false), P(3, 0, true, true, false)
	i21sc := P(2, 1, false, true, true)

	// thorough only: more threads / calls
	big := []c06cScenario{
		{"four-setters", []c06Pos{h1A}, T{{S(i20)}, {S(i21)}, {S(i30)}, {S(a20)}, {L, L}}},
		{"two-pipelines-two-readers", []c06Pos{h1A}, T{{S(i20), S(a20)}, {S(i30), S(a30)}, {L, L}, {L, N(i30)}}},
		{"force-vs-pipeline", []c06Pos{i20, a20}, T{{F(i20), S(a20)}, {S(i21d), S(i30)}, {L, L}}},
	}

	if !thorough {
		big = nil
	}

	return append(append(scs,
		c06cScenario{"two-pipelines", []c06Pos{h1A}, T{{S(i20), S(a20)}, {S(i30), S(a30)}, {L, L}}},
		c06cScenario{"three-setters-two-ops", []c06Pos{h1A}, T{{S(i20d), S(i21)}, {S(i20), S(a20)}, {S(i30)}, {L, L}}},
		c06cScenario{"draw-accept-vs-rounds", []c06Pos{h1A, i20}, T{{S(a20d), S(i21d)}, {S(i21)}, {L, N(i21), L}}},
		c06cScenario{"confirm-after-init-same-point", []c06Pos{h1A}, T{{S(i21)}, {S(i21sc)}, {S(i21d)}, {L, L}}},
		c06cScenario{"force-vs-two-setters", []c06Pos{i20, a20}, T{{F(i20)}, {S(i21d)}, {S(i30)}, {L, L}}},
		c06cScenario{"force-accept-vs-set", []c06Pos{i20, i21d}, T{{F(a20)}, {S(i21)}, {L, N(i21), L}}},
	), big...)
}

func TestVerifC06Conc(t *testing.T) {
	r := vlib.Start("C06")
	defer r.Finish()

	r.Rule("concurrent half: scenario = 2-3 threads calling LastVoteproofsHandler.Set (optionally one ForceSetLast) with voteproofs of different/equal positions plus 1-2 reader threads " +
		"calling Last()/IsNew/Voteproofs on a fresh real handler; all interleavings within the preemption bound (scheduling point before every acquisition of the handler lock, one before a Voteproofs() cache read); " +
		"oracle = (1) a Last().Cap() returned after another one had returned is the same or reachable from it through moves the statement allows, (2) linearizability of the call/return history incl. the state at quiescence " +
		"against the same calls run one after another on a fresh handler, (3) the sequential position oracle on the Set steps of the witness order; states = distinct (scenario, outcome); non-trivial = a scenario with more than one outcome")

	bound := vlib.Pick(r, 2, 3)
	if v := os.Getenv("VERIF_C06C_BOUND"); v != "" { // tuning aid only; never set by run.sh
		fmt.Sscanf(v, "%d", &bound)
	}

	r.Set("conc_preemption_bound", bound)

	env := c06NewEnv(r, []int64{1, 2, 3}, []uint64{0, 1})

	scs := c06cScenariosAll(r.Thorough())

	r.Set("conc_scenarios_enumerated", len(scs))

	for i, s := range scs {
		if !r.Mine(i) || r.Expired() {
			continue
		}

		s := s
		id := "conc/" + s.id()

		ops := s.flat()
		if len(ops) > 8 {
			panic("scenario with more than 8 calls: " + id)
		}

		universe := append([]c06Pos{}, s.init...)
		for _, o := range ops {
			if o.kind == "S" || o.kind == "F" {
				universe = append(universe, o.pos)
			}
		}

		reach := c06cReach(universe)
		seq := &c06cSeq{env: env, s: s, ops: ops, memo: map[string]*c06cSeqNode{}}

		build := func() vsched.Scenario { return c06cBuild(env, s, seq, reach) }

		if rid, rp := r.Replaying(); rp {
			k := strings.LastIndex(rid, "#")
			if k < 0 || rid[:k] != id {
				continue
			}

			sc := build()
			x := vsched.Run(vsched.Options{Prefix: vsched.ParseChoices(rid[k+1:])}, sc.Roots...)
			r.Trace()

			if f := sc.Check(x); f != nil {
				r.Violation(rid, f.Sig, f.Detail, nil)
			}

			continue
		}

		res := vsched.Explore(vsched.Config{Name: id, Bound: bound, Build: build, Expired: r.Expired, MaxFound: 2, Horizon: 2000})
		if res.EngineError != "" {
			panic("engine error in " + id + ": " + res.EngineError)
		}

		r.TraceN(res.Executions)
		r.TransitionN(res.Points)
		r.EvalN(res.Executions)
		r.Add("conc_scenarios", 1)
		r.Add("conc_sequential_orders_run", int64(len(seq.memo)))

		if res.Capped != "" {
			r.Cap(res.Capped)
		} else {
			r.Min("conc_preemption_bound_completed", int64(res.BoundCompleted))
		}

		r.Max("conc_max_points_per_execution", int64(res.MaxPoints))

		if len(res.Outcomes) > 1 {
			r.Nontrivial(id)
		}

		for o := range res.Outcomes {
			r.State(id + "=>" + o)
			var bs []string

			for _, x := range strings.Split(strings.SplitN(o, "=>", 2)[0], ";") {
				if x == "true" || x == "false" {
					bs = append(bs, x[:1])
				}
			}

			r.Outcome("conc:" + s.name + ":" + strings.Join(bs, ""))
		}

		for _, f := range res.Found {
			r.Violation(id+"#"+vsched.ChoicesString(f.Choices), f.Fail.Sig, f.Fail.Detail+fmt.Sprintf(" (preemptions=%d)", f.Preempt), nil)
		}

		r.Sample(map[string]any{"scenario": id, "executions": res.Executions, "distinct_outcomes": len(res.Outcomes), "max_points": res.MaxPoints})
	}
}
