//go:build verif

package launch

import (
	"fmt"
	"strings"

	"github.com/spikeekips/mitum/zzverif/vlib"
)

// C35, unit 2, part E (engine Q): updates of an EXISTING user row, all pairs.
//
// Parts A-C only reach an existing row through one-cell neighbours (a changed
// value, a removed cell, a removed row). Both update entry points - ACL.setUser
// and YAMLACL.Import of a second text (loadACLFromYAML) - first ask "is the new
// row the same as the stored one?" (compareACLUserValues) and drop the update if
// so; that shortcut is a function of a PAIR of rows, so here the pair is what is
// enumerated:
//
// E1. for every target (which user's row is updated, which fixed other rows the
//     table holds, where the updated row stands in the text) and every ordered pair
//     (R, R') of rows over the scope names {s, t, unrelated, _default} with up to
//     2 cells over all listed permissions and 3 cells over a smaller permission
//     list (incl. the empty row = no row): fresh real ACL holding the fixed rows +
//     R, then ONE update to R' through setUser / through Import of the whole text.
// E2. sequences of 2 updates R0 -> R1 -> R2 over a smaller row alphabet, each step
//     through setUser or Import (all 4 combinations of entry points; quick: for the
//     first target only).
//
// Oracle after every update (table' = the table the caller asked for): the call
// returns no error; every (user, scope, required) decision of the real ACL equals
// the reference precedence evaluation on table'; the returned "updated" is true
// exactly when table' differs from the table before the call.

type c35uTarget struct {
	name  string
	user  string
	bg    c35xTable // the other rows, never changed
	order []string  // row order of the text
}

func c35uTargets(r *vlib.Run) []c35uTarget {
	tgs := []c35uTarget{
		{
			// the updated row is the user's own; every fall-through to the _default row is visible
			name: "u1", user: c35xU1,
			bg:    c35xTable{defaultACLUser: c35xRow{c35xS: 4, c35xT: aclPermProhibit, defaultACLScope: ReadAllowACLPerm}},
			order: []string{c35xU1, defaultACLUser},
		},
		{
			// the updated row is the _default user's: decides for the users without row and for U1 outside its cell
			name: "def", user: defaultACLUser,
			bg:    c35xTable{c35xU1: c35xRow{c35xS: WriteAllowACLPerm}},
			order: []string{c35xU1, defaultACLUser},
		},
	}

	if r.Thorough() {
		tgs = append(tgs, c35uTarget{
			// three rows, the updated one in the middle of the text
			name: "u2mid", user: c35xU2,
			bg: c35xTable{
				c35xU1:         c35xRow{c35xS: aclPermProhibit, defaultACLScope: WriteAllowACLPerm},
				defaultACLUser: c35xRow{c35xT: ReadAllowACLPerm, defaultACLScope: aclPermProhibit},
			},
			order: []string{c35xU1, c35xU2, defaultACLUser},
		})
	}

	return tgs
}

// c35uRows: the empty row, then every row of exactly k cells (k = 1..len(permsByCells))
// with scope names from scopes and values from permsByCells[k-1], in a fixed order.
func c35uRows(scopes []ACLScope, permsByCells [][]ACLPerm) []c35xRow {
	rows := []c35xRow{{}}

	var rec func(k, from int, perms []ACLPerm, cur c35xRow)

	rec = func(k, from int, perms []ACLPerm, cur c35xRow) {
		if k == 0 {
			row := c35xRow{}
			for s, p := range cur {
				row[s] = p
			}

			rows = append(rows, row)

			return
		}

		for i := from; i < len(scopes); i++ {
			for _, p := range perms {
				cur[scopes[i]] = p
				rec(k-1, i+1, perms, cur)
				delete(cur, scopes[i])
			}
		}
	}

	for k := 1; k <= len(permsByCells); k++ {
		rec(k, 0, permsByCells[k-1], c35xRow{})
	}

	return rows
}

func c35uRowID(row c35xRow) string {
	if len(row) < 1 {
		return "-"
	}

	return c35xRowString(row)
}

func c35uCloneRow(row c35xRow) c35xRow {
	c := c35xRow{}
	for s, p := range row {
		c[s] = p
	}

	return c
}

// c35uChange classifies what the caller asks for, old row -> new row.
func c35uChange(a, b c35xRow) string {
	switch {
	case len(a) != len(b):
		switch {
		case len(a) < 1:
			return "row-added"
		case len(b) < 1:
			return "row-removed"
		}

		return "cells-added-or-removed"
	case len(a) < 1:
		return "none"
	}

	names, values := false, false

	for s, p := range a {
		switch q, found := b[s]; {
		case !found:
			names = true
		case p != q:
			values = true
		}
	}

	switch {
	case names && values:
		return "scope-names-swapped-and-values-changed"
	case names:
		return "scope-names-swapped-kept-names-keep-values"
	case values:
		return "values-changed-same-names"
	}

	return "none"
}

type c35uStats struct {
	cases, updates, swapped int64
}

func c35uUpdates(r *vlib.Run, mine func() bool, qs []c35xQuery) {
	scopes := []ACLScope{c35xS, c35xT, c35xR, defaultACLScope}

	all := vlib.Pick(r,
		[]ACLPerm{aclPermProhibit, ReadAllowACLPerm, WriteAllowACLPerm, aclPermSuper},
		[]ACLPerm{aclPermProhibit, ReadAllowACLPerm, WriteAllowACLPerm, 4, 5, 78, aclPermSuper})
	three := vlib.Pick(r,
		[]ACLPerm{aclPermProhibit, WriteAllowACLPerm},
		[]ACLPerm{aclPermProhibit, ReadAllowACLPerm, WriteAllowACLPerm})

	rows := c35uRows(scopes, [][]ACLPerm{all, all, three})

	seqPerms := vlib.Pick(r, []ACLPerm{aclPermProhibit, WriteAllowACLPerm}, []ACLPerm{aclPermProhibit, ReadAllowACLPerm, WriteAllowACLPerm})
	seqRows := c35uRows([]ACLScope{c35xS, c35xT, defaultACLScope}, [][]ACLPerm{seqPerms, seqPerms})

	targets := c35uTargets(r)

	r.Set("update_rows_enumerated", len(rows))
	r.Set("update_pairs_per_target_and_entry_point", len(rows)*len(rows))
	r.Set("update_sequence_rows_enumerated", len(seqRows))
	r.Set("update_targets", len(targets))

	var st c35uStats

	defer func() {
		r.Add("update_cases", st.cases)
		r.Add("update_calls_judged", st.updates)
		r.Add("update_calls_swapping_scope_names_at_equal_size", st.swapped)
	}()

	// E1: all pairs, one update
	for _, tg := range targets {
		for _, entry := range []string{"set", "imp"} {
			for _, r0 := range rows {
				if !mine() {
					continue
				}

				if r.Expired() || r.Violations() > 100 {
					return
				}

				for _, r1 := range rows {
					c35uRun(r, &st, tg, []string{entry}, []c35xRow{r0, r1}, qs)
				}
			}
		}
	}

	// E2: two updates in sequence, every combination of entry points (quick: first target only)
	for _, tg := range targets[:vlib.Pick(r, 1, len(targets))] {
		for _, entries := range [][]string{{"set", "set"}, {"imp", "imp"}, {"set", "imp"}, {"imp", "set"}} {
			for _, r0 := range seqRows {
				if !mine() {
					continue
				}

				if r.Expired() || r.Violations() > 100 {
					return
				}

				for _, r1 := range seqRows {
					for _, r2 := range seqRows {
						c35uRun(r, &st, tg, entries, []c35xRow{r0, r1, r2}, qs)
					}
				}
			}
		}
	}
}

// c35uRun: fresh real ACL holding tg.bg + rows[0] for tg.user (built the way the
// first update will be made), then update k (entries[k]) asks for rows[k+1].
func c35uRun(r *vlib.Run, st *c35uStats, tg c35uTarget, entries []string, rows []c35xRow, qs []c35xQuery) {
	ids := make([]string, len(rows))
	for i := range rows {
		ids[i] = c35uRowID(rows[i])
	}

	id := fmt.Sprintf("upd/%s/%s/%s", tg.name, strings.Join(entries, "."), strings.Join(ids, "/"))
	if !r.Want(id) {
		return
	}

	table := func(row c35xRow) c35xTable {
		tb := tg.bg.clone()
		if len(row) > 0 {
			tb[tg.user] = c35uCloneRow(row)
		}

		return tb
	}

	y := NewYAMLACL(c35xNewACL())
	model := table(rows[0])

	var texts []string

	switch entries[0] {
	case "imp":
		text := model.yaml(tg.order)
		texts = append(texts, text)

		if _, err, panicked, pmsg := c35yImport(y, text); err != nil || panicked {
			panic(fmt.Sprintf("%s: first table %s not loaded: %v %s", id, model, err, pmsg)) // parts A, B judge first loads
		}
	default:
		texts = append(texts, "setUser rows: "+model.String())

		if err := model.direct(y.ACL, tg.order); err != nil {
			panic(fmt.Sprintf("%s: first table %s not built: %v", id, model, err))
		}
	}

	st.cases++
	r.StatesN(1)
	r.Trace()

	for k, entry := range entries {
		next := table(rows[k+1])
		change := c35uChange(rows[k], rows[k+1])
		changed := model.String() != next.String()

		var (
			updated  bool
			err      error
			panicked bool
			pmsg     string
		)

		switch entry {
		case "imp":
			text := next.yaml(tg.order)
			texts = append(texts, text)
			updated, err, panicked, pmsg = c35yImport(y, text)
		default:
			texts = append(texts, fmt.Sprintf("setUser(%s, {%s})", c35xName(tg.user), c35xRowString(rows[k+1])))
			panicked, pmsg = vlib.Catch(func() {
				_, updated, err = y.ACL.setUser(tg.user, c35uCloneRow(rows[k+1]))
			})
		}

		st.updates++
		r.Transition()
		r.EvalN(int64(len(qs)) + 1)
		r.Outcome(fmt.Sprintf("update:%s:%s:updated=%v:err=%v", entry, change, updated, err != nil || panicked))

		if strings.HasPrefix(change, "scope-names-swapped") {
			st.swapped++
			r.NontrivialN(1)
		}

		sig := func(kind string) map[string]any {
			return map[string]any{"kind": kind, "entry": entry, "step": k + 1, "change": change, "updated_returned": updated}
		}

		rep := map[string]any{"target": tg.name, "steps": texts}

		if err != nil || panicked {
			r.Violation(id, sig("update-to-valid-table-rejected"),
				fmt.Sprintf("table %s, then update %d (%s) to %s: err=%v panic=%q", model, k+1, entry, next, err, pmsg), rep)

			return
		}

		got := c35xAnswers(y.ACL, qs)

		for i, q := range qs {
			if ok, want, decider, p := c35xJudge(next, q, got[i]); !ok {
				oldok, _, _, _ := c35xJudge(model, q, got[i])

				s := sig("update-wrong-decision")
				s["clause"], s["expected_allow"], s["equals_previous_table"] = decider, want, oldok

				r.Violation(id, s,
					fmt.Sprintf("table %s, then update %d through %s asks for %s (change of the row of %s: %s; returned updated=%v): afterwards %s = %v; "+
						"the requested table decides by clause %d with permission %q -> %v; real table now %s\n%s",
						model, k+1, entry, next, c35xName(tg.user), change, updated, q, got[i], decider, p, want, c35xRealTable(y.ACL), strings.Join(texts, "\n--\n")), rep)

				return
			}
		}

		if updated != changed {
			r.Violation(id, sig("update-flag-wrong"),
				fmt.Sprintf("table %s, then update %d through %s asks for %s (change of the row of %s: %s): returned updated=%v, the table changed=%v; real table now %s",
					model, k+1, entry, next, c35xName(tg.user), change, updated, changed, c35xRealTable(y.ACL)), rep)

			return
		}

		model = next
	}

	if id == "upd/u1/imp/s=3/_default=1" || id == "upd/def/set.imp/s=1/t=1/_default=3,s=1" {
		r.Sample(map[string]any{"case": id, "steps": texts, "table_after": c35xRealTable(y.ACL)})
	}
}
