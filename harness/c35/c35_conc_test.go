//go:build verif

package launch

import (
	"fmt"
	"os"
	"sort"
	"strings"
	"testing"

	"github.com/spikeekips/mitum/util"
	"github.com/spikeekips/mitum/zzverif/vlib"
	"github.com/spikeekips/mitum/zzverif/vsched"
)

// C35, unit 3 (engine S): access decisions while the table is being updated.
//
// One writer thread replaces the table through the real update entry point
// YAMLACL.Import (the only production caller of ACL.setUser; it re-loads the whole
// table under ACL.l) - or, in the "set-*" scenarios, replaces / removes / adds ONE
// row through the row primitive ACL.setUser - while 1-2 reader threads call
// ACL.Allow for the updated user and for another user. launch/acl.go and
// util/lock.go are compiled with the scheduler shims: every ACL.l / LockedMap lock
// acquisition and every atomic counter access is a scheduling point, and every
// interleaving within the preemption bound is executed on a fresh real ACL.
//
// Oracle (statement + the sequential model): the tables T0, T1, .. Tk are the
// table before the writer's j-th update and after it (Import = the text's table,
// a rejected Import = no change, setUser = that row replaced / removed). Every
// Allow answer must be the reference precedence evaluation on ONE of these
// tables, chosen consistently with real time (an Allow that returned before
// update j was called sees a table before j; one called after update j returned
// sees j or later; an Allow called after another one returned does not see an
// older table) - never a combination of rows of two tables. A query whose answer
// is the same in all tables ("other users are unaffected") therefore has exactly
// one acceptable answer. At quiescence the rows of the real ACL equal Tk.
//
// setUser outside ACL.l is not a production path; only single-row updates are
// driven through it (a sequence of row updates of two different rows is atomic
// only under ACL.l, which is what Import provides).

type c35cUpdate struct {
	kind  string // import | import-bad | setuser
	table c35xTable
	order []string
	text  string // import-bad
	user  string // setuser
	row   c35xRow
}

func (u c35cUpdate) String() string {
	switch u.kind {
	case "import":
		return "Import" + u.table.String()
	case "import-bad":
		return "Import(malformed)"
	default:
		return fmt.Sprintf("setUser(%s,{%s})", c35xName(u.user), c35xRowString(u.row))
	}
}

type c35cScenario struct {
	name    string
	layout  string // single | apart | together
	t0      c35xTable
	order0  []string
	updates []c35cUpdate
	readers [][]c35xQuery
}

func (s c35cScenario) id() string {
	var us []string
	for _, u := range s.updates {
		us = append(us, u.String())
	}

	var rs []string

	for _, qs := range s.readers {
		var xs []string
		for _, q := range qs {
			xs = append(xs, q.String())
		}

		rs = append(rs, strings.Join(xs, ","))
	}

	return fmt.Sprintf("%s/%s|T0=%s|W:%s || %s", s.name, s.layout, s.t0, strings.Join(us, ","), strings.Join(rs, " || "))
}

// versions: the sequential model of the writer.
func (s c35cScenario) versions() []c35xTable {
	out := []c35xTable{s.t0.clone()}

	for _, u := range s.updates {
		cur := out[len(out)-1].clone()

		switch u.kind {
		case "import":
			cur = u.table.clone()
		case "import-bad":
		case "setuser":
			if len(u.row) < 1 {
				delete(cur, u.user)
			} else {
				cur[u.user] = c35xTable{u.user: u.row}.clone()[u.user]
			}
		}

		out = append(out, cur)
	}

	return out
}

// c35cNewACL: a real ACL whose LockedMap layout is pinned (NewACL's sharded map
// places keys by a random seed, which would make the number of scheduling points
// of Empty/Traverse differ between runs): "single" = NewACL(1, ..) (one
// SingleLockedMap), "apart" = a ShardedMap with every user in its own shard (what
// the production size 33 nearly always gives), "together" = all users in one shard.
func c35cNewACL(layout string) *ACL {
	if layout == "single" {
		acl, err := NewACL(1, c35xSuper)
		if err != nil {
			panic(err)
		}

		return acl
	}

	size := uint64(4)
	place := func(k interface{}, _ uint64) (uint64, interface{}) {
		switch k.(string) {
		case c35xU1:
			return 0, k
		case c35xU2:
			return 1, k
		case defaultACLUser:
			return 2, k
		}

		return 3, k
	}

	if layout == "together" {
		size = 2
		place = func(k interface{}, _ uint64) (uint64, interface{}) { return 0, k }
	}

	m, err := util.NewShardedMapWithSeed[string, map[ACLScope]ACLPerm](0, size, place, nil)
	if err != nil {
		panic(err)
	}

	return &ACL{m: m, superuser: c35xSuper}
}

type c35cRead struct {
	thread    int
	q         c35xQuery
	call, ret int
	got       bool
}

type c35cWrite struct {
	call, ret int
	res       string
}

func c35cBuild(s c35cScenario) vsched.Scenario {
	yacl := NewYAMLACL(c35cNewACL(s.layout))

	if len(s.t0) > 0 {
		if _, err := yacl.Import([]byte(s.t0.yaml(s.order0)), c35xEnc); err != nil {
			panic(fmt.Sprintf("%s: initial table: %v", s.name, err))
		}
	}

	versions := s.versions()

	var (
		reads  []c35cRead
		writes []c35cWrite
		clock  int
	)

	tick := func() int { clock++; return clock }

	roots := []func(){func() {
		for _, u := range s.updates {
			call := tick()

			var res string

			switch u.kind {
			case "import":
				_, err := yacl.Import([]byte(u.table.yaml(u.order)), c35xEnc)
				res = fmt.Sprintf("err=%v", err != nil)
			case "import-bad":
				_, err := yacl.Import([]byte(u.text), c35xEnc)
				res = fmt.Sprintf("err=%v", err == nil) // an error is the expected result
			default:
				_, _, err := yacl.ACL.setUser(u.user, c35xTable{u.user: u.row}.clone()[u.user])
				res = fmt.Sprintf("err=%v", err != nil)
			}

			writes = append(writes, c35cWrite{call: call, ret: tick(), res: res})
		}
	}}

	for ti, qs := range s.readers {
		ti, qs := ti, qs

		roots = append(roots, func() {
			for _, q := range qs {
				call := tick()
				_, got := yacl.ACL.Allow(q.user, q.scope, q.required)
				reads = append(reads, c35cRead{thread: ti + 1, q: q, call: call, ret: tick(), got: got})
			}
		})
	}

	hist := func() string {
		type ev struct {
			call int
			s    string
		}

		var evs []ev

		for i, w := range writes {
			evs = append(evs, ev{w.call, fmt.Sprintf("T0 %s -> %s [call %d ret %d]", s.updates[i], w.res, w.call, w.ret)})
		}

		for _, e := range reads {
			evs = append(evs, ev{e.call, fmt.Sprintf("T%d %s -> %v [call %d ret %d]", e.thread, e.q, e.got, e.call, e.ret)})
		}

		sort.Slice(evs, func(i, j int) bool { return evs[i].call < evs[j].call })

		xs := make([]string, len(evs))
		for i := range evs {
			xs[i] = evs[i].s
		}

		return strings.Join(xs, "; ")
	}

	var final string

	return vsched.Scenario{
		Roots: roots,
		Outcome: func(*vsched.Exec) string {
			sorted := append([]c35cRead{}, reads...)
			sort.Slice(sorted, func(i, j int) bool {
				if sorted[i].thread != sorted[j].thread {
					return sorted[i].thread < sorted[j].thread
				}

				return sorted[i].call < sorted[j].call
			})

			var xs []string
			for _, e := range sorted {
				xs = append(xs, fmt.Sprintf("%d:%v", e.thread, e.got))
			}

			return strings.Join(xs, ",") + "=>" + final
		},
		Check: func(x *vsched.Exec) *vsched.Fail {
			upd := s.updates[0].kind
			if upd == "import-bad" {
				upd = "import"
			}

			if x.Panic != nil {
				return &vsched.Fail{Sig: map[string]any{"kind": "panic", "half": "concurrent"}, Detail: fmt.Sprintf("%v\n%s", x.Panic, x.PanicStack)}
			}

			if x.Deadlock {
				return &vsched.Fail{Sig: map[string]any{"kind": "deadlock", "half": "concurrent", "update": upd}, Detail: s.id() + ": " + strings.Join(x.Blocked, ";")}
			}

			final = c35xRealTable(yacl.ACL)

			for i, w := range writes {
				if w.res != "err=false" {
					return &vsched.Fail{Sig: map[string]any{"kind": "conc-update-result", "half": "concurrent", "update": s.updates[i].kind},
						Detail: fmt.Sprintf("%s: unexpected result of %s: %s", s.id(), s.updates[i], hist())}
				}
			}

			if len(writes) != len(s.updates) || len(reads) == 0 {
				return &vsched.Fail{Sig: map[string]any{"kind": "conc-incomplete", "half": "concurrent"}, Detail: s.id() + ": " + hist()}
			}

			if want := versions[len(versions)-1].String(); final != want {
				return &vsched.Fail{Sig: map[string]any{"kind": "conc-final-table-differs", "half": "concurrent", "update": upd},
					Detail: fmt.Sprintf("%s: rows of the real ACL at quiescence %s, sequential model %s; history: %s", s.id(), final, want, hist())}
			}

			// per answer: which tables give it?
			fits := make([][]bool, len(reads))

			for i, e := range reads {
				fits[i] = make([]bool, len(versions))
				fitsAny := false

				for v, tb := range versions {
					ok, _, _, _ := c35xJudge(tb, e.q, e.got)
					fits[i][v] = ok
					fitsAny = fitsAny || ok
				}

				if !fitsAny {
					// "other users are unaffected": the reference answer is the same on every table
					first, _, _ := c35xDecide(versions[0], c35xSuper, e.q.user, e.q.scope, e.q.required)
					who := "unaffected-query"

					for _, tb := range versions[1:] {
						if a, _, _ := c35xDecide(tb, c35xSuper, e.q.user, e.q.scope, e.q.required); a != first {
							who = "updated-query"
						}
					}

					return &vsched.Fail{
						Sig: map[string]any{"kind": "conc-decision-of-no-table", "half": "concurrent", "update": upd, "who": who, "got_allow": e.got},
						Detail: fmt.Sprintf("%s = %v (thread %d) is the reference decision on none of the tables %v (before / after the overlapping update); history: %s | scenario %s",
							e.q, e.got, e.thread, versions, hist(), s.id()),
					}
				}
			}

			// a consistent assignment of table versions to the answers
			assign := make([]int, len(reads))

			var rec func(i int) bool

			rec = func(i int) bool {
				if i == len(reads) {
					return true
				}

				e := reads[i]

				for v := range versions {
					if !fits[i][v] {
						continue
					}

					ok := true

					for j, w := range writes { // update j+1 produces version j+1
						if e.ret < w.call && v > j {
							ok = false
						}

						if e.call > w.ret && v < j+1 {
							ok = false
						}
					}

					for k := 0; k < i && ok; k++ {
						if reads[k].ret < e.call && assign[k] > v {
							ok = false
						}

						if e.ret < reads[k].call && v > assign[k] {
							ok = false
						}
					}

					if !ok {
						continue
					}

					assign[i] = v

					if rec(i + 1) {
						return true
					}
				}

				return false
			}

			if !rec(0) {
				return &vsched.Fail{
					Sig: map[string]any{"kind": "conc-decisions-not-linearizable", "half": "concurrent", "update": upd},
					Detail: fmt.Sprintf("every answer is the decision of some table of %v, but no order of the updates and the calls consistent with real time explains all of them; history: %s | scenario %s",
						versions, hist(), s.id()),
				}
			}

			return nil
		},
	}
}

func c35cScenarios(layouts []string) []c35cScenario {
	const (
		x   = aclPermProhibit
		o   = ReadAllowACLPerm
		oo  = WriteAllowACLPerm
		ooo = ACLPerm(4)
	)

	U1, U2, U3, D := c35xU1, c35xU2, c35xU3, defaultACLUser
	s, t, d := c35xS, c35xT, defaultACLScope

	type T = c35xTable
	type R = c35xRow
	type Q = c35xQuery

	imp := func(tb T, order ...string) c35cUpdate { return c35cUpdate{kind: "import", table: tb, order: order} }
	set := func(u string, row R) c35cUpdate { return c35cUpdate{kind: "setuser", user: u, row: row} }
	twice := func(q Q) []Q { return []Q{q, q} }

	badText := T{D: R{d: oo}, U1: R{s: x}}.yaml([]string{D, U1}) + U2 + ":\n  s: ok\n"

	base := []c35cScenario{
		// a user prohibited before and after must never get in (window: rows re-loaded one by one)
		{
			name: "imp-prohibited-stays-out", t0: T{D: R{d: oo}, U1: R{s: x}, U2: R{s: oo}}, order0: []string{D, U1, U2},
			updates: []c35cUpdate{imp(T{D: R{d: oo}, U1: R{s: x, t: o}, U2: R{s: oo}}, D, U1, U2)},
			readers: [][]Q{twice(Q{U1, s, o}), {{U2, s, oo}}},
		},
		// the user's row stops / starts deciding while the default row flips: old row + new default would allow
		{
			name: "imp-fallthrough-both-deny", t0: T{U1: R{t: o}, D: R{s: x}, U2: R{s: oo}}, order0: []string{U1, D, U2},
			updates: []c35cUpdate{imp(T{U1: R{s: x}, D: R{s: oo}, U2: R{s: oo}}, U1, D, U2)},
			readers: [][]Q{twice(Q{U1, s, o}), {{U2, s, oo}}},
		},
		{
			name: "imp-fallthrough-both-allow", t0: T{U1: R{t: o}, D: R{s: oo}}, order0: []string{D, U1},
			updates: []c35cUpdate{imp(T{U1: R{s: oo}, D: R{s: x}}, D, U1)},
			readers: [][]Q{twice(Q{U1, s, oo}), {{U3, s, o}}},
		},
		{
			name: "imp-grant-to-revoke", t0: T{U1: R{s: oo}}, order0: []string{U1},
			updates: []c35cUpdate{imp(T{U1: R{s: x}}, U1)},
			readers: [][]Q{twice(Q{U1, s, o}), {{U1, s, oo}, {U1, t, o}}},
		},
		{
			name: "imp-row-removed", t0: T{U1: R{s: oo}, D: R{d: o}}, order0: []string{U1, D},
			updates: []c35cUpdate{imp(T{D: R{d: o}}, D)},
			readers: [][]Q{{{U1, s, oo}, {U1, s, o}}, {{U2, s, o}}},
		},
		{
			name: "imp-same-table", t0: T{U1: R{s: oo}, D: R{d: x}}, order0: []string{U1, D},
			updates: []c35cUpdate{imp(T{U1: R{s: oo}, D: R{d: x}}, D, U1)},
			readers: [][]Q{twice(Q{U1, s, oo}), {{U2, s, o}}},
		},
		{
			name: "imp-twice", t0: T{U1: R{s: x}, D: R{d: oo}}, order0: []string{U1, D},
			updates: []c35cUpdate{imp(T{U1: R{s: o}, D: R{d: oo}}, U1, D), imp(T{U1: R{s: ooo}, D: R{d: x}}, D, U1)},
			readers: [][]Q{twice(Q{U1, s, oo}), {{U2, s, oo}}},
		},
		{
			name: "imp-rejected", t0: T{D: R{d: oo}, U1: R{s: x}}, order0: []string{D, U1},
			updates: []c35cUpdate{{kind: "import-bad", text: badText}},
			readers: [][]Q{{{U1, s, o}}, {{U2, s, oo}}},
		},

		// one row through the row primitive
		{
			name: "set-replace", t0: T{U1: R{s: oo}, D: R{s: x}}, order0: []string{U1, D},
			updates: []c35cUpdate{set(U1, R{s: x})},
			readers: [][]Q{twice(Q{U1, s, o}), {{U2, s, o}}},
		},
		{
			name: "set-remove", t0: T{U1: R{s: oo}, D: R{d: o}}, order0: []string{U1, D},
			updates: []c35cUpdate{set(U1, R{})},
			readers: [][]Q{twice(Q{U1, s, oo}), {{U2, s, o}}},
		},
		{
			name: "set-add", t0: T{D: R{s: oo}}, order0: []string{D},
			updates: []c35cUpdate{set(U1, R{s: x})},
			readers: [][]Q{twice(Q{U1, s, o}), {{U2, s, o}}},
		},
		{
			name: "set-default-row", t0: T{D: R{s: oo}, U1: R{t: o}, U2: R{s: oo}}, order0: []string{D, U1, U2},
			updates: []c35cUpdate{set(D, R{s: x})},
			readers: [][]Q{twice(Q{U1, s, o}), {{U2, s, oo}}},
		},
		{
			name: "set-twice", t0: T{U1: R{s: oo}, D: R{s: o}}, order0: []string{U1, D},
			updates: []c35cUpdate{set(U1, R{s: x}), set(U1, R{})},
			readers: [][]Q{twice(Q{U1, s, o}), {{U1, s, oo}}},
		},
	}

	var out []c35cScenario

	for _, sc := range base {
		for _, l := range layouts {
			c := sc
			c.layout = l
			out = append(out, c)
		}
	}

	return out
}

func TestVerifC35Conc(t *testing.T) {
	r := vlib.Start("C35")
	defer r.Finish()

	c35xInit()

	r.Rule("concurrent unit: scenario = one writer (1-2 x YAMLACL.Import of a whole table, or ACL.setUser of one row) and 1-2 reader threads (1-2 x ACL.Allow for the updated user / another user) " +
		"on a fresh real ACL with a pinned LockedMap layout; all interleavings within the preemption bound (scheduling point before every lock acquisition and atomic access of acl.go and util/lock.go); " +
		"oracle = every answer is the reference decision on the table before or after the overlapping update, consistently with real time, and the final rows equal the sequential model; " +
		"states = distinct (scenario, outcome); non-trivial = a scenario with more than one outcome")

	bound := vlib.Pick(r, 2, 3)
	if v := os.Getenv("VERIF_C35C_BOUND"); v != "" { // tuning aid only; never set by run.sh
		fmt.Sscanf(v, "%d", &bound)
	}

	r.Set("conc_preemption_bound", bound)

	scs := c35cScenarios(vlib.Pick(r, []string{"apart", "single"}, []string{"apart", "single", "together"}))
	r.Set("conc_scenarios_enumerated", len(scs))

	for i, s := range scs {
		if !r.Mine(i) || r.Expired() {
			continue
		}

		s := s
		id := "conc/" + s.id()

		n := 0
		for _, th := range s.readers {
			n += len(th)
		}

		if n > 4 || len(s.updates) > 2 {
			panic("scenario too large for the brute-force oracle: " + id)
		}

		build := func() vsched.Scenario { return c35cBuild(s) }

		if rid, rp := r.Replaying(); rp {
			k := strings.LastIndex(rid, "#")
			if k < 0 || rid[:k] != id {
				continue
			}

			sc := build()
			x := vsched.Run(vsched.Options{Prefix: vsched.ParseChoices(rid[k+1:])}, sc.Roots...)
			r.Trace()

			if f := sc.Check(x); f != nil {
				r.Violation(rid, f.Sig, f.Detail, nil)
			}

			continue
		}

		res := vsched.Explore(vsched.Config{Name: id, Bound: bound, Build: build, Expired: r.Expired, MaxFound: 2, Horizon: 5000, DeadlockIsFailure: true})
		if res.EngineError != "" {
			panic("engine error in " + id + ": " + res.EngineError)
		}

		r.TraceN(res.Executions)
		r.TransitionN(res.Points)
		r.EvalN(res.Executions)
		r.Add("conc_scenarios", 1)
		r.Add("conc_executions", res.Executions)

		if res.Capped != "" {
			r.Cap(res.Capped)
		} else {
			r.Min("conc_preemption_bound_completed", int64(res.BoundCompleted))
		}

		r.Max("conc_max_points_per_execution", int64(res.MaxPoints))

		if len(res.Outcomes) > 1 {
			r.Nontrivial(id)
		}

		for o := range res.Outcomes {
			r.State(id + "=>" + o)
			r.Outcome("conc:" + s.name + ":" + strings.SplitN(o, "=>", 2)[0])
		}

		for _, f := range res.Found {
			r.Violation(id+"#"+vsched.ChoicesString(f.Choices), f.Fail.Sig, f.Fail.Detail+fmt.Sprintf(" (preemptions=%d)", f.Preempt), nil)
		}

		if s.layout == "apart" && (s.name == "imp-fallthrough-both-deny" || s.name == "set-replace") {
			r.Sample(map[string]any{"scenario": id, "executions": res.Executions, "distinct_outcomes": len(res.Outcomes), "max_points": res.MaxPoints})
		}
	}
}
