//go:build verif

package launch

import (
	"fmt"
	"strings"
	"testing"

	"github.com/spikeekips/mitum/zzverif/vlib"
)

// C35, unit 2 (engine Q): the YAML import path and tables with two user rows.
//
// A. every table of the first unit's enumeration (4 cells x unrelated-scope flags,
//    one user row + the _default row) is written as YAML by hand, in both row
//    orders, and loaded through the real entry point YAMLACL.Import
//    (parseACLYAML + loadACLFromYAML) into a fresh ACL; a second fresh ACL is built
//    directly through ACL.setUser. Every query (5 users x 4 scopes x the required
//    levels) must get the same decision from both, and that decision must be the
//    reference precedence evaluation.
// B. the same for every table of two user rows plus the _default row (6 cells),
//    row order rotating over the 6 permutations.
// C. update path: Import(T) followed by Import(T') on the same ACL for every
//    one-user table T and every T' that differs from T in one cell (or only in the
//    row order): the decisions afterwards are those of T' alone.
// D. malformed texts (unknown permission word / wrong YAML type / overflowing
//    permission, duplicate user, duplicate scope, empty maps, superuser row,
//    non-map documents, invalid user names, empty scope, syntax errors) imported
//    over four previous tables P. Oracle: an Import that returns an error (or
//    panics) must leave every decision as the reference gives it on P; an Import
//    that returns no error must give the decisions of one of the tables the text
//    can denote (listed per shape; none for texts without meaning). Nothing is
//    demanded about the error text, the "updated" flag or Export.
// E. (c35_update_test.go) update of an existing row through setUser and through a
//    second Import: all ordered pairs of rows and sequences of 2 updates.

type c35yCounts struct {
	clause [6]int64
	proh   int64
}

func TestVerifC35YAML(t *testing.T) {
	r := vlib.Start("C35")
	defer r.Finish()

	c35xInit()

	perms := vlib.Pick(r,
		[]ACLPerm{0, aclPermProhibit, ReadAllowACLPerm, WriteAllowACLPerm, 4, aclPermSuper},
		[]ACLPerm{0, aclPermProhibit, ReadAllowACLPerm, WriteAllowACLPerm, 4, 5, 78, aclPermSuper})
	requireds := vlib.Pick(r,
		[]ACLPerm{aclPermProhibit, ReadAllowACLPerm, WriteAllowACLPerm, 4, aclPermSuper},
		[]ACLPerm{aclPermProhibit, ReadAllowACLPerm, WriteAllowACLPerm, 4, 5, 78, aclPermSuper})

	qs := c35xQueries(requireds)

	r.Rule("YAML unit: (A) the first unit's tables and (B) all tables of two user rows + the _default row (6 cells from the listed permissions) are written as YAML text by hand, " +
		"loaded with the real YAMLACL.Import into a fresh ACL and built with ACL.setUser into another; every query of 5 users (both users, a user without row, the superuser, _default) x " +
		"4 scopes (s, t, unrelated, _default) x the required levels must be decided identically and as the precedence rule says; (C) re-import of every one-cell neighbour; " +
		"(D) malformed texts over 4 previous tables: rejected => decisions unchanged, accepted => decisions of a table the text denotes; " +
		"(E) update of an existing row through ACL.setUser and through a second YAMLACL.Import: every ordered pair (R, R') of rows of 0-3 cells over {s, t, unrelated, _default} for 2-3 targets " +
		"(whose row, which fixed other rows) and sequences of 2 updates over a smaller row alphabet with every combination of entry points: after every update the decisions are those of the " +
		"requested table and 'updated' is returned exactly when the table changed. Non-trivial = a table in which a query is " +
		"decided by clause 2-4 or by a prohibit, a malformed text, or an update that swaps scope names at equal row size")
	r.Set("yaml_cell_values", perms)
	r.Set("yaml_required_levels", requireds)
	r.Set("yaml_queries_per_table", len(qs))

	var cnt c35yCounts

	defer func() {
		for i, n := range cnt.clause {
			r.Add(fmt.Sprintf("yaml_queries_decided_by_%s", [...]string{"nothing", "clause1", "clause2", "clause3", "clause4", "superuser"}[i]), n)
		}

		r.Add("yaml_queries_decided_by_prohibit", cnt.proh)
	}()

	item := 0
	mine := func() bool {
		item++

		return r.Mine(item)
	}

	orders2 := [][]string{{defaultACLUser, c35xU1}, {c35xU1, defaultACLUser}}
	orders3 := [][]string{
		{defaultACLUser, c35xU1, c35xU2}, {c35xU1, c35xU2, defaultACLUser}, {c35xU2, defaultACLUser, c35xU1},
		{defaultACLUser, c35xU2, c35xU1}, {c35xU1, defaultACLUser, c35xU2}, {c35xU2, c35xU1, defaultACLUser},
	}

	// A: one user row + _default
	for _, c0 := range perms {
		for _, c1 := range perms {
			for _, c2 := range perms {
				for _, c3 := range perms {
					for reg := 0; reg < 4; reg++ {
						if !mine() {
							continue
						}

						if r.Expired() || r.Violations() > 100 {
							return
						}

						tb := c35yTable1(c0, c1, c2, c3, reg)

						for oi, order := range orders2 {
							c35yLoadAndCompare(r, &cnt, fmt.Sprintf("yaml/1u/%d.%d.%d.%d/reg=%d/order=%d", c0, c1, c2, c3, reg, oi), "1u", tb, order, qs)
						}
					}
				}
			}
		}
	}

	// B: two user rows + _default
	n2 := 0

	for _, c0 := range perms {
		for _, c1 := range perms {
			for _, c2 := range perms {
				for _, c3 := range perms {
					if !mine() {
						n2 += len(perms) * len(perms)

						continue
					}

					if r.Expired() || r.Violations() > 100 {
						return
					}

					for _, c4 := range perms {
						for _, c5 := range perms {
							n2++

							tb := c35xTable{
								c35xU1:         c35yRow(c35xS, c0, defaultACLScope, c1),
								c35xU2:         c35yRow(c35xS, c2, defaultACLScope, c3),
								defaultACLUser: c35yRow(c35xS, c4, defaultACLScope, c5),
							}

							oi := n2 % len(orders3)

							c35yLoadAndCompare(r, &cnt, fmt.Sprintf("yaml/2u/%d.%d.%d.%d.%d.%d/order=%d", c0, c1, c2, c3, c4, c5, oi), "2u", tb, orders3[oi], qs)
						}
					}
				}
			}
		}
	}

	// C: update path
	for _, c0 := range perms {
		for _, c1 := range perms {
			if !mine() {
				continue
			}

			if r.Expired() || r.Violations() > 100 {
				return
			}

			for _, c2 := range perms {
				for _, c3 := range perms {
					c35yReimport(r, [4]ACLPerm{c0, c1, c2, c3}, perms, orders2, qs)
				}
			}
		}
	}

	// D: malformed texts
	if mine() {
		c35yMalformed(r, qs)
	}

	// E: updates of an existing row, all pairs of rows and sequences of 2 updates (c35_update_test.go)
	c35uUpdates(r, mine, qs)
}

func c35yRow(kv ...any) c35xRow {
	row := c35xRow{}

	for i := 0; i+1 < len(kv); i += 2 {
		if p := kv[i+1].(ACLPerm); p != 0 {
			row[kv[i].(ACLScope)] = p
		}
	}

	return row
}

func c35yTable1(c0, c1, c2, c3 ACLPerm, reg int) c35xTable {
	tb := c35xTable{
		c35xU1:         c35yRow(c35xS, c0, defaultACLScope, c1),
		defaultACLUser: c35yRow(c35xS, c2, defaultACLScope, c3),
	}

	if reg&1 != 0 {
		tb[c35xU1][c35xR] = ReadAllowACLPerm
	}

	if reg&2 != 0 {
		tb[defaultACLUser][c35xR] = WriteAllowACLPerm
	}

	return tb
}

func c35yImport(acl *YAMLACL, text string) (updated bool, err error, panicked bool, pmsg string) {
	panicked, pmsg = vlib.Catch(func() {
		updated, err = acl.Import([]byte(text), c35xEnc)
	})

	return updated, err, panicked, pmsg
}

// c35yLoadAndCompare: text -> Import -> decisions, against setUser -> decisions and the reference.
func c35yLoadAndCompare(r *vlib.Run, cnt *c35yCounts, id, family string, tb c35xTable, order []string, qs []c35xQuery) {
	if !r.Want(id) {
		return
	}

	text := tb.yaml(order)

	direct := c35xNewACL()
	if err := tb.direct(direct, order); err != nil {
		panic(fmt.Sprintf("%s: setUser: %v", id, err))
	}

	loaded := NewYAMLACL(c35xNewACL())
	updated, err, panicked, pmsg := c35yImport(loaded, text)

	r.StatesN(1)
	r.Trace()
	r.EvalN(int64(len(qs)))
	r.Outcome(fmt.Sprintf("yaml:%s:loaded:updated=%v:err=%v", family, updated, err != nil || panicked))

	rep := map[string]any{"text": text}

	if err != nil || panicked {
		r.Violation(id, map[string]any{"kind": "yaml-valid-table-rejected", "tables": family, "panicked": panicked},
			fmt.Sprintf("table %s written as\n%s\nis not loaded: err=%v panic=%q", tb, text, err, pmsg), rep)

		return
	}

	gd, gl := c35xAnswers(direct, qs), c35xAnswers(loaded.ACL, qs)
	nontrivial := false

	for i, q := range qs {
		okd, want, decider, p := c35xJudge(tb, q, gd[i])

		cnt.clause[decider]++

		if p == aclPermProhibit {
			cnt.proh++
		}

		if decider >= 2 && decider <= 4 || p == aclPermProhibit {
			nontrivial = true
		}

		switch {
		case gl[i] != gd[i]:
			r.Violation(id, map[string]any{"kind": "yaml-loaded-differs-from-direct", "tables": family, "loaded_allows": gl[i], "clause": decider},
				fmt.Sprintf("table %s: %s = %v on the ACL loaded from the text, %v on the ACL built with setUser (reference: clause %d, permission %q -> %v); real loaded table %s; text:\n%s",
					tb, q, gl[i], gd[i], decider, p, want, c35xRealTable(loaded.ACL), text), rep)

			return
		case !okd:
			kind := "wrong-decision"
			if p == aclPermProhibit && gd[i] {
				kind = "prohibit-allowed"
			}

			if decider == 5 {
				kind = "superuser-denied"
			}

			r.Violation(id, map[string]any{"kind": kind, "clause": decider, "expected_allow": want, "tables": family, "built_by": "setUser+yaml"},
				fmt.Sprintf("table %s: %s = %v; the precedence rule decides by clause %d with permission %q -> %v", tb, q, gd[i], decider, p, want), rep)

			return
		}
	}

	if nontrivial {
		r.NontrivialN(1)
	}

	if id == "yaml/2u/1.3.0.2.4.1/order=0" || id == "yaml/1u/0.3.1.4/reg=0/order=0" {
		r.Sample(map[string]any{"case": id, "text": text, "table": tb.String(), "loaded_table": c35xRealTable(loaded.ACL)})
	}
}

// c35yReimport: Import(T) then Import(T') for every one-cell neighbour T' of T (and T in the other row order).
func c35yReimport(r *vlib.Run, cells [4]ACLPerm, perms []ACLPerm, orders [][]string, qs []c35xQuery) {
	t0 := c35yTable1(cells[0], cells[1], cells[2], cells[3], 0)

	try := func(id string, t1 c35xTable, order1 []string) {
		if !r.Want(id) {
			return
		}

		acl := NewYAMLACL(c35xNewACL())

		if _, err, panicked, _ := c35yImport(acl, t0.yaml(orders[0])); err != nil || panicked {
			return // reported by part A
		}

		text := t1.yaml(order1)
		updated, err, panicked, pmsg := c35yImport(acl, text)

		r.StatesN(1)
		r.Trace()
		r.EvalN(int64(len(qs)))
		r.Outcome(fmt.Sprintf("yaml:reimport:updated=%v:err=%v", updated, err != nil || panicked))

		rep := map[string]any{"first": t0.yaml(orders[0]), "second": text}

		if err != nil || panicked {
			r.Violation(id, map[string]any{"kind": "yaml-valid-table-rejected", "tables": "reimport", "panicked": panicked},
				fmt.Sprintf("after %s, table %s written as\n%s\nis not loaded: err=%v panic=%q", t0, t1, text, err, pmsg), rep)

			return
		}

		got := c35xAnswers(acl.ACL, qs)

		for i, q := range qs {
			if ok, want, decider, p := c35xJudge(t1, q, got[i]); !ok {
				_, old, _, _ := c35xJudge(t0, q, got[i])

				r.Violation(id, map[string]any{"kind": "yaml-reimport-wrong-decision", "clause": decider, "expected_allow": want, "equals_previous_table": got[i] == old},
					fmt.Sprintf("Import(%s) then Import(%s) (updated=%v): %s = %v; the second table decides by clause %d with permission %q -> %v; real table %s",
						t0, t1, updated, q, got[i], decider, p, want, c35xRealTable(acl.ACL)), rep)

				return
			}
		}

		r.NontrivialN(1)
	}

	base := fmt.Sprintf("yaml/re/%d.%d.%d.%d", cells[0], cells[1], cells[2], cells[3])

	try(base+"/same-other-order", t0, orders[1])

	for ci := 0; ci < 4; ci++ {
		for _, v := range perms {
			if v == cells[ci] {
				continue
			}

			c := cells
			c[ci] = v

			try(fmt.Sprintf("%s/cell%d=%d", base, ci, v), c35yTable1(c[0], c[1], c[2], c[3], 0), orders[(ci+int(v))%2])
		}
	}
}

// ---- D: malformed texts

type c35yCell struct{ scope, perm string }

type c35yTextRow struct {
	user  string
	cells []c35yCell
	raw   string // if set, written instead of the cells (after "user:")
}

func c35yRender(rows []c35yTextRow) string {
	var sb strings.Builder

	for _, row := range rows {
		switch {
		case row.user == "":
			sb.WriteString("\"\":")
		default:
			sb.WriteString(row.user + ":")
		}

		if row.raw != "" || len(row.cells) < 1 {
			sb.WriteString(row.raw + "\n")

			continue
		}

		sb.WriteString("\n")

		for _, c := range row.cells {
			scope := c.scope
			if scope == "" {
				scope = "\"\""
			}

			sb.WriteString("  " + scope + ": " + c.perm + "\n")
		}
	}

	return sb.String()
}

type c35yBad struct {
	id    string
	shape string      // class (goes into the signature)
	text  string      //
	alts  []c35xTable // tables the text can denote if it is accepted; none = the text has no meaning
	noop  bool        // accepted with no effect is the documented behaviour (empty input)
}

// the well-formed base text the corruptions are applied to
func c35yBase() ([]c35yTextRow, c35xTable) {
	rows := []c35yTextRow{
		{user: defaultACLUser, cells: []c35yCell{{"_default", "oo"}, {"s", "o"}}},
		{user: c35xU1, cells: []c35yCell{{"s", "x"}, {"t", "oo"}}},
		{user: c35xU2, cells: []c35yCell{{"_default", "x"}, {"s", "ooo"}}},
	}

	tb := c35xTable{
		defaultACLUser: c35xRow{defaultACLScope: WriteAllowACLPerm, c35xS: ReadAllowACLPerm},
		c35xU1:         c35xRow{c35xS: aclPermProhibit, c35xT: WriteAllowACLPerm},
		c35xU2:         c35xRow{defaultACLScope: aclPermProhibit, c35xS: 4},
	}

	return rows, tb
}

func c35yCopyRows(rows []c35yTextRow) []c35yTextRow {
	out := make([]c35yTextRow, len(rows))

	for i := range rows {
		out[i] = rows[i]
		out[i].cells = append([]c35yCell{}, rows[i].cells...)
	}

	return out
}

func c35yBadTexts() []c35yBad {
	var out []c35yBad

	baseRows, baseTable := c35yBase()

	without := func(users ...string) c35xTable {
		c := baseTable.clone()
		for _, u := range users {
			delete(c, u)
		}

		return c
	}

	// 1. permission texts that are not permissions, in every cell position
	words := []string{
		"ok", "O", "X", "S", "xx", "ss", "ox", "xo", "so", "os", "oO", "'o o'", "' o'", "read", "0", "3", "1.5", "true", "~", "null", "\"\"", "''",
		"[o]", "{o: o}", "-", strings.Repeat("o", 79), strings.Repeat("o", 80),
	}
	// (longer runs of "o" wrap around the uint8 and parse to some lower level; the first unit counts them as
	// o_texts_parsed_to_valid_perm_with_other_text - the statement is about permissions, not about arbitrary texts)

	for ri := range baseRows {
		for ci := range baseRows[ri].cells {
			for wi, w := range words {
				rows := c35yCopyRows(baseRows)
				rows[ri].cells[ci].perm = w

				shape := "unknown-permission-word"

				switch {
				case wi >= 14 && wi <= 24:
					shape = "permission-of-wrong-yaml-type"
				case wi > 24:
					shape = "permission-text-overflow"
				}

				out = append(out, c35yBad{id: fmt.Sprintf("word/row%d.cell%d/w%d", ri, ci, wi), shape: shape, text: c35yRender(rows)})
			}
		}
	}

	// 2. duplicate user: the same key twice with contradicting rows, at every pair of positions
	for _, u := range []string{c35xU1, defaultACLUser} {
		for _, firstGrants := range []bool{true, false} {
			for pos := 0; pos <= len(baseRows); pos++ {
				grant, deny := []c35yCell{{"s", "ooo"}, {"_default", "oo"}}, []c35yCell{{"s", "x"}, {"_default", "x"}}

				a, b := grant, deny
				if !firstGrants {
					a, b = deny, grant
				}

				var rows []c35yTextRow

				for _, row := range baseRows {
					if row.user != u {
						rows = append(rows, row)
					}
				}

				rows = append([]c35yTextRow{{user: u, cells: a}}, rows...)
				if pos > len(rows) {
					continue
				}

				rows = append(rows[:pos:pos], append([]c35yTextRow{{user: u, cells: b}}, rows[pos:]...)...)
				if pos == 0 {
					continue // same as another arrangement
				}

				toRow := func(cells []c35yCell) c35xRow {
					row := c35xRow{}
					for _, c := range cells {
						var p ACLPerm
						_ = p.UnmarshalText([]byte(c.perm))
						row[ACLScope(c.scope)] = p
					}

					return row
				}

				first, last := without(u), without(u)
				first[u], last[u] = toRow(a), toRow(b)

				out = append(out, c35yBad{
					id: fmt.Sprintf("dup-user/%s/first-grants=%v/pos%d", c35xName(u), firstGrants, pos), shape: "duplicate-user",
					text: c35yRender(rows), alts: []c35xTable{first, last},
				})
			}
		}
	}

	// 3. duplicate scope inside one row
	for ri := range baseRows {
		for _, firstGrants := range []bool{true, false} {
			for _, scope := range []string{"s", "_default"} {
				rows := c35yCopyRows(baseRows)

				a, b := "ooo", "x"
				if !firstGrants {
					a, b = b, a
				}

				var cells []c35yCell

				for _, c := range rows[ri].cells {
					if c.scope != scope {
						cells = append(cells, c)
					}
				}

				rows[ri].cells = append(append([]c35yCell{{scope, a}}, cells...), c35yCell{scope, b})

				first, last := baseTable.clone(), baseTable.clone()

				var pa, pb ACLPerm

				_ = pa.UnmarshalText([]byte(a))
				_ = pb.UnmarshalText([]byte(b))
				first[rows[ri].user][ACLScope(scope)] = pa
				last[rows[ri].user][ACLScope(scope)] = pb

				out = append(out, c35yBad{
					id: fmt.Sprintf("dup-scope/row%d/%s/first-grants=%v", ri, scope, firstGrants), shape: "duplicate-scope",
					text: c35yRender(rows), alts: []c35xTable{first, last},
				})
			}
		}
	}

	// 4. empty maps
	for i, text := range []string{"{}\n", "{ }\n", "--- {}\n", "---\n{}\n...\n"} {
		out = append(out, c35yBad{id: fmt.Sprintf("empty-map/doc%d", i), shape: "empty-document-map", text: text, alts: []c35xTable{{}}})
	}

	out = append(out, c35yBad{id: "empty-input", shape: "empty-input", text: "", noop: true})

	for ri := range baseRows {
		for i, raw := range []string{" {}", "", " ~", " null"} {
			rows := c35yCopyRows(baseRows)
			rows[ri].cells = nil
			rows[ri].raw = raw

			out = append(out, c35yBad{
				id: fmt.Sprintf("empty-map/row%d/v%d", ri, i), shape: "empty-user-row", text: c35yRender(rows),
				alts: []c35xTable{without(baseRows[ri].user)},
			})
		}
	}

	// 5. superuser row at every position, and alone
	for pos := 0; pos <= len(baseRows); pos++ {
		for _, perm := range []string{"x", "o", "s"} {
			rows := c35yCopyRows(baseRows)
			rows = append(rows[:pos:pos], append([]c35yTextRow{{user: c35xSuper, cells: []c35yCell{{"s", perm}, {"_default", perm}}}}, rows[pos:]...)...)

			out = append(out, c35yBad{
				id: fmt.Sprintf("superuser-row/pos%d/%s", pos, perm), shape: "superuser-row", text: c35yRender(rows),
				alts: []c35xTable{baseTable.clone()}, // the superuser is allowed whatever a row says
			})
		}
	}

	out = append(out, c35yBad{
		id: "superuser-row/alone", shape: "superuser-row",
		text: c35yRender([]c35yTextRow{{user: c35xSuper, cells: []c35yCell{{"s", "x"}}}}), alts: []c35xTable{{}},
	})

	// 6. documents that are not a map
	for i, text := range []string{"null\n", "~\n", "# only a comment\n", "---\n", "abc\n", "- a\n- b\n", "3\n", "\"\"\n", "[]\n", "x\n"} {
		out = append(out, c35yBad{id: fmt.Sprintf("not-a-map/%d", i), shape: "document-not-a-map", text: text})
	}

	// 7. user names that are not publickeys; a row that is not a map
	for i, u := range []string{"alice", "__default", "", "_Default", c35xU1[:len(c35xU1)-3], strings.ToUpper(c35xU1), c35xU1 + "x", "3", "true", "~"} {
		for _, pos := range []int{0, len(baseRows)} {
			rows := c35yCopyRows(baseRows)
			rows = append(rows[:pos:pos], append([]c35yTextRow{{user: u, cells: []c35yCell{{"s", "ooo"}, {"_default", "ooo"}}}}, rows[pos:]...)...)

			out = append(out, c35yBad{id: fmt.Sprintf("bad-user/%d/pos%d", i, pos), shape: "user-not-a-publickey", text: c35yRender(rows)})
		}
	}

	for ri := range baseRows {
		for i, raw := range []string{" oo", " [s, oo]", " 3", "\n  - s: oo"} {
			rows := c35yCopyRows(baseRows)
			rows[ri].cells = nil
			rows[ri].raw = raw

			out = append(out, c35yBad{id: fmt.Sprintf("row-not-a-map/row%d/v%d", ri, i), shape: "user-row-not-a-map", text: c35yRender(rows)})
		}
	}

	// 8. empty scope
	for ri := range baseRows {
		rows := c35yCopyRows(baseRows)
		rows[ri].cells = append(rows[ri].cells, c35yCell{"", "ooo"})

		out = append(out, c35yBad{id: fmt.Sprintf("empty-scope/row%d", ri), shape: "empty-scope", text: c35yRender(rows)})
	}

	// 9. YAML syntax errors; a second document
	valid := c35yRender(baseRows)

	for i, text := range []string{valid + "  bad indent: [\n", valid + "\t: o\n", "{" + valid, valid + c35xU3 + ": {s: oo\n"} {
		out = append(out, c35yBad{id: fmt.Sprintf("syntax/%d", i), shape: "yaml-syntax-error", text: text})
	}

	second := c35xTable{c35xU1: c35xRow{c35xS: aclPermSuper}}
	out = append(out, c35yBad{
		id: "two-documents", shape: "two-documents", text: valid + "---\n" + second.yaml(nil),
		alts: []c35xTable{baseTable.clone(), second},
	})

	return out
}

func c35yMalformed(r *vlib.Run, qs []c35xQuery) {
	_, baseTable := c35yBase()

	prevs := []c35xTable{
		{},
		{c35xU1: c35xRow{c35xS: aclPermProhibit}, defaultACLUser: c35xRow{defaultACLScope: ReadAllowACLPerm}},
		{
			c35xU1:         c35xRow{c35xS: WriteAllowACLPerm, defaultACLScope: aclPermProhibit},
			c35xU2:         c35xRow{c35xT: ReadAllowACLPerm},
			defaultACLUser: c35xRow{c35xS: aclPermProhibit, c35xT: 4},
		},
		baseTable,
	}

	bads := c35yBadTexts()
	r.Set("yaml_malformed_texts", len(bads))
	r.Set("yaml_malformed_previous_tables", len(prevs))

	for pi, prev := range prevs {
		for _, bad := range bads {
			id := fmt.Sprintf("yaml/bad/prev%d/%s", pi, bad.id)
			if !r.Want(id) {
				continue
			}

			if r.Expired() {
				return
			}

			acl := NewYAMLACL(c35xNewACL())

			if len(prev) > 0 {
				if _, err, panicked, _ := c35yImport(acl, prev.yaml(nil)); err != nil || panicked {
					panic(fmt.Sprintf("previous table %s not loaded: %v", prev, err))
				}
			}

			updated, err, panicked, pmsg := c35yImport(acl, bad.text)
			got := c35xAnswers(acl.ACL, qs)

			r.StatesN(1)
			r.Trace()
			r.EvalN(int64(len(qs)))
			r.NontrivialN(1)

			matches := func(tb c35xTable) (bool, int) {
				for i, q := range qs {
					if ok, _, _, _ := c35xJudge(tb, q, got[i]); !ok {
						return false, i
					}
				}

				return true, -1
			}

			// does the real ACL allow something that neither the previous table nor any reading of the text grants?
			allowsMore, witness := false, ""

			for i, q := range qs {
				if !got[i] || q.required == aclPermProhibit {
					continue
				}

				granted, _, _ := c35xDecide(prev, c35xSuper, q.user, q.scope, q.required)

				for _, alt := range bad.alts {
					if g, _, _ := c35xDecide(alt, c35xSuper, q.user, q.scope, q.required); g {
						granted = true
					}
				}

				if !granted {
					allowsMore, witness = true, q.String()

					break
				}
			}

			rejected := err != nil || panicked
			rep := map[string]any{"previous": prev.yaml(nil), "text": bad.text}

			var cls string

			switch {
			case panicked:
				cls = "panic"
				r.Add("yaml_import_panics", 1)
				r.Set("yaml_import_panic_example", fmt.Sprintf("Import(%q): %s", bad.text, strings.SplitN(pmsg, "\n", 2)[0]))
			case rejected:
				cls = "rejected"
			default:
				cls = fmt.Sprintf("accepted:updated=%v", updated)
			}

			r.Outcome("yaml:malformed:" + bad.shape + ":" + cls)

			switch {
			case rejected:
				if ok, qi := matches(prev); !ok {
					_, want, decider, p := c35xJudge(prev, qs[qi], got[qi])

					r.Violation(id, map[string]any{"kind": "rejected-import-changed-decisions", "shape": bad.shape, "panicked": panicked, "allows_more": allowsMore},
						fmt.Sprintf("previous table %s; Import of the text below returns err=%v panic=%q, but afterwards %s = %v (the previous table decides by clause %d, permission %q -> %v); "+
							"real table now %s; allowed although granted neither by the previous table nor by the text: %q\n%s",
							prev, err, pmsg, qs[qi], got[qi], decider, p, want, c35xRealTable(acl.ACL), witness, bad.text), rep)
				}
			case bad.noop:
				if ok, qi := matches(prev); !ok {
					r.Violation(id, map[string]any{"kind": "empty-import-changed-decisions", "shape": bad.shape, "allows_more": allowsMore},
						fmt.Sprintf("previous table %s; Import of empty input changed %s to %v; real table now %s", prev, qs[qi], got[qi], c35xRealTable(acl.ACL)), rep)
				}
			default:
				found := false

				for _, alt := range bad.alts {
					if ok, _ := matches(alt); ok {
						found = true

						break
					}
				}

				if !found {
					r.Violation(id, map[string]any{"kind": "malformed-yaml-accepted", "shape": bad.shape, "allows_more": allowsMore},
						fmt.Sprintf("previous table %s; Import of the text below is accepted (updated=%v) and the real table is now %s, which decides differently from every table the text can denote %v; "+
							"allowed although granted neither by the previous table nor by the text: %q\n%s",
							prev, updated, c35xRealTable(acl.ACL), bad.alts, witness, bad.text), rep)
				}
			}

			if bad.id == "superuser-row/pos1/x" && pi == 1 || bad.id == "dup-scope/row1/s/first-grants=true" && pi == 1 {
				r.Sample(map[string]any{"case": id, "text": bad.text, "error": fmt.Sprint(err), "table_after": c35xRealTable(acl.ACL)})
			}
		}
	}
}
