//go:build verif

package launch

import (
	"fmt"
	"sort"
	"strings"
	"sync"

	"github.com/spikeekips/mitum/base"
	"github.com/spikeekips/mitum/util/encoder"
	jsonenc "github.com/spikeekips/mitum/util/encoder/json"
)

// C35, shared by the YAML unit (c35_yaml_test.go) and the concurrent unit
// (c35_conc_test.go): a general table model (any number of user rows), the
// reference precedence evaluation over it, the hand-written YAML text of a table
// and the complete query set over the users and scopes the harness mentions.
//
// Reference (the precedence sentence of the statement, literally, same as
// c35Decide of c35_test.go but for any table): the deciding permission for
// (user, scope) is the first one present among table[user][scope],
// table[user][_default], table[_default][scope], table[_default][_default];
// allowed iff it exists, is not "prohibit" and is >= required; the superuser is
// always allowed.

// The YAML loader only accepts publickey strings (and _default) as user names, so
// the users of these units are fixed-seed publickeys.
var (
	c35xOnce  sync.Once
	c35xU1    string // the user whose row is enumerated / updated
	c35xU2    string // a second user with its own row
	c35xU3    string // a valid publickey that never has a row ("unknown user")
	c35xSuper string
	c35xEnc   encoder.Encoder
)

const (
	c35xS = ACLScope("s")
	c35xT = ACLScope("t") // a second scope ("other" of the first unit)
	c35xR = ACLScope("unrelated")
)

func c35xInit() {
	c35xOnce.Do(func() {
		pub := func(seed string) string {
			priv, err := base.NewMPrivatekeyFromSeed(seed)
			if err != nil {
				panic(err)
			}

			return priv.Publickey().String()
		}

		c35xU1 = pub("verif-c35-user-one-fixed-seed-0123456789abcdef")
		c35xU2 = pub("verif-c35-user-two-fixed-seed-0123456789abcdef")
		c35xU3 = pub("verif-c35-user-three-fixed-seed-0123456789abcdef")
		c35xSuper = pub("verif-c35-superuser-fixed-seed-0123456789abcdef")

		enc := jsonenc.NewEncoder()
		if err := enc.Add(encoder.DecodeDetail{Hint: base.MPublickeyHint, Instance: &base.MPublickey{}}); err != nil {
			panic(err)
		}

		c35xEnc = enc
	})
}

// c35xName: short stable names for case ids and messages.
func c35xName(user string) string {
	switch user {
	case c35xU1:
		return "U1"
	case c35xU2:
		return "U2"
	case c35xU3:
		return "U3"
	case c35xSuper:
		return "SU"
	}

	return user
}

type c35xRow = map[ACLScope]ACLPerm

// c35xTable: user -> row. A user with an empty row has no row (setUser removes it,
// the loader skips it).
type c35xTable map[string]c35xRow

func (tb c35xTable) clone() c35xTable {
	c := c35xTable{}

	for u, row := range tb {
		if len(row) < 1 {
			continue
		}

		c[u] = c35xRow{}
		for s, p := range row {
			c[u][s] = p
		}
	}

	return c
}

func c35xRowString(row c35xRow) string {
	scopes := make([]string, 0, len(row))
	for s := range row {
		scopes = append(scopes, string(s))
	}

	sort.Strings(scopes)

	parts := make([]string, len(scopes))
	for i, s := range scopes {
		parts[i] = fmt.Sprintf("%s=%d", s, row[ACLScope(s)])
	}

	return strings.Join(parts, ",")
}

// String is canonical (sorted, empty rows dropped).
func (tb c35xTable) String() string {
	users := make([]string, 0, len(tb))
	for u := range tb {
		if len(tb[u]) > 0 {
			users = append(users, u)
		}
	}

	sort.Slice(users, func(i, j int) bool { return c35xName(users[i]) < c35xName(users[j]) })

	parts := make([]string, len(users))
	for i, u := range users {
		parts[i] = c35xName(u) + "{" + c35xRowString(tb[u]) + "}"
	}

	return "[" + strings.Join(parts, " ") + "]"
}

// c35xRealTable: the rows the real ACL holds, in the same canonical form.
func c35xRealTable(acl *ACL) string {
	return c35xTable(acl.m.Map()).String()
}

// yaml writes the text form the loader accepts, by hand: rows in the given order
// (rows missing from order are appended sorted), scopes sorted, permissions in
// their text form.
func (tb c35xTable) yaml(order []string) string {
	seen := map[string]bool{}

	var users []string

	for _, u := range order {
		if len(tb[u]) > 0 && !seen[u] {
			users = append(users, u)
			seen[u] = true
		}
	}

	var rest []string

	for u := range tb {
		if len(tb[u]) > 0 && !seen[u] {
			rest = append(rest, u)
		}
	}

	sort.Strings(rest)
	users = append(users, rest...)

	if len(users) < 1 {
		return "{}\n"
	}

	var sb strings.Builder

	for _, u := range users {
		sb.WriteString(u + ":\n")

		scopes := make([]string, 0, len(tb[u]))
		for s := range tb[u] {
			scopes = append(scopes, string(s))
		}

		sort.Strings(scopes)

		for _, s := range scopes {
			sb.WriteString("  " + s + ": " + tb[u][ACLScope(s)].String() + "\n")
		}
	}

	return sb.String()
}

// direct builds the table through ACL.setUser on the given ACL, rows in order.
func (tb c35xTable) direct(acl *ACL, order []string) error {
	seen := map[string]bool{}

	for _, u := range order {
		if len(tb[u]) < 1 || seen[u] {
			continue
		}

		seen[u] = true

		if _, _, err := acl.setUser(u, tb.clone()[u]); err != nil {
			return err
		}
	}

	var rest []string

	for u := range tb {
		if len(tb[u]) > 0 && !seen[u] {
			rest = append(rest, u)
		}
	}

	sort.Strings(rest)

	for _, u := range rest {
		if _, _, err := acl.setUser(u, tb.clone()[u]); err != nil {
			return err
		}
	}

	return nil
}

// c35xDecide is the reference. decider: 1..4 = which clause decided, 0 = none, 5 = superuser.
func c35xDecide(tb c35xTable, superuser, user string, scope ACLScope, required ACLPerm) (allow bool, decider int, p ACLPerm) {
	if user == superuser {
		return true, 5, 0
	}

	own, d := tb[user], tb[defaultACLUser]

	for i, look := range []struct {
		row   c35xRow
		scope ACLScope
	}{
		{own, scope}, {own, defaultACLScope}, {d, scope}, {d, defaultACLScope},
	} {
		if v, found := look.row[look.scope]; found {
			return v != aclPermProhibit && v >= required, i + 1, v
		}
	}

	return false, 0, 0
}

type c35xQuery struct {
	user     string
	scope    ACLScope
	required ACLPerm
}

func (q c35xQuery) String() string {
	return fmt.Sprintf("Allow(%s,%s,req=%d)", c35xName(q.user), q.scope, q.required)
}

// c35xQueries: every user x scope x required level the harness tables can mention,
// plus a user and a scope without any cell.
func c35xQueries(requireds []ACLPerm) []c35xQuery {
	var qs []c35xQuery

	for _, u := range []string{c35xU1, c35xU2, c35xU3, c35xSuper, defaultACLUser} {
		for _, s := range []ACLScope{c35xS, c35xT, c35xR, defaultACLScope} {
			for _, req := range requireds {
				qs = append(qs, c35xQuery{u, s, req})
			}
		}
	}

	return qs
}

// c35xAnswers: the real ACL's decisions for all queries.
func c35xAnswers(acl *ACL, qs []c35xQuery) []bool {
	out := make([]bool, len(qs))

	for i, q := range qs {
		_, out[i] = acl.Allow(q.user, q.scope, q.required)
	}

	return out
}

// c35xJudge: does the real answer agree with the reference on table tb?
// required == prohibit is the degenerate request level of c35_test.go: only "a
// deciding prohibit (or nothing) denies" is demanded.
func c35xJudge(tb c35xTable, q c35xQuery, got bool) (ok bool, want bool, decider int, p ACLPerm) {
	want, decider, p = c35xDecide(tb, c35xSuper, q.user, q.scope, q.required)

	if q.required == aclPermProhibit {
		if decider != 5 && (p == aclPermProhibit || decider == 0) && got {
			return false, false, decider, p
		}

		return true, got, decider, p
	}

	return got == want, want, decider, p
}

// c35xNewACL: a fresh real ACL. layout "" = NewACL(4, super) as the first unit does
// (sharded map, shard placement by a random seed: fine for single-threaded use);
// the concurrent unit pins the placement (see c35cNewACL).
func c35xNewACL() *ACL {
	acl, err := NewACL(4, c35xSuper)
	if err != nil {
		panic(err)
	}

	return acl
}
