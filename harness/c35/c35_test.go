//go:build verif

package launch

import (
	"fmt"
	"strings"
	"testing"

	"github.com/spikeekips/mitum/zzverif/vlib"
)

// C35: access control decisions follow the documented precedence.
//
// Reference (the precedence sentence of the statement, literally): the deciding
// permission p for (user, scope) is the first one present among
//   1. table[user][scope]   2. table[user][_default]
//   3. table[_default][scope]   4. table[_default][_default]
// access is allowed iff p exists, p is not "prohibit" and p >= required. The superuser
// is always allowed. A valid permission (1..79) prints to text and parses back to
// the same permission, and different valid permissions print differently.
//
// required == prohibit ("x") is a degenerate request level: the two clauses "explicit
// prohibit always denies" and "the superuser is always allowed" then pull in opposite
// directions and the precedence sentence says nothing about it, so for that level the
// oracle only insists that a deciding "prohibit" (or no permission at all) denies.

const (
	c35User  = "u"
	c35Super = "su"
	c35Scope = ACLScope("s")
)

type c35Table struct {
	cells [4]ACLPerm // user/scope, user/_default, _default/scope, _default/_default; 0 = absent
	regU  bool       // user row additionally holds an unrelated scope (row exists even if both cells are absent)
	regD  bool       // same for the _default row
}

func (tb c35Table) String() string {
	return fmt.Sprintf("%d.%d.%d.%d/reg=%v.%v", tb.cells[0], tb.cells[1], tb.cells[2], tb.cells[3], tb.regU, tb.regD)
}

func (tb c35Table) rows() (u, d map[ACLScope]ACLPerm) {
	u = map[ACLScope]ACLPerm{}
	d = map[ACLScope]ACLPerm{}

	if tb.cells[0] != 0 {
		u[c35Scope] = tb.cells[0]
	}

	if tb.cells[1] != 0 {
		u[defaultACLScope] = tb.cells[1]
	}

	if tb.cells[2] != 0 {
		d[c35Scope] = tb.cells[2]
	}

	if tb.cells[3] != 0 {
		d[defaultACLScope] = tb.cells[3]
	}

	if tb.regU {
		u["unrelated"] = ReadAllowACLPerm
	}

	if tb.regD {
		d["unrelated"] = WriteAllowACLPerm
	}

	return u, d
}

func (tb c35Table) build() (*ACL, error) {
	acl, err := NewACL(4, c35Super)
	if err != nil {
		return nil, err
	}

	u, d := tb.rows()

	if len(u) > 0 {
		if _, _, err := acl.setUser(c35User, u); err != nil {
			return nil, err
		}
	}

	if len(d) > 0 {
		if _, _, err := acl.setUser(defaultACLUser, d); err != nil {
			return nil, err
		}
	}

	return acl, nil
}

// c35Decide is the reference. decider: 1..4 = which clause decided, 0 = none, 5 = superuser.
func c35Decide(tb c35Table, user string, scope ACLScope, required ACLPerm) (allow bool, decider int, p ACLPerm) {
	if user == c35Super {
		return true, 5, 0
	}

	u, d := tb.rows()

	own := map[ACLScope]ACLPerm{}

	switch user {
	case c35User:
		own = u
	case defaultACLUser:
		own = d
	}

	for i, look := range []struct {
		row   map[ACLScope]ACLPerm
		scope ACLScope
	}{
		{own, scope}, {own, defaultACLScope}, {d, scope}, {d, defaultACLScope},
	} {
		if v, found := look.row[look.scope]; found {
			return v != aclPermProhibit && v >= required, i + 1, v
		}
	}

	return false, 0, 0
}

func TestVerifC35(t *testing.T) {
	r := vlib.Start("C35")
	defer r.Finish()

	perms := vlib.Pick(r,
		[]ACLPerm{0, aclPermProhibit, ReadAllowACLPerm, WriteAllowACLPerm, 4, aclPermSuper},
		[]ACLPerm{0, aclPermProhibit, ReadAllowACLPerm, WriteAllowACLPerm, 4, 5, 78, aclPermSuper})
	requireds := vlib.Pick(r,
		[]ACLPerm{aclPermProhibit, ReadAllowACLPerm, WriteAllowACLPerm, 4, aclPermSuper},
		[]ACLPerm{aclPermProhibit, ReadAllowACLPerm, WriteAllowACLPerm, 4, 5, 78, aclPermSuper})
	users := []string{c35User, "unknown", c35Super, defaultACLUser}
	scopes := []ACLScope{c35Scope, "other", defaultACLScope}

	r.Rule("tables = 4 cells (user/scope, user/_default, _default/scope, _default/_default) each absent or one of the listed permissions, x each row with/without an " +
		"unrelated extra scope; queries = 4 users (the user, an unknown one, the superuser, _default) x 3 scopes (the scope, another one, _default) x the listed required levels, " +
		"all through the real ACL.setUser / ACL.Allow; plus all 256 ACLPerm values through String/MarshalText/UnmarshalText. Non-trivial = the decision is taken by " +
		"clause 2, 3 or 4 (a fall-through happened) or a prohibit decides")
	r.Set("cell_values", perms)
	r.Set("required_levels", requireds)
	r.Set("users", users)
	r.Set("scopes", scopes)

	item := 0

	for _, c0 := range perms {
		for _, c1 := range perms {
			for _, c2 := range perms {
				for _, c3 := range perms {
					for reg := 0; reg < 4; reg++ {
						item++
						if !r.Mine(item) {
							continue
						}

						if item%256 == 0 && r.Expired() {
							return
						}

						tb := c35Table{cells: [4]ACLPerm{c0, c1, c2, c3}, regU: reg&1 != 0, regD: reg&2 != 0}
						c35Queries(t, r, tb, users, scopes, requireds)
					}
				}
			}
		}
	}

	if r.Mine(0) {
		c35Text(r)
		c35SuperuserRow(t, r)
	}
}

func c35Queries(t *testing.T, r *vlib.Run, tb c35Table, users []string, scopes []ACLScope, requireds []ACLPerm) {
	var acl *ACL

	for _, user := range users {
		for _, scope := range scopes {
			for _, required := range requireds {
				id := fmt.Sprintf("t=%s/u=%s/s=%s/req=%d", tb, user, scope, required)
				if !r.Want(id) {
					continue
				}

				if acl == nil {
					var err error
					if acl, err = tb.build(); err != nil {
						t.Fatal(err)
					}
				}

				r.StatesN(1)
				r.Eval()

				want, decider, p := c35Decide(tb, user, scope, required)
				assigned, got := acl.Allow(user, scope, required)

				cls := fmt.Sprintf("clause%d", decider)

				switch {
				case decider == 5:
					cls = "superuser"
				case decider == 0:
					cls = "none"
				case p == aclPermProhibit:
					cls += ":prohibit"
				}

				r.Outcome(fmt.Sprintf("%s:allow=%v", cls, got))

				if decider >= 2 && decider <= 4 || p == aclPermProhibit {
					r.NontrivialN(1)
				}

				if tb.cells == [4]ACLPerm{0, WriteAllowACLPerm, aclPermProhibit, 4} && !tb.regU && !tb.regD && required == ReadAllowACLPerm && user == c35User {
					r.Sample(map[string]any{"table": tb.String(), "user": user, "scope": string(scope), "required": required.String(), "allow": got, "assigned": assigned.String(), "reference_clause": decider})
				}

				rep := map[string]any{"cells": tb.cells, "regU": tb.regU, "regD": tb.regD, "user": user, "scope": string(scope), "required": uint8(required)}

				if required == aclPermProhibit {
					// degenerate request level, see the file comment
					switch {
					case decider == 5:
						r.Add("superuser_with_required_prohibit_allowed", c35b(got))
						r.Add("superuser_with_required_prohibit_denied", c35b(!got))
					case (p == aclPermProhibit || decider == 0) && got:
						r.Violation(id, map[string]any{"kind": "prohibit-allowed", "clause": decider, "required_is_prohibit": true},
							fmt.Sprintf("table %s: Allow(%q, %q, required=x) = allowed although the deciding permission is %q (clause %d)", tb, user, scope, p, decider), rep)
					}

					continue
				}

				switch {
				case got == want:
				case decider == 5:
					r.Violation(id, map[string]any{"kind": "superuser-denied"},
						fmt.Sprintf("table %s: Allow(superuser, %q, required=%s) = denied", tb, scope, required), rep)
				case p == aclPermProhibit && got:
					r.Violation(id, map[string]any{"kind": "prohibit-allowed", "clause": decider, "required_is_prohibit": false},
						fmt.Sprintf("table %s: Allow(%q, %q, required=%s) = allowed (assigned %q) although clause %d holds an explicit prohibit", tb, user, scope, required, assigned, decider), rep)
				default:
					r.Violation(id, map[string]any{"kind": "wrong-decision", "clause": decider, "expected_allow": want},
						fmt.Sprintf("table %s: Allow(%q, %q, required=%s) = %v (assigned %q); the precedence rule decides by clause %d with permission %q -> %v",
							tb, user, scope, required, got, assigned, decider, p, want), rep)
				}

				// which permission the implementation says it used (logging only; not part
				// of the access decision, so informational)
				if decider >= 1 && decider <= 4 && assigned != p {
					r.Add("assigned_perm_differs_from_deciding_clause", 1)
				}
			}
		}
	}
}

func c35b(b bool) int64 {
	if b {
		return 1
	}

	return 0
}

// c35SuperuserRow: the superuser cannot be given a row (so no prohibit can be attached to it).
func c35SuperuserRow(t *testing.T, r *vlib.Run) {
	id := "superuser-row"
	if !r.Want(id) {
		return
	}

	acl, err := NewACL(4, c35Super)
	if err != nil {
		t.Fatal(err)
	}

	_, updated, err := acl.setUser(c35Super, map[ACLScope]ACLPerm{c35Scope: aclPermProhibit, defaultACLScope: aclPermProhibit})
	_, allow := acl.Allow(c35Super, c35Scope, WriteAllowACLPerm)

	r.Eval()
	r.Outcome(fmt.Sprintf("superuser-row:seterr=%v:allow=%v", err != nil, allow))

	if !allow || updated {
		r.Violation(id, map[string]any{"kind": "superuser-denied", "via": "own-row"},
			fmt.Sprintf("setUser(superuser, prohibit) -> updated=%v err=%v; Allow(superuser) = %v", updated, err, allow), nil)
	}
}

// c35Text: every ACLPerm value through String / MarshalText / UnmarshalText.
func c35Text(r *vlib.Run) {
	texts := map[string]ACLPerm{}

	for v := 0; v <= 255; v++ {
		p := ACLPerm(v)
		id := fmt.Sprintf("text/perm=%d", v)

		if !r.Want(id) {
			continue
		}

		r.Eval()
		r.StatesN(1)

		valid := p.IsValid(nil) == nil
		s := p.String()
		b, merr := p.MarshalText()

		var q ACLPerm

		uerr := q.UnmarshalText(b)

		if !valid {
			switch {
			case uerr != nil:
				r.Outcome("text:invalid-perm:parse-error")
			case q == p:
				r.Outcome("text:invalid-perm:round-trips")
			default:
				r.Outcome("text:invalid-perm:parses-to-other")
			}

			continue
		}

		r.Outcome("text:valid-perm")

		if v == 1 || v == 2 || v == 79 {
			r.Sample(map[string]any{"perm": v, "text": s, "parsed": uint8(q)})
		}

		switch {
		case merr != nil || string(b) != s:
			r.Violation(id, map[string]any{"kind": "text-marshal-mismatch"}, fmt.Sprintf("perm %d: String=%q MarshalText=%q err=%v", v, s, b, merr), nil)
		case uerr != nil:
			r.Violation(id, map[string]any{"kind": "text-roundtrip", "how": "parse-error"}, fmt.Sprintf("perm %d prints %q which does not parse: %v", v, s, uerr), nil)
		case q != p:
			r.Violation(id, map[string]any{"kind": "text-roundtrip", "how": "changed"}, fmt.Sprintf("perm %d prints %q which parses to perm %d", v, s, q), nil)
		}

		if other, found := texts[s]; found {
			r.Violation(id, map[string]any{"kind": "text-roundtrip", "how": "ambiguous"}, fmt.Sprintf("perms %d and %d both print %q", other, v, s), nil)
		}

		texts[s] = p
	}

	// informational text-side sweep (the statement is about permissions, not about
	// arbitrary texts): "o" x k
	if _, replaying := r.Replaying(); !replaying {
		for k := 1; k <= 600; k++ {
			var q ACLPerm
			if err := q.UnmarshalText([]byte(strings.Repeat("o", k))); err != nil {
				r.Add("o_texts_rejected", 1)

				continue
			}

			switch {
			case q.IsValid(nil) != nil:
				r.Add("o_texts_parsed_to_invalid_perm", 1)
			case q.String() != strings.Repeat("o", k):
				r.Add("o_texts_parsed_to_valid_perm_with_other_text", 1)
				r.Min("o_texts_first_noncanonical_len", int64(k))
			default:
				r.Add("o_texts_canonical", 1)
			}
		}
	}
}
