//go:build verif

package util

import (
	"bytes"
	"encoding/binary"
	"fmt"
	"io"
	"sort"
	"strconv"
	"strings"
	"testing"

	"github.com/pkg/errors"
	"github.com/spikeekips/mitum/zzverif/vlib"
)

// C29: length-prefixed framing round-trips and rejects bad input.
//
// Reference model (written from the statement, independent of util/bytes.go):
//   lengthed      = len:uint64-big-endian  payload[len]
//   lengthedSlice = count:uint64-big-endian  lengthed * count
//   frame         = version[2]  lengthedSlice(header)  body
//   body          = lengthed*  |  raw bytes to the end
// A parse is strict: every announced byte must be present. Bytes after a
// complete lengthedSlice are "left" (buffer API) or stay unread (stream API).
//
// Oracle per case:
//   * a list the writer accepts reads back identically from a buffer and from a
//     stream under every enumerated chunking; the writer may refuse only lists
//     longer than the package's own item-count limit maxLengthBytes;
//   * whenever a reader reports success its result equals the reference parse
//     of exactly the bytes it was given (nothing dropped, nothing invented, no
//     byte consumed beyond the message);
//   * whenever the reference parse fails (truncated / malformed) the reader
//     reports an error;
//   * never a panic.

// ---------------------------------------------------------------- reference

func c29u64(i uint64) []byte {
	b := make([]byte, 8)
	binary.BigEndian.PutUint64(b, i)

	return b
}

func c29refEncodeSlice(m [][]byte) []byte {
	var w bytes.Buffer

	w.Write(c29u64(uint64(len(m))))

	for i := range m {
		w.Write(c29u64(uint64(len(m[i]))))
		w.Write(m[i])
	}

	return w.Bytes()
}

// c29refLengthed parses one lengthed item. ok=false: truncated.
func c29refLengthed(b []byte) (item, left []byte, ok bool) {
	if len(b) < 8 {
		return nil, nil, false
	}

	l := binary.BigEndian.Uint64(b[:8])
	if l > uint64(len(b)-8) {
		return nil, nil, false
	}

	return b[8 : 8+l], b[8+l:], true
}

// c29refSlice parses a lengthed slice strictly. ok=false: truncated / malformed.
func c29refSlice(b []byte) (items [][]byte, left []byte, ok bool) {
	if len(b) < 8 {
		return nil, nil, false
	}

	n := binary.BigEndian.Uint64(b[:8])
	if n > uint64(len(b)-8)/8 { // every item needs at least its 8 length bytes
		return nil, nil, false
	}

	items = make([][]byte, 0, n)
	left = b[8:]

	for i := uint64(0); i < n; i++ {
		var it []byte

		if it, left, ok = c29refLengthed(left); !ok {
			return nil, nil, false
		}

		items = append(items, it)
	}

	return items, left, true
}

// c29announced: the largest item length the stream reader meets while walking
// b up to the first item that is not completely present.
func c29announced(b []byte) uint64 {
	if len(b) < 8 {
		return 0
	}

	n := binary.BigEndian.Uint64(b[:8])
	left := b[8:]

	var mx uint64

	for i := uint64(0); i < n && len(left) >= 8; i++ {
		l := binary.BigEndian.Uint64(left[:8])
		if l > mx {
			mx = l
		}

		if l > uint64(len(left)-8) {
			break
		}

		left = left[8+l:]
	}

	return mx
}

func c29sameList(a, b [][]byte) bool {
	if len(a) != len(b) {
		return false
	}

	for i := range a {
		if !bytes.Equal(a[i], b[i]) { // nil and empty are the same written value
			return false
		}
	}

	return true
}

func c29descList(m [][]byte) string {
	if len(m) > 6 {
		return fmt.Sprintf("%d items", len(m))
	}

	s := make([]string, len(m))
	for i := range m {
		if len(m[i]) > 8 {
			s[i] = fmt.Sprintf("<%d bytes>", len(m[i]))
		} else {
			s[i] = fmt.Sprintf("%x", m[i])
		}
	}

	return "[" + strings.Join(s, ",") + "]"
}

// ---------------------------------------------------------------- chunked reader

// c29chunks delivers b in the chunks given by the cut positions; a Read never
// crosses a cut. eofWithData: the last chunk is returned together with io.EOF
// ((n,EOF) convention); otherwise (n,nil) then (0,EOF).
type c29chunks struct {
	b           []byte
	cuts        []int
	pos         int
	ci          int
	eofWithData bool
	eofHit      bool
	reads       int
}

func (r *c29chunks) Read(p []byte) (int, error) {
	r.reads++

	if len(p) == 0 {
		return 0, nil
	}

	if r.pos >= len(r.b) {
		r.eofHit = true

		return 0, io.EOF
	}

	for r.ci < len(r.cuts) && r.cuts[r.ci] <= r.pos {
		r.ci++
	}

	end := len(r.b)
	if r.ci < len(r.cuts) {
		end = r.cuts[r.ci]
	}

	n := copy(p, r.b[r.pos:end])
	r.pos += n

	if r.pos == len(r.b) && r.eofWithData {
		r.eofHit = true

		return n, io.EOF
	}

	return n, nil
}

func c29cutsID(cuts []int) string {
	if cuts == nil {
		return "whole"
	}

	s := make([]string, len(cuts))
	for i := range cuts {
		s[i] = strconv.Itoa(cuts[i])
	}

	return strings.Join(s, ".")
}

// c29eachChunking calls f with every set of <= k cut points over positions
// 1..n-1 (ascending), plus the all-1-byte chunking.
func c29eachChunking(n, k int, f func(cuts []int)) {
	f(nil)

	var rec func(start int, cur []int)

	rec = func(start int, cur []int) {
		if len(cur) > 0 {
			f(append([]int(nil), cur...))
		}

		if len(cur) == k {
			return
		}

		for p := start; p < n; p++ {
			rec(p+1, append(cur, p))
		}
	}

	rec(1, nil)

	if n-1 > k {
		all := make([]int, 0, n-1)
		for p := 1; p < n; p++ {
			all = append(all, p)
		}

		f(all)
	}
}

// c29distinct drops chunkings that coincide (short inputs).
func c29distinct(l ...[]int) [][]int {
	seen := map[string]bool{}

	var out [][]int

	for _, c := range l {
		if id := c29cutsID(c); !seen[id] {
			seen[id] = true

			out = append(out, c)
		}
	}

	return out
}

func c29fixedChunks(n, size int) []int {
	var cuts []int
	for p := size; p < n; p += size {
		cuts = append(cuts, p)
	}

	return cuts
}

// ---------------------------------------------------------------- harness

type c29 struct {
	r *vlib.Run
	t *testing.T
}

func (c *c29) vio(id string, sig map[string]any, detail string, replay any) {
	c.r.Outcome("VIOLATION:" + fmt.Sprint(sig["kind"]))
	c.r.Violation(id, sig, detail, replay)
}

func (c *c29) begin(id string) bool {
	if !c.r.Want(id) {
		return false
	}

	c.r.Eval()

	return true
}

// guard runs f and reports a panic as a violation.
func (c *c29) guard(id, api string, f func()) bool {
	if p, msg := vlib.Catch(f); p {
		c.vio(id, map[string]any{"kind": "panic", "api": api}, api+" panicked: "+msg, map[string]any{"id": id})

		return false
	}

	return true
}

func c29countClass(n uint64) string {
	if n > maxLengthBytes {
		return "count>maxLengthBytes"
	}

	return "count<=maxLengthBytes"
}

// write encodes m with the real writers; returns (bytes, accepted).
func (c *c29) write(id string, m [][]byte) ([]byte, bool) {
	var b1, b2 []byte
	var err1, err2 error

	if !c.guard(id, "WriteLengthedSlice", func() {
		w := bytes.NewBuffer(nil)
		err1 = WriteLengthedSlice(w, m)
		b1 = w.Bytes()
		b2, err2 = NewLengthedBytesSlice(m)
		b2 = bytes.Clone(b2) // NewLengthedBytesSlice resets its buffer on return
	}) {
		return nil, false
	}

	if (err1 == nil) != (err2 == nil) {
		c.vio(id, map[string]any{"kind": "writers-disagree", "api": "NewLengthedBytesSlice"},
			fmt.Sprintf("WriteLengthedSlice err=%v but NewLengthedBytesSlice err=%v for %s", err1, err2, c29descList(m)), nil)

		return nil, false
	}

	if err1 != nil {
		if len(m) > maxLengthBytes {
			c.r.Outcome("write:refused-over-count-limit")

			return nil, false
		}

		c.vio(id, map[string]any{"kind": "writer-refuses-valid-list", "api": "WriteLengthedSlice", "count": c29countClass(uint64(len(m)))},
			fmt.Sprintf("WriteLengthedSlice refused %s: %v", c29descList(m), err1), nil)

		return nil, false
	}

	ref := c29refEncodeSlice(m)
	if !bytes.Equal(b1, ref) || !bytes.Equal(b2, ref) {
		c.vio(id, map[string]any{"kind": "writer-wrong-bytes", "api": "WriteLengthedSlice"},
			fmt.Sprintf("encoding of %s differs from the reference encoding (%d/%d vs %d bytes)", c29descList(m), len(b1), len(b2), len(ref)), nil)

		return nil, false
	}

	c.r.Outcome("write:ok")
	c.r.Sample(map[string]any{"list_item_sizes": c29descSizes(m), "encoded_bytes": len(b1)})

	return b1, true
}

// bufSlice runs ReadLengthedBytesSlice on b and compares with the reference
// parse of exactly b. written: b is known to be an accepted writer output (+ trailing).
func (c *c29) bufSlice(id string, b []byte, written bool) {
	if !c.begin(id) {
		return
	}

	c.r.Trace()

	var m [][]byte
	var left []byte
	var err error

	if !c.guard(id, "ReadLengthedBytesSlice", func() { m, left, err = ReadLengthedBytesSlice(b) }) {
		return
	}

	ritems, rleft, rok := c29refSlice(b)

	var count uint64
	if len(b) >= 8 {
		count = binary.BigEndian.Uint64(b[:8])
	}

	rp := map[string]any{"id": id, "hex_prefix": fmt.Sprintf("%x", b[:min(len(b), 48)]), "len": len(b)}

	switch {
	case err == nil && !rok:
		c.vio(id, map[string]any{"kind": "success-on-malformed", "api": "ReadLengthedBytesSlice", "count": c29countClass(count)},
			fmt.Sprintf("ReadLengthedBytesSlice(%d bytes, announced count %d) = %d items, %d left, nil error; the bytes are not a complete lengthed slice", len(b), count, len(m), len(left)), rp)
	case err == nil && (!c29sameList(m, ritems) || !bytes.Equal(left, rleft)):
		c.vio(id, map[string]any{"kind": "success-wrong-data", "api": "ReadLengthedBytesSlice", "count": c29countClass(count)},
			fmt.Sprintf("ReadLengthedBytesSlice(%d bytes, announced count %d) = %s left=%d bytes, nil error; reference parse = %s left=%d bytes",
				len(b), count, c29descList(m), len(left), c29descList(ritems), len(rleft)), rp)
	case err != nil && rok && (written || count <= maxLengthBytes):
		// a reader may refuse more than maxLengthBytes items only when the
		// bytes were not produced by an accepting writer
		c.vio(id, map[string]any{"kind": "error-on-wellformed", "api": "ReadLengthedBytesSlice", "count": c29countClass(count), "written": written},
			fmt.Sprintf("ReadLengthedBytesSlice(%d bytes, announced count %d) error %q; reference parse = %s", len(b), count, err, c29descList(ritems)), rp)
	case err != nil && rok:
		c.r.Outcome("buf:refused-over-count-limit")
	case err != nil:
		c.r.Outcome("buf:error")
	default:
		c.r.Outcome("buf:ok")
	}
}

// streamSlice runs ReadLengthedSlice over a chunked stream of b.
func (c *c29) streamSlice(id string, b []byte, cuts []int, eofWithData, written bool) {
	if !c.begin(id) {
		return
	}

	c.r.Trace()

	cr := &c29chunks{b: b, cuts: cuts, eofWithData: eofWithData}

	var read uint64
	var m [][]byte
	var err error

	if !c.guard(id, "ReadLengthedSlice", func() { read, m, err = ReadLengthedSlice(cr) }) {
		return
	}

	c.r.Add("stream_reads", int64(cr.reads))

	ritems, rleft, rok := c29refSlice(b)

	var count uint64
	if len(b) >= 8 {
		count = binary.BigEndian.Uint64(b[:8])
	}

	consumed := len(b) - len(rleft)
	rp := map[string]any{"id": id, "hex_prefix": fmt.Sprintf("%x", b[:min(len(b), 48)]), "len": len(b), "cuts": c29cutsID(cuts), "eof_with_data": eofWithData}
	chunking := "cuts"

	switch {
	case cuts == nil:
		chunking = "whole"
	case len(cuts) > 0 && cuts[0] < 8:
		chunking = "cut-inside-count"
	}

	switch {
	case err == nil && !rok:
		c.vio(id, map[string]any{"kind": "success-on-malformed", "api": "ReadLengthedSlice", "count": c29countClass(count)},
			fmt.Sprintf("ReadLengthedSlice(stream of %d bytes, announced count %d, cuts %s) = %d items, nil error; the stream is not a complete lengthed slice", len(b), count, c29cutsID(cuts), len(m)), rp)
	case err == nil && (!c29sameList(m, ritems) || cr.pos != consumed || read != uint64(consumed)):
		c.vio(id, map[string]any{"kind": "success-wrong-data", "api": "ReadLengthedSlice", "count": c29countClass(count), "chunking": chunking},
			fmt.Sprintf("ReadLengthedSlice(stream of %d bytes, cuts %s, eofWithData=%v) = %s, read=%d, consumed=%d; reference parse = %s consuming %d",
				len(b), c29cutsID(cuts), eofWithData, c29descList(m), read, cr.pos, c29descList(ritems), consumed), rp)
	case err != nil && rok && (written || count <= maxLengthBytes):
		c.vio(id, map[string]any{"kind": "error-on-wellformed", "api": "ReadLengthedSlice", "count": c29countClass(count), "written": written, "chunking": chunking},
			fmt.Sprintf("ReadLengthedSlice(stream of %d bytes, announced count %d, cuts %s, eofWithData=%v) error %q; reference parse = %s",
				len(b), count, c29cutsID(cuts), eofWithData, err, c29descList(ritems)), rp)
	case err != nil && rok:
		c.r.Outcome("stream:refused-over-count-limit")
	case err != nil:
		c.r.Outcome("stream:error")
	default:
		c.r.Outcome("stream:ok")
	}
}

// one lengthed item: ReadLengthedBytes (buffer) and ReadLengthed (stream)
func (c *c29) bufItem(id string, b []byte) {
	if !c.begin(id) {
		return
	}

	c.r.Trace()

	var it, left []byte
	var err error

	if !c.guard(id, "ReadLengthedBytes", func() { it, left, err = ReadLengthedBytes(b) }) {
		return
	}

	rit, rleft, rok := c29refLengthed(b)
	rp := map[string]any{"id": id, "hex_prefix": fmt.Sprintf("%x", b[:min(len(b), 48)]), "len": len(b)}

	switch {
	case err == nil && !rok:
		c.vio(id, map[string]any{"kind": "success-on-malformed", "api": "ReadLengthedBytes"},
			fmt.Sprintf("ReadLengthedBytes(%d bytes) = %d bytes, nil error; truncated input", len(b), len(it)), rp)
	case err == nil && (!bytes.Equal(it, rit) || !bytes.Equal(left, rleft)):
		c.vio(id, map[string]any{"kind": "success-wrong-data", "api": "ReadLengthedBytes"},
			fmt.Sprintf("ReadLengthedBytes(%d bytes) = %x left %x; reference %x left %x", len(b), it, left, rit, rleft), rp)
	case err != nil && rok:
		c.vio(id, map[string]any{"kind": "error-on-wellformed", "api": "ReadLengthedBytes"},
			fmt.Sprintf("ReadLengthedBytes(%d bytes) error %q; reference parse = %d bytes, %d left", len(b), err, len(rit), len(rleft)), rp)
	case err != nil:
		c.r.Outcome("bufitem:error")
	default:
		c.r.Outcome("bufitem:ok")
	}
}

func (c *c29) streamItem(id string, b []byte, cuts []int, eofWithData bool) {
	if !c.begin(id) {
		return
	}

	c.r.Trace()

	cr := &c29chunks{b: b, cuts: cuts, eofWithData: eofWithData}

	var read uint64
	var it []byte
	var err error

	if !c.guard(id, "ReadLengthed", func() { read, it, err = ReadLengthed(cr) }) {
		return
	}

	rit, rleft, rok := c29refLengthed(b)
	consumed := len(b) - len(rleft)
	rp := map[string]any{"id": id, "hex_prefix": fmt.Sprintf("%x", b[:min(len(b), 48)]), "len": len(b), "cuts": c29cutsID(cuts), "eof_with_data": eofWithData}
	// ReadLengthed hands io.EOF through when the last byte arrives with it; that
	// is a success for its callers (they test errors.Is(err, io.EOF))
	success := err == nil || errors.Is(err, io.EOF)

	switch {
	case success && !rok:
		c.vio(id, map[string]any{"kind": "success-on-malformed", "api": "ReadLengthed"},
			fmt.Sprintf("ReadLengthed(stream of %d bytes, cuts %s) = %d bytes, err=%v; truncated input", len(b), c29cutsID(cuts), len(it), err), rp)
	case success && (!bytes.Equal(it, rit) || cr.pos != consumed || read != uint64(consumed)):
		c.vio(id, map[string]any{"kind": "success-wrong-data", "api": "ReadLengthed"},
			fmt.Sprintf("ReadLengthed(stream of %d bytes, cuts %s) = %x read=%d consumed=%d; reference %x consuming %d", len(b), c29cutsID(cuts), it, read, cr.pos, rit, consumed), rp)
	case !success && rok:
		c.vio(id, map[string]any{"kind": "error-on-wellformed", "api": "ReadLengthed"},
			fmt.Sprintf("ReadLengthed(stream of %d bytes, cuts %s, eofWithData=%v) error %q; reference parse = %d bytes", len(b), c29cutsID(cuts), eofWithData, err, len(rit)), rp)
	case !success:
		c.r.Outcome("streamitem:error")
	default:
		c.r.Outcome("streamitem:ok")
	}
}

// ---------------------------------------------------------------- frames

type c29frame struct {
	header [][]byte
	kind   string   // "none", "lengthed", "raw"
	bodies [][]byte // lengthed bodies, or one raw body
}

func (f c29frame) id() string {
	s := make([]string, len(f.bodies))
	for i := range f.bodies {
		s[i] = strconv.Itoa(len(f.bodies[i]))
	}

	return fmt.Sprintf("h=%s/body=%s:%s", c29sizesID(f.header), f.kind, strings.Join(s, ","))
}

func c29descSizes(m [][]byte) string {
	if len(m) > 6 {
		return fmt.Sprintf("%d items", len(m))
	}

	return c29sizesID(m)
}

func c29sizesID(m [][]byte) string {
	s := make([]string, len(m))
	for i := range m {
		s[i] = strconv.Itoa(len(m[i]))
	}

	return "(" + strings.Join(s, ",") + ")"
}

func (c *c29) writeFrame(id string, f c29frame) ([]byte, bool) {
	var out []byte
	var werr error

	if !c.guard(id, "BytesFrameWriter", func() {
		fw, buf := NewBufferBytesFrameWriter()

		if werr = fw.Header(f.header...); werr != nil {
			return
		}

		switch f.kind {
		case "lengthed":
			for i := range f.bodies {
				if werr = fw.Lengthed(f.bodies[i]); werr != nil {
					return
				}
			}
		case "raw":
			if _, werr = fw.Writer().Write(f.bodies[0]); werr != nil {
				return
			}
		}

		out = bytes.Clone(buf.Bytes())
	}) {
		return nil, false
	}

	if werr != nil {
		if len(f.header) > maxLengthBytes {
			c.r.Outcome("framewrite:refused-over-count-limit")

			return nil, false
		}

		c.vio(id, map[string]any{"kind": "writer-refuses-valid-list", "api": "BytesFrameWriter.Header"},
			fmt.Sprintf("BytesFrameWriter refused %s: %v", f.id(), werr), nil)

		return nil, false
	}

	// reference encoding
	var ref bytes.Buffer

	ref.Write([]byte{0, 0})
	ref.Write(c29refEncodeSlice(f.header))

	switch f.kind {
	case "lengthed":
		for i := range f.bodies {
			ref.Write(c29u64(uint64(len(f.bodies[i]))))
			ref.Write(f.bodies[i])
		}
	case "raw":
		ref.Write(f.bodies[0])
	}

	if !bytes.Equal(out, ref.Bytes()) {
		c.vio(id, map[string]any{"kind": "writer-wrong-bytes", "api": "BytesFrameWriter"},
			fmt.Sprintf("frame %s encodes to %x, reference %x", f.id(), out, ref.Bytes()), nil)

		return nil, false
	}

	return out, true
}

// c29refFrame: how many of the steps [version, header, lengthed bodies...] are
// completely present in b, and their values.
func c29refFrame(b []byte, nlengthed int) (steps int, header [][]byte, bodies [][]byte, rest []byte) {
	if len(b) < 2 {
		return 0, nil, nil, nil
	}

	steps = 1

	h, left, ok := c29refSlice(b[2:])
	if !ok {
		return steps, nil, nil, nil
	}

	steps++
	header = h

	for i := 0; i < nlengthed; i++ {
		var it []byte

		if it, left, ok = c29refLengthed(left); !ok {
			return steps, header, bodies, nil
		}

		steps++

		bodies = append(bodies, it)
	}

	return steps, header, bodies, left
}

// readFrame drives the real reader over b (a whole or truncated frame).
// mode: "header" = Header() then bodies; "skip" = bodies directly (exhaustHeader).
func (c *c29) readFrame(id string, f c29frame, b []byte, cuts []int, eofWithData bool, mode string, full bool) {
	if !c.begin(id) {
		return
	}

	c.r.Trace()

	nl := 0
	if f.kind == "lengthed" {
		nl = len(f.bodies)
	}

	wantSteps := 2 + nl // version, header, lengthed bodies
	rsteps, rheader, rbodies, rrest := c29refFrame(b, nl)

	firstChunk := len(b)
	if len(cuts) > 0 {
		firstChunk = cuts[0]
	}

	firstClass := "first-read>=2"
	if firstChunk < 2 && len(b) >= 2 {
		firstClass = "first-read-1-of-2-version-bytes"
	}

	rp := map[string]any{"id": id, "hex": fmt.Sprintf("%x", b[:min(len(b), 64)]), "cuts": c29cutsID(cuts), "eof_with_data": eofWithData, "mode": mode}

	var gotErrAt = -1
	var errText string
	var mism string
	var version [2]byte
	var raw []byte
	var rawRead bool

	if !c.guard(id, "BytesFrameReader", func() {
		cr := &c29chunks{b: b, cuts: cuts, eofWithData: eofWithData}

		fr, err := NewBytesFrameReader(cr)
		if err != nil {
			gotErrAt, errText = 0, err.Error()

			return
		}

		version = fr.Version()

		if mode == "header" {
			hs, err := fr.Header()
			if err != nil {
				gotErrAt, errText = 1, err.Error()

				return
			}

			if rsteps >= 2 && !c29sameList(hs, rheader) {
				mism = fmt.Sprintf("Header() = %s, reference %s", c29descList(hs), c29descList(rheader))

				return
			}

			if rsteps < 2 {
				mism = fmt.Sprintf("Header() = %s, nil error, but the header is not completely present", c29descList(hs))

				return
			}
		}

		for i := 0; i < nl; i++ {
			var got []byte
			var called bool

			if err := fr.Lengthed(func(x []byte) error { got, called = x, true; return nil }); err != nil {
				gotErrAt, errText = 2+i, err.Error()

				return
			}

			switch {
			case rsteps < 3+i:
				mism = fmt.Sprintf("Lengthed() #%d = %x (callback called=%v), nil error, but that body is not completely present", i, got, called)

				return
			case !called || !bytes.Equal(got, rbodies[i]):
				mism = fmt.Sprintf("Lengthed() #%d = %x (callback called=%v), reference %x", i, got, called, rbodies[i])

				return
			}
		}

		if f.kind != "lengthed" && full {
			// raw / no body: everything after the header, to the end
			x, err := fr.Body()
			if err != nil {
				gotErrAt, errText = wantSteps, err.Error()

				return
			}

			raw, rawRead = x, true
		}
	}) {
		return
	}

	sig := func(kind string) map[string]any {
		return map[string]any{"kind": kind, "api": "BytesFrameReader", "first_read": firstClass, "header_count": c29countClass(uint64(len(f.header)))}
	}

	what := fmt.Sprintf("frame %s, %d bytes given, cuts %s, eofWithData=%v, mode %s", f.id(), len(b), c29cutsID(cuts[:min(len(cuts), 8)]), eofWithData, mode)

	switch {
	case mism != "":
		c.vio(id, sig("frame-success-wrong-data"), what+": "+mism, rp)
	case gotErrAt >= 0 && rsteps >= wantSteps:
		c.vio(id, sig("frame-error-on-wellformed"),
			fmt.Sprintf("%s: step %d failed with %q although the frame is complete", what, gotErrAt, errText), rp)
	case gotErrAt >= 0 && gotErrAt < rsteps:
		c.vio(id, sig("frame-error-on-wellformed"),
			fmt.Sprintf("%s: step %d failed with %q although the first %d parts are completely present", what, gotErrAt, errText, rsteps), rp)
	case gotErrAt >= 0:
		c.r.Outcome("frame:error")
	case rsteps < wantSteps:
		// every executed step succeeded on a truncated frame
		c.vio(id, sig("frame-success-on-truncated"),
			fmt.Sprintf("%s: every read step succeeded (version %x) although only %d of %d parts are present", what, version, rsteps, wantSteps), rp)
	default:
		if version != [2]byte{0, 0} {
			c.vio(id, sig("frame-success-wrong-data"), fmt.Sprintf("%s: version %x", what, version), rp)

			return
		}

		if rawRead && !bytes.Equal(raw, rrest) {
			c.vio(id, sig("frame-success-wrong-data"), fmt.Sprintf("%s: Body() = %x, reference %x", what, raw, rrest), rp)

			return
		}

		c.r.Outcome("frame:ok")
	}
}

// noHeaders: the version-only reader used for header-less records.
func (c *c29) noHeadersFrame(id string, b []byte) {
	if !c.begin(id) {
		return
	}

	c.r.Trace()

	var err error
	var body []byte
	var version [2]byte

	if !c.guard(id, "NewBufferBytesNoHeadersFrameReader", func() {
		var fr *BytesFrameReader

		if fr, _, err = NewBufferBytesNoHeadersFrameReader(b); err != nil {
			return
		}

		version = fr.Version()
		body, err = fr.Body()
	}) {
		return
	}

	rp := map[string]any{"id": id, "hex": fmt.Sprintf("%x", b)}

	switch {
	case len(b) < 2 && err == nil:
		c.vio(id, map[string]any{"kind": "frame-success-on-truncated", "api": "NewBufferBytesNoHeadersFrameReader", "first_read": "version-incomplete", "mode": "noheaders"},
			fmt.Sprintf("header-less frame of %d bytes (%x): version %x and body %x returned with nil error although the 2 version bytes are not present", len(b), b, version, body), rp)
	case len(b) >= 2 && err != nil:
		c.vio(id, map[string]any{"kind": "frame-error-on-wellformed", "api": "NewBufferBytesNoHeadersFrameReader", "mode": "noheaders"},
			fmt.Sprintf("header-less frame %x: error %q", b, err), rp)
	case len(b) >= 2 && (!bytes.Equal(body, b[2:]) || version != [2]byte{b[0], b[1]}):
		c.vio(id, map[string]any{"kind": "frame-success-wrong-data", "api": "NewBufferBytesNoHeadersFrameReader", "mode": "noheaders"},
			fmt.Sprintf("header-less frame %x: version %x body %x", b, version, body), rp)
	case err != nil:
		c.r.Outcome("frame:error")
	default:
		c.r.Outcome("frame:ok")
	}
}

// ---------------------------------------------------------------- enumeration

func c29item(idx, size int) []byte {
	b := make([]byte, size)
	for i := range b {
		b[i] = byte(0xa1 + 16*idx + i)
	}

	return b
}

// all lists of <= maxItems items with sizes from the given set
func c29smallLists(maxItems int, sizes []int) [][][]byte {
	var out [][][]byte

	var rec func(cur []int)

	rec = func(cur []int) {
		m := make([][]byte, len(cur))
		for i := range cur {
			m[i] = c29item(i, cur[i])
		}

		out = append(out, m)

		if len(cur) == maxItems {
			return
		}

		for _, s := range sizes {
			rec(append(append([]int(nil), cur...), s))
		}
	}

	rec(nil)

	return out
}

func c29big(size int, fill byte) []byte {
	b := make([]byte, size)
	for i := range b {
		b[i] = fill + byte(i%251)
	}

	return b
}

func TestVerifC29(t *testing.T) {
	r := vlib.Start("C29")
	defer r.Finish()

	c := &c29{r: r, t: t}

	maxItems := vlib.Pick(r, 3, 4)
	sizes := vlib.Pick(r, []int{0, 1, 2}, []int{0, 1, 2, 3})
	cut3Max := vlib.Pick(r, 24, 34)  // streams up to this many bytes: every chunking with <= 3 cut points
	cut2Max := vlib.Pick(r, 48, 64)  // streams up to this many bytes: every chunking with <= 2 cut points
	flipMax := 64                    // encodings up to this many bytes: every single-bit flip and 0xff flip of every byte
	frameCut3Max := vlib.Pick(r, 24, 30)

	r.Rule("inputs: every list of <= maxItems items with item sizes from `sizes` (small lists) plus boundary lists (item counts 32766/32767/32768/40000, item sizes 255/65535/65536); " +
		"per list: write, buffer read (+trailing bytes), every truncation, every single-bit and 0xff flip of every byte (encodings <= 64 bytes), stream read under every chunking with <= 3 cut points (streams <= cut3Max bytes) or <= 2 cut points (<= cut2Max) plus all-1-byte chunks, both EOF conventions; " +
		"frames: header list x body kind {none, lengthed x1/x2, raw} likewise; hostile announced counts/lengths over short buffers. " +
		"a case is one (input bytes, API, chunking); non-trivial = the input is truncated/flipped/hostile or delivered in more than one chunk")
	r.Assume("the reference parser in the harness is the meaning of the format (8-byte big-endian lengths, strict)")
	r.Assume("readers may refuse more than maxLengthBytes (32767) items only if no writer accepted that list; item sizes above 65536 bytes and lists above 40000 items are not enumerated")
	r.Assume("io.Reader implementations that return (0,nil) or data after io.EOF are not enumerated")
	r.Set("max_items_small", maxItems)
	r.Set("item_sizes_small", sizes)
	r.Set("cut3_max_bytes", cut3Max)
	r.Set("cut2_max_bytes", cut2Max)
	r.Set("flip_max_bytes", flipMax)
	r.Set("boundary_counts", []int{32766, 32767, 32768, 40000})
	r.Set("boundary_item_sizes", []int{255, 65535, 65536})

	lists := c29smallLists(maxItems, sizes)
	r.Set("small_lists", len(lists))

	var work []func()

	add := func(f func()) { work = append(work, f) }

	// ---- small lists: buffer
	for li := range lists {
		m := lists[li]
		lid := "small/" + c29sizesID(m)

		add(func() {
			enc, ok := c.write(lid+"/write", m)
			if !ok {
				return
			}

			r.State(lid)
			c.bufSlice(lid+"/buf", enc, true)

			for _, tr := range [][]byte{{0x5a}, c29u64(0), {0, 0, 0, 0, 0, 0, 0, 1, 0x77}} {
				c.bufSlice(fmt.Sprintf("%s/buf+trail%d", lid, len(tr)), append(bytes.Clone(enc), tr...), true)
			}

			for k := 0; k < len(enc); k++ {
				id := fmt.Sprintf("%s/buf/trunc=%d", lid, k)
				r.Nontrivial(id)
				c.bufSlice(id, enc[:k], false)
			}

			if len(enc) <= flipMax {
				for p := 0; p < len(enc); p++ {
					for _, mask := range []byte{1, 2, 4, 8, 16, 32, 64, 128, 255} {
						id := fmt.Sprintf("%s/buf/flip=%d:%02x", lid, p, mask)
						r.Nontrivial(id)

						x := bytes.Clone(enc)
						x[p] ^= mask
						c.bufSlice(id, x, false)
					}
				}
			}
		})
	}

	// ---- small lists: stream
	for li := range lists {
		m := lists[li]
		lid := "small/" + c29sizesID(m)

		add(func() {
			enc := c29refEncodeSlice(m)

			k := 1
			switch {
			case len(enc) <= cut3Max:
				k = 3
			case len(enc) <= cut2Max:
				k = 2
			}

			r.Max("max_cut_points", int64(k))

			for _, trail := range []int{0, 3} {
				s := enc
				if trail > 0 {
					s = append(bytes.Clone(enc), 0xee, 0x00, 0x01)
				}

				for _, ewd := range []bool{false, true} {
					c29eachChunking(len(s), k, func(cuts []int) {
						id := fmt.Sprintf("%s/stream+%d/cuts=%s/eofwd=%v", lid, trail, c29cutsID(cuts), ewd)
						if cuts != nil {
							r.Nontrivial(id)
						}

						c.streamSlice(id, s, cuts, ewd, true)
					})
				}
			}

			// truncated streams: whole, every single cut, all-1-byte
			for tk := 0; tk < len(enc); tk++ {
				for _, ewd := range []bool{false, true} {
					c29eachChunking(tk, 1, func(cuts []int) {
						id := fmt.Sprintf("%s/stream/trunc=%d/cuts=%s/eofwd=%v", lid, tk, c29cutsID(cuts), ewd)
						r.Nontrivial(id)
						c.streamSlice(id, enc[:tk], cuts, ewd, false)
					})
				}
			}

			// flipped streams, delivered whole and in 1-byte chunks
			if len(enc) <= flipMax {
				for p := 0; p < len(enc); p++ {
					for _, mask := range []byte{1, 128, 255} {
						x := bytes.Clone(enc)
						x[p] ^= mask

						// ReadLengthed allocates the announced item length (up to
						// maxLengthedBytes = 2 GiB) before reading, once per Read call;
						// announced lengths in (64 KiB, 1 MiB] are delivered whole only;
						// flips announcing (1 MiB, 2 GiB] are skipped here (lengths of
						// 16 MiB and 64 MiB are exercised once each in the item section)
						if l := c29announced(x); l > 1<<16 && l <= maxLengthedBytes {
							if l > 1<<20 {
								r.Add("stream_flips_skipped_announced_over_1MiB", 1)

								continue
							}

							id := fmt.Sprintf("%s/stream/flip=%d:%02x/whole", lid, p, mask)
							r.Nontrivial(id)
							c.streamSlice(id, x, nil, false, false)

							continue
						}

						for _, cuts := range c29distinct(nil, c29fixedChunks(len(x), 1)) {
							id := fmt.Sprintf("%s/stream/flip=%d:%02x/cuts=%s", lid, p, mask, c29cutsID(cuts))
							r.Nontrivial(id)
							c.streamSlice(id, x, cuts, true, false)
						}
					}
				}
			}
		})
	}

	// ---- single lengthed items
	for _, size := range []int{0, 1, 2, 9, 255} {
		size := size

		add(func() {
			it := c29big(size, 0x30)
			enc := append(c29u64(uint64(size)), it...)
			lid := fmt.Sprintf("item/%d", size)

			var w bytes.Buffer

			if err := WriteLengthed(&w, it); err != nil || !bytes.Equal(w.Bytes(), enc) {
				c.vio(lid+"/write", map[string]any{"kind": "writer-wrong-bytes", "api": "WriteLengthed"}, fmt.Sprintf("WriteLengthed(%d bytes): err=%v, %d bytes written", size, err, w.Len()), nil)

				return
			}

			r.State(lid)
			c.bufItem(lid+"/buf", enc)
			c.bufItem(lid+"/buf+trail", append(bytes.Clone(enc), 1, 2, 3))

			for k := 0; k < len(enc); k++ {
				id := fmt.Sprintf("%s/buf/trunc=%d", lid, k)
				r.Nontrivial(id)
				c.bufItem(id, enc[:k])
			}

			kk := 2
			if len(enc) <= cut3Max {
				kk = 3
			}

			if len(enc) > cut2Max {
				kk = 1
			}

			for _, ewd := range []bool{false, true} {
				c29eachChunking(len(enc), kk, func(cuts []int) {
					id := fmt.Sprintf("%s/stream/cuts=%s/eofwd=%v", lid, c29cutsID(cuts), ewd)
					if cuts != nil {
						r.Nontrivial(id)
					}

					c.streamItem(id, enc, cuts, ewd)
				})

				for k := 0; k < len(enc); k++ {
					for _, cuts := range c29distinct(nil, c29fixedChunks(k, 1)) {
						id := fmt.Sprintf("%s/stream/trunc=%d/cuts=%s/eofwd=%v", lid, k, c29cutsID(cuts), ewd)
						r.Nontrivial(id)
						c.streamItem(id, enc[:k], cuts, ewd)
					}
				}
			}

			// hostile announced lengths over a short buffer / stream
			for _, l := range []uint64{uint64(size) + 1, 1 << 16, 1 << 24, 1 << 26, 1 << 31, 1 << 62, 1<<64 - 1, 1<<64 - 8, 1<<64 - 9} {
				x := append(c29u64(l), it...)
				id := fmt.Sprintf("%s/buf/hostile-len=%d", lid, l)
				r.Nontrivial(id)
				c.bufItem(id, x)

				if l > maxLengthedBytes || l <= 1<<16 || size == 9 { // allocations above 64 KiB are provoked for one item only
					id := fmt.Sprintf("%s/stream/hostile-len=%d", lid, l)
					r.Nontrivial(id)
					c.streamItem(id, x, nil, false)
				}
			}
		})
	}

	// ---- boundary lists
	type bl struct {
		name string
		m    func() [][]byte
	}

	var bls []bl

	for _, n := range []int{32766, 32767, 32768, 40000} {
		n := n

		bls = append(bls, bl{fmt.Sprintf("count=%d/empty-items", n), func() [][]byte { return make([][]byte, n) }})
	}

	bls = append(bls,
		bl{"count=32767/1-byte-items", func() [][]byte {
			m := make([][]byte, 32767)
			for i := range m {
				m[i] = []byte{byte(i)}
			}

			return m
		}},
		bl{"count=32768/1-byte-items", func() [][]byte {
			m := make([][]byte, 32768)
			for i := range m {
				m[i] = []byte{byte(i)}
			}

			return m
		}},
	)

	for _, s := range []int{255, 65535, 65536} {
		s := s

		bls = append(bls,
			bl{fmt.Sprintf("sizes=(%d)", s), func() [][]byte { return [][]byte{c29big(s, 1)} }},
			bl{fmt.Sprintf("sizes=(%d,0)", s), func() [][]byte { return [][]byte{c29big(s, 2), nil} }},
			bl{fmt.Sprintf("sizes=(1,%d)", s), func() [][]byte { return [][]byte{{9}, c29big(s, 3)} }},
		)
	}

	for i := range bls {
		b := bls[i]
		lid := "boundary/" + b.name

		add(func() {
			m := b.m()

			r.State(lid)

			enc, ok := c.write(lid+"/write", m)
			if ok {
				c.bufSlice(lid+"/buf", enc, true)
				c.bufSlice(lid+"/buf+trail", append(bytes.Clone(enc), 7, 7, 7), true)

				type spec struct {
					name string
					cuts []int
				}

				specs := []spec{{"whole", nil}, {"at=3.8.15.16.17", []int{3, 8, 15, 16, 17}}, {"every=7", c29fixedChunks(len(enc), 7)}, {"every=4096", c29fixedChunks(len(enc), 4096)}}
				for _, p := range []int{1, 7, 8, 9, 16, 17, len(enc) - 1} {
					specs = append(specs, spec{fmt.Sprintf("at=%d", p), []int{p}})
				}

				for _, ewd := range []bool{false, true} {
					for _, sp := range specs {
						id := fmt.Sprintf("%s/stream/%s/eofwd=%v", lid, sp.name, ewd)
						r.Nontrivial(id)
						c.streamSlice(id, enc, sp.cuts, ewd, true)
					}
				}

				// the same list as a frame header
				f := c29frame{header: m, kind: "lengthed", bodies: [][]byte{{1, 2}}}
				if fb, ok := c.writeFrame(lid+"/frame/write", f); ok {
					c.readFrame(lid+"/frame/whole", f, fb, nil, false, "header", true)
					c.readFrame(lid+"/frame/skip-every4096", f, fb, c29fixedChunks(len(fb), 4096), true, "skip", true)
				}
			}

			// the reference encoding as hostile / foreign input (the reader must
			// fail or parse it exactly), and truncations at structural boundaries +-1
			ref := c29refEncodeSlice(m)

			if !ok {
				c.bufSlice(lid+"/foreign/buf", ref, false)
				c.streamSlice(lid+"/foreign/stream", ref, nil, false, false)
			}

			bounds := map[int]struct{}{}

			off := 8
			for i := range m {
				if i < 2 || i >= len(m)-2 || i == len(m)/2 {
					for _, p := range []int{off, off + 8, off + 8 + len(m[i])} {
						for d := -1; d <= 1; d++ {
							if q := p + d; q >= 0 && q < len(ref) {
								bounds[q] = struct{}{}
							}
						}
					}
				}

				off += 8 + len(m[i])
			}

			for _, q := range []int{0, 1, 7, 8, 9} {
				bounds[q] = struct{}{}
			}

			ks := make([]int, 0, len(bounds))
			for q := range bounds {
				ks = append(ks, q)
			}

			sort.Ints(ks)

			for _, q := range ks {
				id := fmt.Sprintf("%s/buf/trunc=%d", lid, q)
				r.Nontrivial(id)
				c.bufSlice(id, ref[:q], false)

				id = fmt.Sprintf("%s/stream/trunc=%d", lid, q)
				r.Nontrivial(id)
				c.streamSlice(id, ref[:q], nil, q%2 == 0, false)
			}
		})
	}

	// ---- hostile announced counts over short inputs
	add(func() {
		for _, n := range []uint64{1, 2, 32767, 32768, 65535, 1 << 31, 1 << 32, 1 << 63, 1<<64 - 1} {
			for _, tail := range [][]byte{nil, c29u64(0), append(c29u64(1), 0x41), bytes.Repeat(c29u64(0), 3)} {
				x := append(c29u64(n), tail...)
				id := fmt.Sprintf("hostile/count=%d/tail=%d", n, len(tail))
				r.Nontrivial(id)
				r.State(id)
				c.bufSlice(id+"/buf", x, false)

				c.streamSlice(id+"/stream", x, nil, false, false)
				c.streamSlice(id+"/stream/1byte", x, c29fixedChunks(len(x), 1), true, false)
			}
		}
	})

	// ---- frames
	var frames []c29frame

	hlists := c29smallLists(2, []int{0, 1, 2})
	for _, h := range hlists {
		frames = append(frames,
			c29frame{header: h, kind: "none"},
			c29frame{header: h, kind: "lengthed", bodies: [][]byte{nil}},
			c29frame{header: h, kind: "lengthed", bodies: [][]byte{{0xb1, 0xb2}}},
			c29frame{header: h, kind: "lengthed", bodies: [][]byte{{0xc1}, nil}},
			c29frame{header: h, kind: "raw", bodies: [][]byte{{0xd1, 0xd2}}},
		)
	}

	r.Set("frames", len(frames))

	for fi := range frames {
		f := frames[fi]
		lid := "frame/" + f.id()

		add(func() {
			fb, ok := c.writeFrame(lid+"/write", f)
			if !ok {
				return
			}

			r.State(lid)

			k := 1
			switch {
			case len(fb) <= frameCut3Max:
				k = 3
			case len(fb) <= cut2Max:
				k = 2
			}

			for _, mode := range []string{"header", "skip"} {
				for _, ewd := range []bool{false, true} {
					c29eachChunking(len(fb), k, func(cuts []int) {
						id := fmt.Sprintf("%s/%s/cuts=%s/eofwd=%v", lid, mode, c29cutsID(cuts), ewd)
						if cuts != nil {
							r.Nontrivial(id)
						}

						c.readFrame(id, f, fb, cuts, ewd, mode, true)
					})
				}
			}

			// truncations (only frames whose completeness is decidable: lengthed bodies)
			if f.kind == "lengthed" {
				for tk := 0; tk < len(fb); tk++ {
					for _, mode := range []string{"header", "skip"} {
						for _, cuts := range c29distinct(nil, c29fixedChunks(tk, 1), c29fixedChunks(tk, 2)) {
							id := fmt.Sprintf("%s/%s/trunc=%d/cuts=%s", lid, mode, tk, c29cutsID(cuts))
							r.Nontrivial(id)
							c.readFrame(id, f, fb[:tk], cuts, tk%2 == 0, mode, false)
						}
					}
				}
			}

			if f.kind == "raw" && len(f.header) == 0 {
				// the header-less record reader over the version + raw body part
				rec := append([]byte{0, 0}, f.bodies[0]...)
				for tk := 0; tk <= len(rec); tk++ {
					id := fmt.Sprintf("%s/noheaders/len=%d", lid, tk)
					r.Nontrivial(id)
					c.noHeadersFrame(id, rec[:tk])
				}
			}
		})
	}

	r.Set("work_items", len(work))

	for i := range work {
		if !r.Mine(i) {
			continue
		}

		if r.Expired() {
			break
		}

		work[i]()
	}

	if r.Violations() == 0 {
		r.Outcome("no-violation-in-shard")
	}
}
