//go:build verif

package base

import (
	"context"
	"fmt"
	"sort"
	"strings"
	"testing"

	"github.com/spikeekips/mitum/util"
	"github.com/spikeekips/mitum/util/valuehash"
	"github.com/spikeekips/mitum/zzverif/vlib"
)

// C14: BatchIsValidMaps (through util.BatchWork and IsValidMaps) returns nil
// exactly when, for every requested height h in (prev, to], the map fetched for
// h is a map of height h whose manifest points to the hash of the map fetched
// for h-1 (for the first height: to the given previous map; nothing to point to
// when there is no previous map) -- for every batch limit and every order in
// which the maps of one batch reach the validation.
//
// The real BatchIsValidMaps runs with its real goroutines. Only the ARRIVAL
// ORDER is controlled: the blockMapf callback given to it parks every job of a
// batch until all jobs of that batch are in flight, then the coordinator
// releases them one by one in the chosen permutation and waits for the released
// job to leave the validation (its callback(m) call, or the whole call
// returning with the error). So the sequence in which maps enter the
// validateLock critical section is exactly the enumerated permutation.

type c14Break struct {
	kind string
	i, j int
}

func (b c14Break) String() string {
	switch b.kind {
	case "none":
		return "none"
	case "other-height", "swap", "height-shift":
		return fmt.Sprintf("%s@%d:%d", b.kind, b.i, b.j)
	default:
		return fmt.Sprintf("%s@%d", b.kind, b.i)
	}
}

func c14Map(height Height, hash, previous util.Hash) BlockMap {
	m := NewDummyManifest(height, hash)
	m.SetPrevious(previous)

	return DummyBlockMap{M: m}
}

func c14Hash(chain string, i int) util.Hash {
	return valuehash.NewSHA256([]byte(fmt.Sprintf("c14-%s-%d", chain, i)))
}

// c14Answers builds the previous map (nil when start < 0) and the answer of the
// remote for every requested height start+1 .. start+n.
func c14Answers(start Height, n int, b c14Break) (BlockMap, []BlockMap) {
	// main chain, positions -1 (the previous map) .. n (one beyond the range)
	main := make([]BlockMap, n+2)
	at := func(pos int) BlockMap { return main[pos+1] }

	for pos := -1; pos <= n; pos++ {
		h := start + 1 + Height(pos)
		if h < GenesisHeight {
			continue
		}

		var previous util.Hash
		if h > GenesisHeight {
			previous = c14Hash("main", int(h)-1)
		}

		main[pos+1] = c14Map(h, c14Hash("main", int(h)), previous)
	}

	answers := make([]BlockMap, n)
	for i := range answers {
		answers[i] = at(i)
	}

	prevhash := func(i int) util.Hash { // hash of the answer below position i
		switch {
		case i > 0:
			return answers[i-1].Manifest().Hash()
		case at(-1) != nil:
			return at(-1).Manifest().Hash()
		default:
			return nil
		}
	}

	height := func(i int) Height { return start + 1 + Height(i) }

	relink := func(from int) { // alternative suffix that is linked consistently to answers[from]
		for k := from + 1; k < n; k++ {
			answers[k] = c14Map(height(k), c14Hash("alt", int(height(k))), answers[k-1].Manifest().Hash())
		}
	}

	switch b.kind {
	case "none":
	case "wrong-prev": // exactly one broken link: map i points to a foreign hash, everything above is linked to it
		answers[b.i] = c14Map(height(b.i), c14Hash("alt", int(height(b.i))), c14Hash("bogus", b.i))
		relink(b.i)
	case "foreign": // one foreign map in an otherwise untouched chain: links i and i+1 are broken
		answers[b.i] = c14Map(height(b.i), c14Hash("alt", int(height(b.i))), c14Hash("bogus", b.i))
	case "fork": // a different map with the right previous hash: only link i+1 is broken
		answers[b.i] = c14Map(height(b.i), c14Hash("alt", int(height(b.i))), prevhash(b.i))
	case "other-height": // the fetch of position i answers the real map of position j
		answers[b.i] = at(b.j)
	case "swap":
		answers[b.i], answers[b.j] = answers[b.j], answers[b.i]
	case "height-shift": // all links intact, but the manifest of position i carries height+j
		answers[b.i] = c14Map(height(b.i)+Height(b.j), c14Hash("alt", int(height(b.i))), prevhash(b.i))
		relink(b.i)
	default:
		panic("unknown break " + b.kind)
	}

	return at(-1), answers
}

func c14Breaks(start Height, n int) []c14Break {
	bs := []c14Break{{kind: "none"}}

	for i := 0; i < n; i++ {
		bs = append(bs, c14Break{kind: "wrong-prev", i: i}, c14Break{kind: "foreign", i: i}, c14Break{kind: "fork", i: i})
	}

	for i := 0; i < n; i++ {
		for j := -1; j <= n; j++ {
			if j == i || (j == -1 && start < GenesisHeight) {
				continue
			}

			bs = append(bs, c14Break{kind: "other-height", i: i, j: j})
		}
	}

	for i := 0; i < n; i++ {
		for j := i + 1; j < n; j++ {
			bs = append(bs, c14Break{kind: "swap", i: i, j: j})
		}
	}

	for i := 0; i < n; i++ {
		for _, d := range []int{-1, 1} {
			if start+1+Height(i)+Height(d) < GenesisHeight {
				continue
			}

			bs = append(bs, c14Break{kind: "height-shift", i: i, j: d})
		}
	}

	return bs
}

// c14Reference is the property statement, computed from the answers alone.
func c14Reference(start Height, prev BlockMap, answers []BlockMap) (ok bool, why string) {
	for i, m := range answers {
		want := start + 1 + Height(i)

		if m.Manifest().Height() != want {
			return false, fmt.Sprintf("the map fetched for height %d has height %d", want, m.Manifest().Height())
		}

		var below util.Hash

		switch {
		case i > 0:
			below = answers[i-1].Manifest().Hash()
		case prev != nil:
			below = prev.Manifest().Hash()
		default:
			continue // no previous map given: nothing to point to
		}

		if p := m.Manifest().Previous(); p == nil || !p.Equal(below) {
			return false, fmt.Sprintf("the map fetched for height %d does not point to the map below it", want)
		}
	}

	return true, ""
}

func c14Permutations(n int, all bool) [][]int {
	id := make([]int, n)
	for i := range id {
		id[i] = i
	}

	if n <= 1 {
		return [][]int{id}
	}

	if all {
		var out [][]int

		var rec func(cur []int, used uint)
		rec = func(cur []int, used uint) {
			if len(cur) == n {
				out = append(out, append([]int(nil), cur...))

				return
			}

			for i := 0; i < n; i++ {
				if used&(1<<uint(i)) == 0 {
					rec(append(cur, i), used|(1<<uint(i)))
				}
			}
		}
		rec(nil, 0)

		return out
	}

	// identity, reverse and all their rotations
	seen := map[string]bool{}

	var out [][]int

	for _, base := range [][]int{id, c14Reverse(id)} {
		for r := 0; r < n; r++ {
			p := append(append([]int(nil), base[r:]...), base[:r]...)
			if k := fmt.Sprint(p); !seen[k] {
				seen[k] = true
				out = append(out, p)
			}
		}
	}

	return out
}

func c14Reverse(a []int) []int {
	b := make([]int, len(a))
	for i := range a {
		b[len(a)-1-i] = a[i]
	}

	return b
}

func c14BatchSizes(n, limit int) []int {
	var sizes []int
	for n > 0 {
		s := limit
		if n < limit {
			s = n
		}

		sizes = append(sizes, s)
		n -= s
	}

	return sizes
}

type c14Arrival struct {
	height  Height
	release chan struct{}
}

type c14Outcome struct {
	err       error
	delivered []Height // heights given to callback, in order
	entered   []Height // requested heights in the order they were released into the validation
	shapeErr  string
}

// c14Execute runs the real BatchIsValidMaps with the arrival order `orders`
// (one permutation of the batch positions per batch).
func c14Execute(start Height, prev BlockMap, answers []BlockMap, limit int, orders [][]int) c14Outcome {
	n := len(answers)
	to := start + Height(n)

	arrive := make(chan c14Arrival)
	exited := make(chan struct{}, n)
	cbch := make(chan Height)
	done := make(chan error, 1)

	go func() {
		done <- BatchIsValidMaps(context.Background(), prev, to, int64(limit),
			func(ctx context.Context, height Height) (BlockMap, error) {
				a := c14Arrival{height: height, release: make(chan struct{})}

				select {
				case arrive <- a:
				case <-ctx.Done():
					exited <- struct{}{}

					return nil, ctx.Err()
				}

				select {
				case <-a.release:
				case <-ctx.Done():
					exited <- struct{}{}

					return nil, ctx.Err()
				}

				i := int(height - start - 1)
				if i < 0 || i >= n {
					panic(fmt.Sprintf("c14: height %d requested outside of the range", height))
				}

				return answers[i], nil
			},
			func(m BlockMap) error {
				cbch <- m.Manifest().Height()

				return nil
			},
		)
	}()

	var out c14Outcome

	finished := false
	pos := 0

	for bi, size := range c14BatchSizes(n, limit) {
		// all jobs of the batch in flight
		gates := map[Height]chan struct{}{}

		for len(gates) < size && !finished {
			select {
			case a := <-arrive:
				if _, dup := gates[a.height]; dup {
					out.shapeErr = fmt.Sprintf("height %d requested twice", a.height)
				}

				gates[a.height] = a.release
			case out.err = <-done:
				finished = true
			}
		}

		if finished {
			// only legal before any job arrived
			if len(gates) > 0 {
				out.shapeErr = "BatchIsValidMaps returned while jobs were parked and none was released"
			}

			break
		}

		released := 0

		for _, k := range orders[bi] {
			h := start + 1 + Height(pos+k)

			g, found := gates[h]
			if !found {
				panic(fmt.Sprintf("c14: batch %d: height %d is not in flight (in flight: %v)", bi, h, gates))
			}

			close(g)
			released++
			out.entered = append(out.entered, h)

			select {
			case ch := <-cbch:
				out.delivered = append(out.delivered, ch)
			case out.err = <-done:
				finished = true
			}

			if finished {
				break
			}
		}

		if finished {
			for i := released; i < size; i++ {
				<-exited
			}

			break
		}

		pos += size
	}

	if !finished {
		out.err = <-done
	}

	return out
}

func c14OrderString(orders [][]int) string {
	parts := make([]string, len(orders))
	for i := range orders {
		s := make([]string, len(orders[i]))
		for j := range orders[i] {
			s[j] = fmt.Sprint(orders[i][j])
		}

		parts[i] = strings.Join(s, "")
	}

	return strings.Join(parts, "|")
}

func TestVerifC14(t *testing.T) {
	r := vlib.Start("C14")
	defer r.Finish()

	maxlen := vlib.Pick(r, 6, 8)
	allperm := vlib.Pick(r, 5, 7) // batches up to this size: every permutation; larger: identity, reverse and their rotations

	if _, replaying := r.Replaying(); replaying { // replays run in the quick tier: search the thorough space for the recorded id
		maxlen, allperm = 8, 7
	}

	r.Rule("chain length 1..L x batch limit 1..length+1 x start {no previous map, previous map at height 4} x " +
		"{no break, every single break at every position} x every combination of per-batch arrival permutations; " +
		"each tuple is a distinct input+schedule; non-trivial = more than one job in some batch and an order other than ascending")
	r.Assume("arrival order = order in which maps enter the validateLock critical section, forced by parking the jobs in blockMapf; " +
		"the interleaving of callback(m) with the next job's validation is serialised (callback finishes first)")
	r.Set("chain_length_max", maxlen)
	r.Set("all_permutations_up_to_batch_size", allperm)
	r.Set("breaks", "wrong-prev, foreign, fork, other-height(i->j incl. previous map and to+1), swap(i,j), height-shift(+-1)")

	item := 0

	for n := 1; n <= maxlen; n++ {
		for limit := 1; limit <= n+1; limit++ {
			sizes := c14BatchSizes(n, limit)

			var orderSets [][][]int
			for _, s := range sizes {
				orderSets = append(orderSets, c14Permutations(s, s <= allperm))
			}

			for _, start := range []Height{NilHeight, 4} {
				for _, b := range c14Breaks(start, n) {
					item++
					if !r.Mine(item) {
						continue
					}

					if r.Expired() {
						return
					}

					c14Config(r, start, n, limit, b, orderSets)
				}
			}
		}
	}
}

func c14Config(r *vlib.Run, start Height, n, limit int, b c14Break, orderSets [][][]int) {
	prev, answers := c14Answers(start, n, b)
	refok, refwhy := c14Reference(start, prev, answers)

	// batch of every requested position; do all answers stay inside their own batch?
	hs := make([]string, n)
	for i := range answers {
		hs[i] = answers[i].Manifest().Height().String()
	}

	idx := make([]int, len(orderSets))

	for {
		orders := make([][]int, len(orderSets))
		ascending := true

		for i := range orderSets {
			orders[i] = orderSets[i][idx[i]]
			if idx[i] != 0 {
				ascending = false
			}
		}

		id := fmt.Sprintf("start=%d,n=%d,limit=%d,break=%s,order=%s", start, n, limit, b, c14OrderString(orders))
		if r.Want(id) {
			c14Case(r, id, start, prev, answers, n, limit, b, orders, refok, refwhy, ascending, hs)
		}

		// next combination
		k := len(idx) - 1
		for ; k >= 0; k-- {
			idx[k]++
			if idx[k] < len(orderSets[k]) {
				break
			}

			idx[k] = 0
		}

		if k < 0 {
			return
		}
	}
}

func c14Case(
	r *vlib.Run, id string, start Height, prev BlockMap, answers []BlockMap, n, limit int, b c14Break,
	orders [][]int, refok bool, refwhy string, ascending bool, hs []string,
) {
	out := c14Execute(start, prev, answers, limit, orders)

	r.Eval()
	r.Trace()
	r.StatesN(1)
	r.TransitionN(int64(len(out.entered)))

	if !ascending {
		r.Nontrivial(id)
	}

	if out.shapeErr != "" {
		panic(fmt.Sprintf("c14: %s: %s", id, out.shapeErr))
	}

	replay := map[string]any{
		"start": start.Int64(), "n": n, "limit": limit, "break": b.String(), "order": c14OrderString(orders),
		"answer_heights": hs,
	}

	delivered := append([]Height(nil), out.delivered...)
	sort.Slice(delivered, func(i, j int) bool { return delivered[i] < delivered[j] })

	once := len(delivered) == n
	for i := 0; once && i < n; i++ {
		once = delivered[i] == start+1+Height(i)
	}

	switch {
	case out.err == nil && !refok:
		// which heights never reached the callback?
		got := map[Height]int{}
		for _, h := range out.delivered {
			got[h]++
		}

		var missing []string

		for i := 0; i < n; i++ {
			if h := start + 1 + Height(i); got[h] == 0 {
				missing = append(missing, h.String())
			}
		}

		sig := map[string]any{"kind": "accepted-broken-chain", "break": b.kind, "height_missing": len(missing) > 0}
		r.Outcome(fmt.Sprintf("VIOLATION accepted %s (height missing=%v)", b.kind, len(missing) > 0))
		r.Violation(id, sig,
			fmt.Sprintf("BatchIsValidMaps(prev=%d, to=%d, batchlimit=%d) returned nil although %s; maps fetched for heights %d..%d had heights [%s]; "+
				"arrival order %s; heights given to callback %v (never delivered: [%s])",
				start, start+Height(n), limit, refwhy, start+1, start+Height(n), strings.Join(hs, " "),
				c14OrderString(orders), out.delivered, strings.Join(missing, ",")),
			replay)
	case out.err != nil && refok:
		sig := map[string]any{"kind": "rejected-linked-chain", "break": b.kind, "multi_batch": n > limit}
		r.Outcome("VIOLATION rejected a linked chain, " + b.kind)
		r.Violation(id, sig,
			fmt.Sprintf("BatchIsValidMaps(prev=%d, to=%d, batchlimit=%d) returned %v although every fetched map is linked to the one below; arrival order %s",
				start, start+Height(n), limit, out.err, c14OrderString(orders)),
			replay)
	case out.err == nil && !once:
		sig := map[string]any{"kind": "callback-not-once-per-height", "break": b.kind}
		r.Outcome("VIOLATION callback not once per height")
		r.Violation(id, sig,
			fmt.Sprintf("BatchIsValidMaps(prev=%d, to=%d, batchlimit=%d) returned nil but callback saw heights %v; arrival order %s",
				start, start+Height(n), limit, out.delivered, c14OrderString(orders)),
			replay)
	case out.err == nil:
		r.Outcome("accepted linked chain, break=" + b.kind)
		if !ascending && n > limit {
			r.Sample(map[string]any{"case": id, "result": "nil", "entered_validation": out.entered, "callback": out.delivered})
		}
	default:
		r.Outcome("rejected broken chain, break=" + b.kind)
		if !ascending {
			r.Sample(map[string]any{"case": id, "result": out.err.Error(), "entered_validation": out.entered, "reference": refwhy})
		}
	}
}
