//go:build verif

package isaacdatabase

import (
	"context"
	"fmt"
	"os"
	"sort"
	"strings"
	"testing"
	"time"

	"github.com/spikeekips/mitum/base"
	"github.com/spikeekips/mitum/isaac"
	leveldbstorage "github.com/spikeekips/mitum/storage/leveldb"
	"github.com/spikeekips/mitum/util"
	"github.com/spikeekips/mitum/util/valuehash"
	"github.com/spikeekips/mitum/zzverif/vlib"
	"github.com/spikeekips/mitum/zzverif/vsched"
	leveldbopt "github.com/syndtr/goleveldb/leveldb/opt"
	goleveldbstorage "github.com/syndtr/goleveldb/leveldb/storage"
)

// C38 (concurrent half, engine S): however concurrently the local node is
// asked for a proposal of one (point, previous block), it returns the same
// signed proposal.
//
// Threads call Make / PreferEmpty of a REAL isaac.ProposalMaker whose pool is a
// REAL TempPool (in-memory leveldb); getOperations is a stub whose answer
// another thread changes; lastBlockMap answers none / fitting block / block
// with another hash. isaac/proposal_maker.go (the maker's mutex),
// storage/leveldb/db.go (a scheduling point before every leveldb access) and
// isaac/database/pool.go are instrumented; every interleaving within the
// preemption bound is executed.
//
// Oracle: all proposals returned for one position have the same fact hash and
// signature bytes, equal what ProposalByPoint holds at quiescence, belong to
// the requested position and list pairwise distinct operations and facts.
//
// Fixtures (keys, positions, block maps) are those of the sequential half
// (c38_seq_test.go, prefix c38q); this file uses prefix c38c.

type c38cCall struct {
	kind string // M = Make, E = PreferEmpty, X = change the answer of getOperations, C = one tick of the pool cleaner
	pos  string
}

// scenarios with a cleaner thread: the last block is c38cWinLast; the pool is pre-populated by the maker itself with
// proposals at `window` consecutive heights ending at last+1. Positions "w<d>" = ((last+d, round 0), block last+d-1),
// "v<d>" = the same height at round 1 (never pre-populated).
const c38cWinLast = 32

func (c c38cCall) String() string {
	if c.kind == "X" {
		return "change-operations"
	}

	if c.kind == "C" {
		return "cleaner-tick"
	}

	return map[string]string{"M": "Make", "E": "PreferEmpty"}[c.kind] + "(" + c.pos + ")"
}

type c38cScenario struct {
	name    string
	lbm     string // 0 none, 1 fitting block, 2 block with another hash, w = block c38cWinLast of the cleaner-window chain
	window  int    // > 0: number of consecutive heights (ending at last+1) that hold a proposal of the maker at the start
	threads [][]c38cCall
}

func (s c38cScenario) id() string {
	var ts []string

	for _, t := range s.threads {
		var xs []string
		for _, c := range t {
			xs = append(xs, c.String())
		}

		ts = append(ts, strings.Join(xs, ","))
	}

	if s.window > 0 {
		return fmt.Sprintf("%s|lastBlockMap=%s|window=%d|%s", s.name, s.lbm, s.window, strings.Join(ts, " || "))
	}

	return fmt.Sprintf("%s|lastBlockMap=%s|%s", s.name, s.lbm, strings.Join(ts, " || "))
}

type c38cObs struct {
	thread int
	call   c38cCall
	ident  string
	nops   int
	err    string
	bad    string // structural problem of the returned proposal
}

func c38cBuild(env *c38qEnv, s c38cScenario) vsched.Scenario {
	st, err := leveldbstorage.NewStorage(goleveldbstorage.NewMemStorage(), &leveldbopt.Options{
		WriteBuffer:        64 * leveldbopt.KiB, // goleveldb allocates the whole write buffer per Open
		BlockCacheCapacity: 64 * leveldbopt.KiB,
	})
	if err != nil {
		panic(err)
	}

	db, err := newTempPool(st, env.encs, env.enc, 0)
	if err != nil {
		panic(err)
	}

	h := func(s string) util.Hash { return valuehash.NewSHA256([]byte("c38c-" + s)) }

	listA := [][2]util.Hash{{h("op-a"), h("fact-a")}}
	listB := [][2]util.Hash{{h("op-b"), h("fact-b")}, {h("op-c"), h("fact-c")}}
	cur := listA

	getOperations := func(context.Context, base.Height) ([][2]util.Hash, error) {
		vsched.Point("getOperations", nil) // the real source takes locks of the pool / database

		return cur, nil
	}

	wlast := c38cWinLast

	lastBlockMap := func() (base.BlockMap, bool, error) {
		// the real database takes a lock here (scheduling point). The clock (util/localtime is compiled with the
		// virtual clock) moves on by 2ms per Make / PreferEmpty call: the proposal fact hash and the signature
		// cover the time in milliseconds, so calls within one millisecond would yield byte-identical proposals
		// and the outcome would depend on real time.
		vsched.Advance(2 * time.Millisecond)

		if s.lbm == "0" {
			return nil, false, nil
		}

		if s.lbm == "w" {
			return c38wBlockMap(wlast), true, nil
		}

		return env.maps[s.lbm], true, nil
	}

	pm := isaac.NewProposalMaker(env.local, env.nid, getOperations, db, lastBlockMap)

	posof := func(name string) c38qPos {
		for _, p := range env.poss {
			if p.name == name {
				return p
			}
		}

		var d int

		if _, err := fmt.Sscanf(name[1:], "%d", &d); err == nil && (name[0] == 'w' || name[0] == 'v') {
			h := c38cWinLast + d

			return c38qPos{name, c38wPoint(h, map[byte]uint64{'w': 0, 'v': 1}[name[0]]), c38wBlock(h - 1)}
		}

		panic("unknown position " + name)
	}

	// the maker fills the window, height by height while the last block advances (outside the scheduler: sequential)
	pre := map[string]string{}

	for d := 2 - s.window; s.window > 0 && d <= 1; d++ {
		pos := posof(fmt.Sprintf("w%d", d))
		wlast = c38cWinLast + d - 1

		pr, err := pm.Make(context.Background(), pos.point, pos.prev)
		if err != nil {
			panic(err)
		}

		pre[pos.name] = c38qIdent(pr)
	}

	wlast = c38cWinLast

	var obs []c38cObs

	var roots []func()

	for ti, calls := range s.threads {
		ti, calls := ti, calls

		roots = append(roots, func() {
			for _, c := range calls {
				if c.kind == "X" {
					vsched.Point("change-operations", nil)
					cur = listB

					continue
				}

				if c.kind == "C" {
					vsched.Point("cleaner-tick", nil) // the ticker channel receive of startClean

					o := c38cObs{thread: ti, call: c}

					switch n, err := c38wTick(db); {
					case err != nil:
						o.err = err.Error()
					default:
						o.nops = n // number of removed proposal records
					}

					obs = append(obs, o)

					continue
				}

				pos := posof(c.pos)

				var pr base.ProposalSignFact
				var err error

				if c.kind == "M" {
					pr, err = pm.Make(context.Background(), pos.point, pos.prev)
				} else {
					pr, err = pm.PreferEmpty(context.Background(), pos.point, pos.prev)
				}

				o := c38cObs{thread: ti, call: c}

				switch {
				case err != nil:
					o.err = err.Error()
				case pr == nil:
					o.err = "nil proposal"
				default:
					o.ident = c38qIdent(pr)
					fact := pr.ProposalFact()
					o.nops = len(fact.Operations())

					if !fact.Point().Equal(pos.point) || !fact.Proposer().Equal(env.local.Address()) ||
						fact.PreviousBlock() == nil || !fact.PreviousBlock().Equal(pos.prev) {
						o.bad = "proposal-of-another-position"
					}

					seenop, seenfact := map[string]bool{}, map[string]bool{}
					for _, e := range fact.Operations() {
						if seenop[e[0].String()] || seenfact[e[1].String()] {
							o.bad = "duplicate-operation-or-fact-in-proposal"
						}

						seenop[e[0].String()], seenfact[e[1].String()] = true, true
					}

					if err := pr.IsValid(env.nid); err != nil && o.bad == "" {
						o.bad = "invalid-proposal"
					}
				}

				obs = append(obs, o)
			}
		})
	}

	var outcome string

	return vsched.Scenario{
		Roots:   roots,
		Outcome: func(*vsched.Exec) string { return outcome },
		Check: func(x *vsched.Exec) *vsched.Fail {
			defer func() { _ = db.DeepClose() }()

			if x.Panic != nil {
				return &vsched.Fail{Sig: map[string]any{"kind": "panic", "half": "concurrent"}, Detail: fmt.Sprintf("%v\n%s", x.Panic, x.PanicStack)}
			}

			if x.Deadlock {
				return &vsched.Fail{Sig: map[string]any{"kind": "deadlock", "half": "concurrent"}, Detail: strings.Join(x.Blocked, ";")}
			}

			hist := func() string {
				var sb strings.Builder
				for _, o := range obs {
					fmt.Fprintf(&sb, "T%d %s -> proposal %s with %d operations %s%s; ", o.thread, o.call, o.ident, o.nops, o.err, o.bad)
				}

				return sb.String()
			}

			// outcome class: per thread, in call order, how many operations the returned proposal lists
			{
				per := map[int][]string{}
				for _, o := range obs {
					per[o.thread] = append(per[o.thread], fmt.Sprintf("%s:%d", o.call.kind+o.call.pos, o.nops))
				}

				var ks []int
				for k := range per {
					ks = append(ks, k)
				}

				sort.Ints(ks)

				var xs []string
				for _, k := range ks {
					xs = append(xs, strings.Join(per[k], ","))
				}

				outcome = strings.Join(xs, "|")

				// with a cleaner thread: how many calls had returned when the tick ended (calls before and after it must both occur)
				for k, o := range obs {
					if o.call.kind == "C" {
						outcome += fmt.Sprintf("|calls-returned-before-the-tick-ended=%d", k)
					}
				}
			}

			byPos := map[string][]c38cObs{}

			for _, o := range obs {
				if o.err != "" {
					return &vsched.Fail{Sig: map[string]any{"kind": "error", "half": "concurrent", "call": o.call.kind},
						Detail: s.id() + ": " + hist()}
				}

				if o.bad != "" {
					return &vsched.Fail{Sig: map[string]any{"kind": o.bad, "half": "concurrent"}, Detail: s.id() + ": " + hist()}
				}

				if o.call.kind != "C" {
					byPos[o.call.pos] = append(byPos[o.call.pos], o)
				}
			}

			for pname, os := range byPos {
				kinds := map[string]bool{}

				for _, o := range os {
					kinds[map[string]string{"M": "Make", "E": "PreferEmpty"}[o.call.kind]] = true
				}

				var ks []string
				for k := range kinds {
					ks = append(ks, k)
				}

				sort.Strings(ks)

				for _, o := range os[1:] {
					if o.ident != os[0].ident {
						sig := map[string]any{"kind": "different-proposal-for-one-position", "half": "concurrent", "calls": strings.Join(ks, "+")}
						if s.window > 0 {
							sig["concurrent_cleaner_tick"] = true
						}

						return &vsched.Fail{
							Sig:    sig,
							Detail: fmt.Sprintf("two calls for position %s returned different signed proposals: %s| scenario %s", pname, hist(), s.id()),
						}
					}
				}

				// the maker answered for this position before the threads started: it is asked again, possibly after the tick
				if want, ok := pre[pname]; ok && os[0].ident != want {
					return &vsched.Fail{
						Sig: map[string]any{"kind": "different-proposal-for-one-position", "half": "concurrent", "calls": strings.Join(ks, "+"),
							"concurrent_cleaner_tick": true, "differs_from": "proposal-returned-before-the-tick"},
						Detail: fmt.Sprintf("position %s: the maker returned proposal %s before the threads started; now: %s| scenario %s", pname, want, hist(), s.id()),
					}
				}

				pos := posof(pname)

				switch ppr, found, err := db.ProposalByPoint(pos.point, env.local.Address(), pos.prev); {
				case err != nil:
					return &vsched.Fail{Sig: map[string]any{"kind": "error", "half": "concurrent", "call": "ProposalByPoint"}, Detail: err.Error()}
				case !found:
					return &vsched.Fail{Sig: map[string]any{"kind": "returned-proposal-not-in-pool", "half": "concurrent"},
						Detail: fmt.Sprintf("position %s: %s| scenario %s", pname, hist(), s.id())}
				case c38qIdent(ppr) != os[0].ident:
					return &vsched.Fail{Sig: map[string]any{"kind": "returned-proposal-differs-from-pool", "half": "concurrent", "calls": strings.Join(ks, "+")},
						Detail: fmt.Sprintf("position %s: the pool holds proposal %s: %s| scenario %s", pname, c38qIdent(ppr), hist(), s.id())}
				}
			}

			return nil
		},
	}
}

func c38cScenarios() []c38cScenario {
	m := func(p string) c38cCall { return c38cCall{"M", p} }
	e := func(p string) c38cCall { return c38cCall{"E", p} }
	x := c38cCall{"X", ""}

	type T = [][]c38cCall

	shapes := []struct {
		name string
		t    T
	}{
		{"make-make", T{{m("a")}, {m("a")}}},
		{"make-empty", T{{m("a")}, {e("a")}}},
		{"empty-empty", T{{e("a")}, {e("a")}}},
		{"make-make-empty", T{{m("a")}, {m("a")}, {e("a")}}},
		{"make-make-change", T{{m("a")}, {m("a")}, {x}}},
		{"make-empty-change", T{{m("a")}, {e("a")}, {x}}},
		{"two-positions-crossed", T{{m("a"), m("b")}, {m("b"), m("a")}}},
		{"two-positions-three-threads", T{{m("a")}, {m("b")}, {e("a")}}},
		{"repeated-calls", T{{m("a"), m("a")}, {e("a"), m("a")}}},
		{"change-then-make-twice", T{{m("a"), m("a")}, {x, m("a")}}},
	}

	var out []c38cScenario

	for _, sh := range shapes {
		for _, lbm := range []string{"0", "1", "2"} {
			out = append(out, c38cScenario{name: sh.name, lbm: lbm, threads: sh.t})
		}
	}

	// the pool cleaner as a thread. Window 3 = proposals at last-1, last, last+1 (the tick must remove nothing the maker
	// still answers for; last-1 is the oldest such height), window 4 = one more below (the tick really removes a record
	// while the calls run).
	c := c38cCall{"C", ""}

	for _, sh := range []struct {
		name string
		t    T
	}{
		{"cleaner-make-make", T{{c}, {m("w-1")}, {m("w-1")}}},
		{"cleaner-make-empty", T{{c}, {m("w-1")}, {e("w-1")}}},
		{"cleaner-make-new-round", T{{c}, {m("w-1"), m("v1")}, {m("v1")}}},
	} {
		for _, w := range []int{3, 4} {
			out = append(out, c38cScenario{name: sh.name, lbm: "w", window: w, threads: sh.t})
		}
	}

	return out
}

func TestVerifC38Conc(t *testing.T) {
	r := vlib.Start("C38")
	defer r.Finish()

	r.Rule("concurrent half: scenario = 2-3 threads x 1-2 calls of Make / PreferEmpty for one or two positions, optionally a thread changing the answer of getOperations, x lastBlockMap in {none, fitting block, block with another hash}, " +
		"on a fresh real ProposalMaker over a fresh real TempPool; all interleavings within the preemption bound; oracle = one signed proposal per position, equal to the pool's; " +
		"states = distinct (scenario, outcome); non-trivial = a scenario with more than one outcome")
	r.Assume("concurrent half: virtual clock, every Make / PreferEmpty call happens at its own millisecond (the fact hash and the signature cover the time in ms; two unsynchronised calls inside one millisecond would produce byte-identical proposals)")

	bound := vlib.Pick(r, 2, 6)
	if v := os.Getenv("VERIF_C38C_BOUND"); v != "" { // tuning aid only; never set by run.sh
		fmt.Sscanf(v, "%d", &bound)
	}

	r.Set("conc_preemption_bound", bound)

	// the cleaner thread shares no lock with the maker's callers (its interleavings are not pruned by the maker's mutex):
	// the same bound would need > 10^5 executions per scenario
	cbound := vlib.Pick(r, 2, 3)
	if cbound > bound {
		cbound = bound
	}

	r.Set("conc_preemption_bound_with_cleaner_thread", cbound)

	env := c38qNewEnv(t)
	scs := c38cScenarios()
	r.Set("conc_scenarios_enumerated", len(scs))

	for i, s := range scs {
		if !r.Mine(i) || r.Expired() {
			continue
		}

		s := s
		id := "conc/" + s.id()

		build := func() vsched.Scenario { return c38cBuild(env, s) }

		if rid, rp := r.Replaying(); rp {
			k := strings.LastIndex(rid, "#")
			if k < 0 || rid[:k] != id {
				continue
			}

			sc := build()
			x := vsched.Run(vsched.Options{Prefix: vsched.ParseChoices(rid[k+1:])}, sc.Roots...)
			r.Trace()

			if f := sc.Check(x); f != nil {
				r.Violation(rid, f.Sig, f.Detail, nil)
			}

			continue
		}

		if dbg := os.Getenv("VERIF_C38C_DEBUG"); dbg != "" && strings.HasPrefix(dbg, id+"#") { // debugging aid only
			for k := 0; k < 2; k++ {
				sc := build()
				x := vsched.Run(vsched.Options{Prefix: vsched.ParseChoices(dbg[len(id)+1:]), Log: true}, sc.Roots...)
				fmt.Println("---- run", k, "diverged:", x.Diverged)
				fmt.Println(strings.Join(x.Log, "\n"))
			}

			continue
		}

		sbound := bound
		if s.window > 0 {
			sbound = cbound
		}

		res := vsched.Explore(vsched.Config{Name: id, Bound: sbound, Build: build, Expired: r.Expired, MaxFound: 2, Horizon: 5000})
		if res.EngineError != "" {
			panic("engine error in " + id + ": " + res.EngineError)
		}

		r.TraceN(res.Executions)
		r.TransitionN(res.Points)
		r.EvalN(res.Executions)
		r.Add("conc_scenarios", 1)

		if res.Capped != "" {
			r.Cap(res.Capped)
		} else if s.window > 0 {
			r.Min("conc_preemption_bound_completed_with_cleaner_thread", int64(res.BoundCompleted))
		} else {
			r.Min("conc_preemption_bound_completed", int64(res.BoundCompleted))
		}

		r.Max("conc_max_points_per_execution", int64(res.MaxPoints))

		if len(res.Outcomes) > 1 {
			r.Nontrivial(id)
		}

		for o := range res.Outcomes {
			r.State(id + "=>" + o)
			r.Outcome("conc:" + s.name + ":" + o)
		}

		for _, f := range res.Found {
			r.Violation(id+"#"+vsched.ChoicesString(f.Choices), f.Fail.Sig, f.Fail.Detail+fmt.Sprintf(" (preemptions=%d)", f.Preempt), nil)
		}

		r.Sample(map[string]any{"scenario": id, "executions": res.Executions, "distinct_outcomes": len(res.Outcomes), "max_points": res.MaxPoints})
	}
}
