//go:build verif

package isaacdatabase

import (
	"bytes"
	"context"
	"encoding/hex"
	"fmt"
	"runtime"
	"sort"
	"strings"
	"sync"
	"sync/atomic"
	"testing"

	"github.com/spikeekips/mitum/base"
	"github.com/spikeekips/mitum/isaac"
	leveldbstorage "github.com/spikeekips/mitum/storage/leveldb"
	"github.com/spikeekips/mitum/util"
	"github.com/spikeekips/mitum/util/encoder"
	jsonenc "github.com/spikeekips/mitum/util/encoder/json"
	"github.com/spikeekips/mitum/util/localtime"
	"github.com/spikeekips/mitum/util/valuehash"
	"github.com/spikeekips/mitum/zzverif/vlib"
	leveldbopt "github.com/syndtr/goleveldb/leveldb/opt"
	goleveldbstorage "github.com/syndtr/goleveldb/leveldb/storage"
	leveldbutil "github.com/syndtr/goleveldb/leveldb/util"
)

// C38 (sequential half, engine Q): the local node proposes at most one
// proposal per position, and its operations are pairwise distinct.
//
// Explicit-state BFS over event histories on the REAL isaac.ProposalMaker
// wired to a REAL TempPool (in-memory leveldb) the way launch wires it:
// pool = the TempPool (ProposalByPoint / SetProposal), getOperations = a
// closure over TempPool.OperationHashes(height, limit, accept-all filter).
// Events
//   S<i>      SetOperation(op i)      4 operations = facts {f1,f2} x signer {a,b}   (the changing operation pool)
//   M<pos>    Make(point, previous)   positions a=(2,0,X) b=(2,0,Y) c=(2,1,X) d=(3,0,X)
//   E<pos>    PreferEmpty(point, previous)
//   L<k>      the answer of lastBlockMap changes: 0 = no block yet, 1 = height 1 hash X (fits a, c),
//             2 = height 1 hash Z (other hash), 9 = height 9 (every position is too old)
// for operation limits 10 and 2 (separate searches). The concurrent half of
// C38 is a separate test unit; all identifiers here are prefixed c38q.

const c38qNOps = 4

type c38qVio struct {
	sig    map[string]any
	detail string
}

type c38qPos struct {
	name  string
	point base.Point
	prev  util.Hash
}

type c38qEnv struct {
	encs  *encoder.Encoders
	enc   encoder.Encoder
	nid   base.NetworkID
	local base.LocalNode
	ops   [c38qNOps]base.Operation
	fact  [c38qNOps]int
	id    map[string]int
	poss  []c38qPos
	maps  map[string]base.BlockMap
	evs   []string
}

func c38qNewEnv(t *testing.T) *c38qEnv {
	env := &c38qEnv{id: map[string]int{}, maps: map[string]base.BlockMap{}, nid: base.NetworkID("c38-network")}
	env.enc = jsonenc.NewEncoder()
	env.encs = encoder.NewEncoders(env.enc, env.enc)

	for _, d := range []encoder.DecodeDetail{
		{Hint: base.MPublickeyHint, Instance: &base.MPublickey{}},
		{Hint: base.StringAddressHint, Instance: base.StringAddress{}},
		{Hint: isaac.DummyOperationFactHint, Instance: isaac.DummyOperationFact{}},
		{Hint: isaac.DummyOperationHint, Instance: isaac.DummyOperation{}},
		{Hint: isaac.ProposalFactHint, Instance: isaac.ProposalFact{}},
		{Hint: isaac.ProposalSignFactHint, Instance: isaac.ProposalSignFact{}},
	} {
		if err := env.encs.AddDetail(d); err != nil {
			t.Fatal(err)
		}
	}

	lpriv, err := base.NewMPrivatekeyFromSeed("c38-fixed-seed-for-the-local-node-key-0123456789")
	if err != nil {
		t.Fatal(err)
	}

	env.local = base.NewBaseLocalNode(base.DummyNodeHint, lpriv, base.NewStringAddress("c38-local"))

	for i := 0; i < c38qNOps; i++ {
		f, s := i/2, i%2

		priv, err := base.NewMPrivatekeyFromSeed(fmt.Sprintf("c38-fixed-seed-for-operation-signer-%d-0123456789", s))
		if err != nil {
			t.Fatal(err)
		}

		fact := isaac.NewDummyOperationFact(
			[]byte(fmt.Sprintf("c38-token-f%d", f+1)), valuehash.NewSHA256([]byte(fmt.Sprintf("c38-fact-%d", f+1))))

		op, err := isaac.NewDummyOperation(fact, priv, env.nid)
		if err != nil {
			t.Fatal(err)
		}

		// NOTE the operation hash of DummyOperation is random data; control flow uses the index
		env.ops[i] = op
		env.fact[i] = f
		env.id[op.Hash().String()] = i
	}

	hx := valuehash.NewSHA256([]byte("c38-block-x"))
	hy := valuehash.NewSHA256([]byte("c38-block-y"))
	hz := valuehash.NewSHA256([]byte("c38-block-z"))

	env.poss = []c38qPos{
		{"a", base.RawPoint(2, 0), hx},
		{"b", base.RawPoint(2, 0), hy},
		{"c", base.RawPoint(2, 1), hx},
		{"d", base.RawPoint(3, 0), hx},
	}

	env.maps["1"] = base.NewDummyBlockMap(base.NewDummyManifest(1, hx))
	env.maps["2"] = base.NewDummyBlockMap(base.NewDummyManifest(1, hz))
	env.maps["9"] = base.NewDummyBlockMap(base.NewDummyManifest(9, hz))

	for i := 0; i < c38qNOps; i++ {
		env.evs = append(env.evs, fmt.Sprintf("S%d", i))
	}

	for _, p := range env.poss {
		env.evs = append(env.evs, "M"+p.name)
	}

	for _, p := range env.poss {
		env.evs = append(env.evs, "E"+p.name)
	}

	env.evs = append(env.evs, "L0", "L1", "L2", "L9")

	return env
}

func c38qIdent(sf base.SignFact) string {
	if sf == nil || sf.Fact() == nil {
		return "<nil>"
	}

	var b bytes.Buffer
	b.WriteString(sf.Fact().Hash().String())

	for _, s := range sf.Signs() {
		b.WriteString("|")
		b.WriteString(hex.EncodeToString(s.Bytes()))
	}

	return vlib.H(b.String())
}

type c38qRun struct {
	env      *c38qEnv
	db       *TempPool
	pm       *isaac.ProposalMaker
	limit    uint64
	lbm      string // current lastBlockMap answer
	lastNano int64

	// model
	first map[string]string // position -> ident of the first proposal returned for it
	shape map[string]string // position -> operations of that proposal (for the state key)
	obs   string
}

func (env *c38qEnv) newRun(limit uint64) *c38qRun {
	st, err := leveldbstorage.NewStorage(goleveldbstorage.NewMemStorage(), &leveldbopt.Options{
		WriteBuffer:        64 * leveldbopt.KiB, // goleveldb allocates the whole write buffer per Open
		BlockCacheCapacity: 64 * leveldbopt.KiB,
	})
	if err != nil {
		panic(err)
	}

	db, err := newTempPool(st, env.encs, env.enc, 0)
	if err != nil {
		panic(err)
	}

	x := &c38qRun{env: env, db: db, limit: limit, lbm: "0", first: map[string]string{}, shape: map[string]string{}}

	// as wired in launch.PProposalMaker / proposalMakderGetOperationsFunc, with an accept-all filter
	getOperations := func(ctx context.Context, height base.Height) ([][2]util.Hash, error) {
		return db.OperationHashes(ctx, height, x.limit, func(isaac.PoolOperationRecordMeta) (bool, error) { return true, nil })
	}

	lastBlockMap := func() (base.BlockMap, bool, error) {
		if x.lbm == "0" {
			return nil, false, nil
		}

		return env.maps[x.lbm], true, nil
	}

	x.pm = isaac.NewProposalMaker(env.local, env.nid, getOperations, db, lastBlockMap)

	return x
}

func (x *c38qRun) close() {
	if err := x.db.DeepClose(); err != nil {
		panic(err)
	}
}

// key: the pool's operation records (ordered index, bodies, removed marks),
// which positions have a proposal and with which operations, the block map answer.
func (x *c38qRun) key() string {
	env := x.env

	pst, err := x.db.st()
	if err != nil {
		panic(err)
	}

	var live, stored, removed []int

	if err := pst.Iter(leveldbutil.BytesPrefix(leveldbKeyPrefixNewOperationOrdered[:]), func(_, b []byte) (bool, error) {
		meta, err := ReadFrameHeaderOperation(b)
		if err != nil {
			return false, err
		}

		live = append(live, env.id[meta.Operation().String()])

		return true, nil
	}, true); err != nil {
		panic(err)
	}

	for i := 0; i < c38qNOps; i++ {
		switch found, err := pst.Exists(leveldbNewOperationKey(env.ops[i].Hash())); {
		case err != nil:
			panic(err)
		case found:
			stored = append(stored, i)
		}
	}

	if err := pst.Iter(leveldbutil.BytesPrefix(leveldbKeyPrefixRemovedNewOperation[:]), func(_, b []byte) (bool, error) {
		removed = append(removed, env.id[valuehash.NewBytes(b).String()])

		return true, nil
	}, true); err != nil {
		panic(err)
	}

	sort.Ints(removed)

	var ps []string
	for _, p := range env.poss {
		if s, ok := x.shape[p.name]; ok {
			ps = append(ps, p.name+"="+s)
		}
	}

	// proposals really stored under the positions' by-point keys
	var real []string

	for _, p := range env.poss {
		switch _, found, err := x.db.ProposalByPoint(p.point, env.local.Address(), p.prev); {
		case err != nil:
			panic(err)
		case found:
			real = append(real, p.name)
		}
	}

	return fmt.Sprintf("L%v|S%v|R%v|P%v|B%v|M%s", live, stored, removed, ps, real, x.lbm)
}

func (x *c38qRun) opsShape(pr base.ProposalSignFact) string {
	var s []string

	for _, e := range pr.ProposalFact().Operations() {
		i, ok := x.env.id[e[0].String()]
		if !ok {
			s = append(s, "?")

			continue
		}

		s = append(s, fmt.Sprintf("op%d", i))
	}

	return "[" + strings.Join(s, " ") + "]"
}

func (x *c38qRun) apply(ev string, check bool) (vios []c38qVio) {
	env := x.env
	vio := func(sig map[string]any, format string, args ...any) {
		vios = append(vios, c38qVio{sig, fmt.Sprintf(format, args...)})
	}

	switch ev[0] {
	case 'S':
		var i int
		if _, err := fmt.Sscanf(ev, "S%d", &i); err != nil {
			panic(err)
		}

		// strictly increasing "added at" (ordered key = UnixNano + operation hash), sleep-free
		for localtime.Now().UnixNano() <= x.lastNano {
		}

		added, err := x.db.SetOperation(context.Background(), env.ops[i])
		if err != nil {
			panic(err)
		}

		if added {
			pst, _ := x.db.st()

			ok, found, err := pst.Get(leveldbNewOperationKeysKey(env.ops[i].Hash()))
			if err != nil || !found {
				panic("ordered key of a new operation not found")
			}

			of, err := offsetFromLeveldbOperationOrderedKey(ok)
			if err != nil {
				panic(err)
			}

			nano, err := util.BytesToInt64(of)
			if err != nil || nano <= x.lastNano {
				panic(fmt.Sprintf("harness assumption broken: added-at time not strictly increasing: %d <= %d (%v)", nano, x.lastNano, err))
			}

			x.lastNano = nano
		}

		x.obs = fmt.Sprintf("setoperation:%v", added)

		return nil
	case 'L':
		x.lbm = ev[1:]
		x.obs = "blockmap-changed"

		return nil
	}

	// ---- Make / PreferEmpty
	var pos c38qPos

	for _, p := range env.poss {
		if p.name == ev[1:] {
			pos = p
		}
	}

	var pr base.ProposalSignFact
	var err error

	switch ev[0] {
	case 'M':
		pr, err = x.pm.Make(context.Background(), pos.point, pos.prev)
	case 'E':
		pr, err = x.pm.PreferEmpty(context.Background(), pos.point, pos.prev)
	default:
		panic("bad event " + ev)
	}

	tooOld := x.lbm != "0" && pos.point.Height() < env.maps[x.lbm].Manifest().Height()-1
	call := map[byte]string{'M': "Make", 'E': "PreferEmpty"}[ev[0]]

	switch {
	case err != nil && tooOld && strings.Contains(err.Error(), "too old"):
		x.obs = call + ":refused-too-old"

		return nil
	case err != nil:
		vio(map[string]any{"kind": "error", "call": call}, "%s(%s) with lastBlockMap=%s: %v", call, pos.name, x.lbm, err)
		x.obs = call + ":error"

		return vios
	case pr == nil:
		vio(map[string]any{"kind": "nil-proposal", "call": call}, "%s(%s) returned nil, nil", call, pos.name)
		x.obs = call + ":nil"

		return vios
	}

	id := c38qIdent(pr)
	prev, again := x.first[pos.name]

	if !again {
		x.first[pos.name] = id
		x.shape[pos.name] = x.opsShape(pr)
	}

	x.obs = fmt.Sprintf("%s:%s:n=%d", call, map[bool]string{true: "again", false: "new"}[again], len(pr.ProposalFact().Operations()))

	if !check {
		return nil
	}

	desc := fmt.Sprintf("%s(%s=%v prev %s) with lastBlockMap=%s, limit=%d returned operations %s",
		call, pos.name, pos.point, pos.prev.String()[:8], x.lbm, x.limit, x.opsShape(pr))

	// ---- the same signed proposal, however often it is asked
	if again && prev != id {
		vio(map[string]any{"kind": "different-proposal-for-one-position", "second_call": call},
			"%s; an earlier call for the same point and previous block returned another signed proposal (operations %s)", desc, x.shape[pos.name])
	}

	// ---- it is the requested position, signed by the local node, and valid
	fact := pr.ProposalFact()

	switch {
	case !fact.Point().Equal(pos.point), !fact.Proposer().Equal(env.local.Address()),
		(fact.PreviousBlock() == nil) != (pos.prev == nil), fact.PreviousBlock() != nil && !fact.PreviousBlock().Equal(pos.prev):
		vio(map[string]any{"kind": "proposal-of-another-position"}, "%s; point=%v proposer=%v previous=%v", desc, fact.Point(), fact.Proposer(), fact.PreviousBlock())
	}

	// ---- distinct operation hashes and distinct facts
	seenop, seenfact := map[string]bool{}, map[string]bool{}
	var dupop, dupfact bool

	for _, e := range fact.Operations() {
		if seenop[e[0].String()] {
			dupop = true
		}

		if seenfact[e[1].String()] {
			dupfact = true
		}

		seenop[e[0].String()], seenfact[e[1].String()] = true, true
	}

	if dupop {
		vio(map[string]any{"kind": "duplicate-operation-in-proposal"}, "%s", desc)
	}

	if dupfact {
		vio(map[string]any{"kind": "duplicate-fact-in-proposal"}, "%s: two listed operations carry the same fact", desc)
	}

	if err := pr.IsValid(env.nid); err != nil && !dupop && !dupfact {
		vio(map[string]any{"kind": "invalid-proposal"}, "%s: IsValid: %v", desc, err)
	}

	// ---- and it is what the pool holds for the position
	switch ppr, found, err := x.db.ProposalByPoint(pos.point, env.local.Address(), pos.prev); {
	case err != nil:
		vio(map[string]any{"kind": "error", "call": "ProposalByPoint"}, "%v", err)
	case !found:
		vio(map[string]any{"kind": "returned-proposal-not-in-pool"}, "%s; ProposalByPoint finds nothing", desc)
	case c38qIdent(ppr) != id:
		vio(map[string]any{"kind": "returned-proposal-differs-from-pool"}, "%s; ProposalByPoint holds another proposal (operations %s)", desc, x.opsShape(ppr))
	}

	// ---- earlier positions are unchanged
	for _, p := range env.poss {
		want, ok := x.first[p.name]
		if !ok || p.name == pos.name {
			continue
		}

		switch ppr, found, err := x.db.ProposalByPoint(p.point, env.local.Address(), p.prev); {
		case err != nil, !found, c38qIdent(ppr) != want:
			vio(map[string]any{"kind": "other-position-changed"}, "%s; the proposal of position %s is now found=%v err=%v", desc, p.name, found, err)
		}
	}

	return vios
}

type c38qResult struct {
	key  string
	vios []c38qVio
	obs  string
}

// c38qParallel runs f(0..n-1) on GOMAXPROCS workers.
func c38qParallel(n int, f func(int)) {
	w := runtime.GOMAXPROCS(0)
	if w > n {
		w = n
	}

	var wg sync.WaitGroup
	next := int64(-1)

	for k := 0; k < w; k++ {
		wg.Add(1)

		go func() {
			defer wg.Done()

			for {
				i := int(atomic.AddInt64(&next, 1))
				if i >= n {
					return
				}

				f(i)
			}
		}()
	}

	wg.Wait()
}

func TestVerifC38(t *testing.T) {
	r := vlib.Start("C38")
	defer r.Finish()

	env := c38qNewEnv(t)

	depth := vlib.Pick(r, 4, 6)

	if _, replaying := r.Replaying(); replaying {
		depth = 64 // only prefixes of the recorded history are expanded (WantPrefix); it may come from the thorough tier
	}

	r.Set("depth", depth)
	r.Set("alphabet", env.evs)
	r.Set("operation_limits", []int{10, 2})
	r.Rule("BFS over event histories (SetOperation of 4 operations = 2 facts x 2 signers; Make and PreferEmpty for 4 positions; 4 answers of lastBlockMap) on a fresh real ProposalMaker + real TempPool per history, " +
		"for operation limits 10 and 2; states are deduplicated on the pool's operation records, the positions that hold a proposal with their operation lists, and the lastBlockMap answer " +
		"(Make/PreferEmpty read nothing else); non-trivial = a Make/PreferEmpty for a position that already has a proposal, or a Make on a pool holding two operations of one fact")
	r.Assume("sequential callers only; concurrent Make/PreferEmpty is the separate controlled-scheduler unit of C38")
	r.Assume("getOperations is TempPool.OperationHashes with an accept-all filter (launch adds database-dependent filters; C22 covers filters)")
	r.Assume("the 'added at' nanosecond clock is strictly increasing between two SetOperation calls (spun and verified)")

	if sh, nsh := r.Shard(); nsh > 1 && sh > 0 {
		// the searches are parallel inside one process (global state dedup needs shared memory);
		// with several shards configured only shard 0 works
		r.Outcome("idle-shard")

		return
	}

	_, replaying := r.Replaying()

	// Level-synchronous BFS. The histories of one chunk run in parallel (each on its own fresh
	// maker and pool); their results are merged sequentially in (state, event) order, so the
	// outcome is exactly that of a sequential BFS and independent of scheduling.
	const chunkStates = 256

	for _, limit := range []uint64{10, 2} {
		sid := fmt.Sprintf("l%d", limit)
		seen := map[string]bool{}

		run := func(path []string) (res c38qResult) {
			x := env.newRun(limit)
			defer x.close()

			for k, ev := range path {
				res.vios = x.apply(ev, k == len(path)-1)
			}

			res.key, res.obs = x.key(), x.obs

			return res
		}

		{
			k := run(nil).key
			seen[k] = true
			r.State(sid + "#" + k)
		}

		frontier := [][]string{nil}

	levels:
		for level := 0; level < depth; level++ {
			var next [][]string

			for c0 := 0; c0 < len(frontier); c0 += chunkStates {
				c1 := c0 + chunkStates
				if c1 > len(frontier) {
					c1 = len(frontier)
				}

				if r.Expired() {
					r.Cap(fmt.Sprintf("deadline in search %s at level %d, state %d/%d", sid, level, c0, len(frontier)))

					break levels
				}

				type job struct {
					path []string
					id   string
				}

				var jobs []job

				for _, st := range frontier[c0:c1] {
					for _, ev := range env.evs {
						path := append(append([]string{}, st...), ev)
						id := sid + "/" + strings.Join(path, "/")

						if !r.WantPrefix(id) {
							continue
						}

						jobs = append(jobs, job{path, id})
					}
				}

				results := make([]c38qResult, len(jobs))
				c38qParallel(len(jobs), func(i int) { results[i] = run(jobs[i].path) })

				for i, j := range jobs {
					res, ev := results[i], j.path[len(j.path)-1]

					if !replaying || r.Want(j.id) { // in a replay only the recorded case reports
						r.Transition()
						r.Trace()
						r.Eval()
						r.Outcome(res.obs)
						r.Max("max_depth", int64(len(j.path)))

						if strings.Contains(res.obs, ":again") || c38qTwoOfOneFact(env, j.path[:len(j.path)-1], ev) {
							r.Nontrivial(j.id)
						}

						for _, v := range res.vios {
							r.Outcome("violation:" + fmt.Sprint(v.sig["kind"]))
							r.Violation(j.id, v.sig, v.detail, map[string]any{"search": sid, "events": j.path})
						}
					}

					if seen[res.key] {
						continue
					}

					seen[res.key] = true

					if r.State(sid+"#"+res.key) && len(j.path) == 3 && (ev[0] == 'M' || ev[0] == 'E') {
						r.Sample(map[string]any{"search": sid, "history": strings.Join(j.path, "/"), "state": res.key, "last_observation": res.obs})
					}

					next = append(next, j.path)
				}
			}

			frontier = next
			r.Add(fmt.Sprintf("new_states_%s_depth_%d", sid, level+1), int64(len(frontier)))
		}

		// ---- pre-populated pools: every ordered sequence of 2, 3 and 4 of the 4 operations is stored first,
		// then every history of 1 and 2 Make / PreferEmpty calls runs on it. Only the histories longer than
		// the BFS depth are executed (the shorter ones were just covered), so in the quick tier this adds the
		// full pools (e.g. A B A' B' with two facts twice) that the BFS depth does not reach.
		if replaying || r.Expired() {
			continue // a replay is served by the BFS above (its depth is unbounded there)
		}

		var calls []string

		for _, ev := range env.evs {
			if ev[0] == 'M' || ev[0] == 'E' {
				calls = append(calls, ev)
			}
		}

		var prefixes [][]string

		var perm func(cur []string, used [c38qNOps]bool)

		perm = func(cur []string, used [c38qNOps]bool) {
			if len(cur) >= 2 {
				prefixes = append(prefixes, append([]string{}, cur...))
			}

			for i := 0; i < c38qNOps; i++ {
				if used[i] {
					continue
				}

				used[i] = true
				perm(append(cur, fmt.Sprintf("S%d", i)), used)
				used[i] = false
			}
		}

		perm(nil, [c38qNOps]bool{})

		var pjobs [][]string

		for _, pre := range prefixes {
			for _, c1 := range calls {
				p1 := append(append([]string{}, pre...), c1)
				if len(p1) > depth {
					pjobs = append(pjobs, p1)
				}

				for _, c2 := range calls {
					if p2 := append(append([]string{}, p1...), c2); len(p2) > depth {
						pjobs = append(pjobs, p2)
					}
				}
			}
		}

		presults := make([]c38qResult, len(pjobs))
		c38qParallel(len(pjobs), func(i int) { presults[i] = run(pjobs[i]) })

		for i, path := range pjobs {
			res, id := presults[i], sid+"/"+strings.Join(path, "/")

			r.Transition()
			r.Trace()
			r.Eval()
			r.Outcome(res.obs)
			r.Max("max_depth", int64(len(path)))
			r.Add("prepopulated_pool_histories_"+sid, 1)

			if strings.Contains(res.obs, ":again") || c38qTwoOfOneFact(env, path[:len(path)-1], path[len(path)-1]) {
				r.Nontrivial(id)
			}

			for _, v := range res.vios {
				r.Outcome("violation:" + fmt.Sprint(v.sig["kind"]))
				r.Violation(id, v.sig, v.detail, map[string]any{"search": sid, "events": path})
			}

			if !seen[res.key] {
				seen[res.key] = true
				r.State(sid + "#" + res.key)
			}
		}
	}
}

func c38qTwoOfOneFact(env *c38qEnv, path []string, ev string) bool {
	if ev[0] != 'M' {
		return false
	}

	per := map[int]map[int]bool{}

	for _, e := range path {
		if e[0] != 'S' {
			continue
		}

		var i int
		fmt.Sscanf(e, "S%d", &i)

		if per[env.fact[i]] == nil {
			per[env.fact[i]] = map[int]bool{}
		}

		per[env.fact[i]][i] = true
	}

	for _, m := range per {
		if len(m) > 1 {
			return true
		}
	}

	return false
}
