//go:build verif

package isaacdatabase

import (
	"context"
	"fmt"
	"sort"
	"strings"
	"testing"

	"github.com/spikeekips/mitum/base"
	"github.com/spikeekips/mitum/isaac"
	leveldbstorage "github.com/spikeekips/mitum/storage/leveldb"
	"github.com/spikeekips/mitum/util"
	"github.com/spikeekips/mitum/util/localtime"
	"github.com/spikeekips/mitum/util/valuehash"
	"github.com/spikeekips/mitum/zzverif/vlib"
	leveldbopt "github.com/syndtr/goleveldb/leveldb/opt"
	goleveldbstorage "github.com/syndtr/goleveldb/leveldb/storage"
	leveldbutil "github.com/syndtr/goleveldb/leveldb/util"
)

// C38 (sequential half, third unit, engine Q): the pool cleaner as an event.
//
// "However often the local node is asked" includes: asked again after the periodic
// cleaner of the proposal pool (TempPool.startClean: every 33 minutes
// cleanRemovedNewOperations, cleanProposals, cleanBallots) has run. The maker finds
// its earlier proposal only through the pool, so the property holds across a tick
// only if the cleaner never removes a proposal of a height the maker still answers
// for (Make / PreferEmpty refuse only heights below last-1).
//
// Explicit-state BFS over event histories on a REAL isaac.ProposalMaker whose pool is
// a REAL TempPool (in-memory leveldb), far above the genesis height, along one chain
// of blocks (block hash of height h = c38wBlock(h)). Events, relative to the current
// last block `last` (lastBlockMap answers height last, hash c38wBlock(last)):
//   A        the last block advances by one
//   C        one tick of the cleaner (the body of the ticker case of startClean)
//   M<d>     Make((last+d, round 0), c38wBlock(last+d-1))         d in -2 (refused as too old), -1, 0, +1, +2
//   E<d>     PreferEmpty(the same position)
//   R<d>     SetProposal of a proposal of ANOTHER proposer for that position, d in +1, +2
//            (the pool also holds the proposals received from the other nodes)
// Searches start from the empty pool and from pools pre-populated by the maker itself
// with proposals at 3, 4 and 5 consecutive heights (M1/A/M1/A/.../M1), so that the
// heights last-1 (= top-2, the oldest one the maker still answers for), last and
// last+1 all hold a proposal when the first tick comes.
//
// Oracle (the property, nothing else): every proposal returned for a position equals
// (fact hash and signature bytes) the first one ever returned for it, is of that
// position and of the local node, is valid, lists distinct operations and facts, and
// is what the pool holds for the position right after the call.
//
// getOperations is a stub answering a new operation list on every call (the changing
// operation pool), so that a re-made proposal always differs in content.

const c38wBase = 30 // last block of the empty start; far enough from the genesis height for every cleaner depth

func c38wBlock(h int) util.Hash {
	return valuehash.NewSHA256([]byte(fmt.Sprintf("c38w-block-%d", h)))
}

func c38wBlockMap(h int) base.BlockMap {
	return base.NewDummyBlockMap(base.NewDummyManifest(base.Height(int64(h)), c38wBlock(h)))
}

func c38wPoint(h int, round uint64) base.Point {
	return base.RawPoint(int64(h), round)
}

// c38wTick is the body of `case <-ticker.C:` of TempPool.startClean (pool.go), which is inline in the loop.
func c38wTick(db *TempPool) (removedProposals int, err error) {
	if _, err := db.st(); err != nil {
		return 0, err
	}

	removed, err := db.cleanRemovedNewOperations()
	if removed > 0 || err != nil {
		db.whenNewOperationsremoved(removed, err)
	}

	n, err := db.cleanProposals()
	_, _ = db.cleanBallots()

	return n, err
}

// c38wProposalHeights lists the heights of all by-point proposal keys of the pool (any proposer).
func c38wProposalHeights(db *TempPool) []int {
	pst, err := db.st()
	if err != nil {
		panic(err)
	}

	var hs []int

	if err := pst.Iter(leveldbutil.BytesPrefix(leveldbKeyPrefixProposalByPoint[:]), func(key, _ []byte) (bool, error) {
		h, err := heightFromKey(key, leveldbKeyPrefixProposalByPoint)
		if err != nil {
			return false, err
		}

		hs = append(hs, int(h.Int64()))

		return true, nil
	}, true); err != nil {
		panic(err)
	}

	sort.Ints(hs)

	return hs
}

type c38wLost struct {
	belowTop int  // pool top height - height of the position, at the tick that removed it
	topAbove bool // the pool held a proposal above last+1 at that tick
}

type c38wRun struct {
	env    *c38qEnv
	remote base.LocalNode
	db     *TempPool
	pm     *isaac.ProposalMaker
	last   int
	nops   int
	ticks  int

	first     map[int]string // height of the position -> ident of the first proposal returned for it
	firstMs   map[int]int64  // its proposedAt in unix milliseconds
	firstTick map[int]int    // number of ticks before it
	lost      map[int]c38wLost
	obs       string
}

func c38wRemoteNode() base.LocalNode {
	priv, err := base.NewMPrivatekeyFromSeed("c38-fixed-seed-for-the-remote-node-key-0123456789")
	if err != nil {
		panic(err)
	}

	return base.NewBaseLocalNode(base.DummyNodeHint, priv, base.NewStringAddress("c38-remote"))
}

func c38wNewRun(env *c38qEnv) *c38wRun {
	st, err := leveldbstorage.NewStorage(goleveldbstorage.NewMemStorage(), &leveldbopt.Options{
		WriteBuffer:        64 * leveldbopt.KiB,
		BlockCacheCapacity: 64 * leveldbopt.KiB,
	})
	if err != nil {
		panic(err)
	}

	db, err := newTempPool(st, env.encs, env.enc, 0)
	if err != nil {
		panic(err)
	}

	x := &c38wRun{
		env: env, remote: c38wRemoteNode(), db: db, last: c38wBase,
		first: map[int]string{}, firstMs: map[int]int64{}, firstTick: map[int]int{}, lost: map[int]c38wLost{},
	}

	getOperations := func(context.Context, base.Height) ([][2]util.Hash, error) {
		x.nops++

		return [][2]util.Hash{{
			valuehash.NewSHA256([]byte(fmt.Sprintf("c38w-op-%d", x.nops))),
			valuehash.NewSHA256([]byte(fmt.Sprintf("c38w-fact-%d", x.nops))),
		}}, nil
	}

	lastBlockMap := func() (base.BlockMap, bool, error) { return c38wBlockMap(x.last), true, nil }

	x.pm = isaac.NewProposalMaker(env.local, env.nid, getOperations, db, lastBlockMap)

	return x
}

func (x *c38wRun) close() {
	if err := x.db.DeepClose(); err != nil {
		panic(err)
	}
}

func (x *c38wRun) held(h int) (string, bool) {
	switch pr, found, err := x.db.ProposalByPoint(c38wPoint(h, 0), x.env.local.Address(), c38wBlock(h-1)); {
	case err != nil:
		panic(err)
	case !found:
		return "", false
	default:
		return c38qIdent(pr), true
	}
}

// key: the last block; which of the heights from last-2 upwards hold a by-point proposal record of the local and of the
// remote proposer, and the highest height that holds one; per position from last-2 upwards that has returned a proposal
// whether the pool still holds that one, another one or none, whether a tick came since, and how it was lost (names the
// class of a later violation only). Merged states have equal futures: Make / PreferEmpty read lastBlockMap and the record
// of their position (the operation source is data only); the cleaner reads the highest height and removes downwards;
// records and positions below last-2 can never be addressed again (events address last-2..last+2, last never decreases).
func (x *c38wRun) key() string {
	var hs []int

	for h := range x.first {
		if h >= x.last-2 {
			hs = append(hs, h)
		}
	}

	sort.Ints(hs)

	var ps []string

	for _, h := range hs {
		st := "lost"

		switch id, found := x.held(h); {
		case found && id == x.first[h]:
			st = "held"
		case found:
			st = "other"
		}

		if l, ok := x.lost[h]; ok {
			st += fmt.Sprintf("(%s,%v)", c38wBelow(l.belowTop), l.topAbove)
		}

		if x.ticks > x.firstTick[h] {
			st += "+tick"
		}

		ps = append(ps, fmt.Sprintf("%d=%s", h, st))
	}

	var pool []string

	all := c38wProposalHeights(x.db)
	top := -1

	for i, h := range all {
		top = h

		if h < x.last-2 || (i > 0 && all[i-1] == h) {
			continue
		}

		e := fmt.Sprintf("%d", h)

		if _, found := x.held(h); found {
			e += "L"
		}

		if _, found, _ := x.db.ProposalByPoint(c38wPoint(h, 0), x.remote.Address(), c38wBlock(h-1)); found {
			e += "R"
		}

		pool = append(pool, e)
	}

	return fmt.Sprintf("last=%d|top=%d|pool=%v|P%v", x.last, top-x.last, pool, ps)
}

func c38wBelow(n int) string {
	if n >= 3 {
		return ">=3"
	}

	return fmt.Sprintf("%d", n)
}

func (x *c38wRun) apply(ev string, check bool) (vios []c38qVio) {
	env := x.env
	vio := func(sig map[string]any, format string, args ...any) {
		sig["search"] = "cleaner-window"
		vios = append(vios, c38qVio{sig, fmt.Sprintf(format, args...)})
	}

	switch ev[0] {
	case 'A':
		x.last++
		x.obs = "last-block-advanced"

		return nil
	case 'C':
		hs := c38wProposalHeights(x.db)

		before := map[int]bool{}
		for h := range x.first {
			_, before[h] = x.held(h)
		}

		n, err := c38wTick(x.db)
		if err != nil {
			vio(map[string]any{"kind": "error", "call": "cleaner-tick"}, "%v", err)
		}

		x.ticks++

		var nlost, nlive int

		for h, was := range before {
			if _, found := x.held(h); was && !found {
				x.lost[h] = c38wLost{belowTop: hs[len(hs)-1] - h, topAbove: hs[len(hs)-1] > x.last+1}
				nlost++

				if h >= x.last-1 {
					nlive++
				}
			}
		}

		x.obs = fmt.Sprintf("cleaner-tick:removed=%d:of-returned-positions=%d:still-answered=%d", n, nlost, nlive)

		return vios
	case 'R':
		var d int
		if _, err := fmt.Sscanf(ev, "R%d", &d); err != nil {
			panic(err)
		}

		h := x.last + d
		fact := isaac.NewProposalFact(c38wPoint(h, 0), x.remote.Address(), c38wBlock(h-1),
			[][2]util.Hash{{valuehash.NewSHA256([]byte("c38w-remote-op")), valuehash.NewSHA256([]byte("c38w-remote-fact"))}})

		sf := isaac.NewProposalSignFact(fact)
		if err := sf.Sign(x.remote.Privatekey(), env.nid); err != nil {
			panic(err)
		}

		_, had, _ := x.db.ProposalByPoint(c38wPoint(h, 0), x.remote.Address(), c38wBlock(h-1))

		if !had { // a second, later-signed proposal of the remote node for one position is its equivocation, not the subject here
			if _, err := x.db.SetProposal(sf); err != nil {
				panic(err)
			}
		}

		x.obs = fmt.Sprintf("remote-proposal-stored:%v", !had)

		return nil
	}

	// ---- Make / PreferEmpty
	var d int
	if _, err := fmt.Sscanf(ev[1:], "%d", &d); err != nil {
		panic(err)
	}

	h := x.last + d
	point, previous := c38wPoint(h, 0), c38wBlock(h-1)
	call := map[byte]string{'M': "Make", 'E': "PreferEmpty"}[ev[0]]

	prev, again := x.first[h]

	if again {
		// the fact hash and the signature cover the time in milliseconds: a re-made empty proposal must not fall
		// into the millisecond of the first one (then it would be byte-identical and the difference unobservable)
		for localtime.Now().UnixMilli() <= x.firstMs[h]+1 {
		}
	}

	var pr base.ProposalSignFact
	var err error

	switch ev[0] {
	case 'M':
		pr, err = x.pm.Make(context.Background(), point, previous)
	case 'E':
		pr, err = x.pm.PreferEmpty(context.Background(), point, previous)
	default:
		panic("bad event " + ev)
	}

	switch {
	case err != nil && h < x.last-1 && strings.Contains(err.Error(), "too old"):
		x.obs = call + ":refused-too-old"

		return nil
	case err != nil:
		vio(map[string]any{"kind": "error", "call": call}, "%s(height last%+d) with last=%d: %v", call, d, x.last, err)
		x.obs = call + ":error"

		return vios
	case pr == nil:
		vio(map[string]any{"kind": "nil-proposal", "call": call}, "%s(height last%+d) returned nil, nil", call, d)
		x.obs = call + ":nil"

		return vios
	}

	id := c38qIdent(pr)

	if !again {
		x.first[h] = id
		x.firstMs[h] = pr.ProposalFact().ProposedAt().UnixMilli()
		x.firstTick[h] = x.ticks
	}

	aftertick := again && x.ticks > x.firstTick[h]

	x.obs = fmt.Sprintf("%s:d=%+d:%s:n=%d", call, d,
		map[bool]string{true: "again", false: "new"}[again]+map[bool]string{true: "-after-tick", false: ""}[aftertick],
		len(pr.ProposalFact().Operations()))

	if !check {
		return nil
	}

	desc := fmt.Sprintf("%s(point (%d,0) = last%+d, previous block of height %d) with last block %d, pool heights %v",
		call, h, d, h-1, x.last, c38wProposalHeights(x.db))

	// ---- the same signed proposal, however often it is asked
	if again && prev != id {
		sig := map[string]any{"kind": "different-proposal-for-one-position", "second_call": call, "cleaner_tick_between": aftertick}

		l, waslost := x.lost[h]
		sig["removed_by_cleaner_tick"] = waslost

		if waslost {
			sig["heights_below_pool_top"] = c38wBelow(l.belowTop)
			sig["pool_top_beyond_last_plus_1"] = l.topAbove
		}

		vio(sig, "%s returned another signed proposal than the first call for this point and previous block "+
			"(cleaner ticks in between: %d; removed by a tick: %v %+v)", desc, x.ticks-x.firstTick[h], waslost, l)
	}

	// ---- it is the requested position, signed by the local node, and valid
	fact := pr.ProposalFact()

	if !fact.Point().Equal(point) || !fact.Proposer().Equal(env.local.Address()) ||
		fact.PreviousBlock() == nil || !fact.PreviousBlock().Equal(previous) {
		vio(map[string]any{"kind": "proposal-of-another-position"}, "%s; point=%v proposer=%v previous=%v", desc, fact.Point(), fact.Proposer(), fact.PreviousBlock())
	}

	seenop, seenfact := map[string]bool{}, map[string]bool{}
	var dup bool

	for _, e := range fact.Operations() {
		if seenop[e[0].String()] || seenfact[e[1].String()] {
			dup = true
		}

		seenop[e[0].String()], seenfact[e[1].String()] = true, true
	}

	if dup {
		vio(map[string]any{"kind": "duplicate-operation-or-fact-in-proposal"}, "%s", desc)
	}

	if err := pr.IsValid(env.nid); err != nil && !dup {
		vio(map[string]any{"kind": "invalid-proposal"}, "%s: IsValid: %v", desc, err)
	}

	// ---- and it is what the pool holds for the position
	switch hid, found := x.held(h); {
	case !found:
		vio(map[string]any{"kind": "returned-proposal-not-in-pool"}, "%s; ProposalByPoint finds nothing", desc)
	case hid != id:
		vio(map[string]any{"kind": "returned-proposal-differs-from-pool"}, "%s; ProposalByPoint holds another proposal", desc)
	}

	return vios
}

type c38wStart struct {
	name   string
	prefix []string
}

func c38wStarts() []c38wStart {
	out := []c38wStart{{name: "w0"}}

	for n := 3; n <= 5; n++ {
		var p []string

		for i := 0; i < n; i++ {
			if i > 0 {
				p = append(p, "A")
			}

			p = append(p, "M1")
		}

		out = append(out, c38wStart{name: fmt.Sprintf("w%d", n), prefix: p})
	}

	return out
}

func TestVerifC38Clean(t *testing.T) {
	r := vlib.Start("C38")
	defer r.Finish()

	env := c38qNewEnv(t)

	evs := []string{"A", "C", "M-2", "M-1", "M0", "M1", "M2", "E-2", "E-1", "E0", "E1", "E2", "R1", "R2"}
	starts := c38wStarts()

	depth0 := vlib.Pick(r, 5, 7) // from the empty pool
	depthw := vlib.Pick(r, 4, 6) // from a pre-populated window

	_, replaying := r.Replaying()
	if replaying {
		depth0, depthw = 64, 64
	}

	r.Set("cleaner_window_alphabet", evs)
	r.Set("cleaner_window_depth_from_empty_pool", depth0)
	r.Set("cleaner_window_depth_from_prepopulated_pool", depthw)
	r.Rule("cleaner-window unit: BFS over histories of {last block advances; one tick of the pool cleaner; Make and PreferEmpty for heights last-2..last+2; " +
		"a proposal of another proposer stored at last+1, last+2} on a fresh real ProposalMaker + real TempPool per history, starting from the empty pool and from pools " +
		"the maker pre-populated with proposals at 3, 4 and 5 consecutive heights; states deduplicated on the last block, the heights of all proposal records of the pool " +
		"and, per position that has answered, whether the pool still holds that answer; non-trivial = a Make / PreferEmpty repeated for a position after at least one cleaner tick")
	r.Assume("cleaner-window unit: a cleaner tick is the body of the ticker case of TempPool.startClean (cleanRemovedNewOperations, cleanProposals, cleanBallots), called directly; " +
		"getOperations answers a new one-operation list on every call; a repeated call is made at least 2 ms after the first proposal of its position was signed (spun, not judged)")

	const chunkStates = 128

	for si, start := range starts {
		if !r.Mine(si) {
			continue
		}

		depth := depthw
		if len(start.prefix) == 0 {
			depth = depth0
		}

		sid := "win/" + start.name
		seen := map[string]bool{}

		run := func(path []string) (res c38qResult) {
			x := c38wNewRun(env)
			defer x.close()

			// the window is built by the maker itself; its calls are judged too and reported under the start's id
			for _, ev := range start.prefix {
				v := x.apply(ev, true)

				if len(path) == 0 {
					res.vios = append(res.vios, v...)
				}
			}

			for k, ev := range path {
				res.vios = x.apply(ev, k == len(path)-1)
			}

			res.key, res.obs = x.key(), x.obs

			return res
		}

		{
			res := run(nil)
			seen[res.key] = true
			r.State(sid + "#" + res.key)
			r.Sample(map[string]any{"search": sid, "start_history": strings.Join(start.prefix, "/"), "start_state": res.key})

			if !replaying || r.Want(sid) {
				for _, v := range res.vios {
					r.Violation(sid, v.sig, v.detail, map[string]any{"search": sid, "events": start.prefix})
				}
			}
		}

		frontier := [][]string{nil}

	levels:
		for level := 0; level < depth; level++ {
			var next [][]string

			for c0 := 0; c0 < len(frontier); c0 += chunkStates {
				c1 := c0 + chunkStates
				if c1 > len(frontier) {
					c1 = len(frontier)
				}

				if r.Expired() {
					r.Cap(fmt.Sprintf("deadline in search %s at level %d, state %d/%d", sid, level, c0, len(frontier)))

					break levels
				}

				type job struct {
					path []string
					id   string
				}

				var jobs []job

				for _, st := range frontier[c0:c1] {
					for _, ev := range evs {
						path := append(append([]string{}, st...), ev)
						id := sid + "/" + strings.Join(path, "/")

						if rid, rp := r.Replaying(); rp && !strings.HasPrefix(rid, id) {
							continue // a replay expands only the prefixes of the recorded history
						}

						jobs = append(jobs, job{path, id})
					}
				}

				results := make([]c38qResult, len(jobs))
				c38qParallel(len(jobs), func(i int) { results[i] = run(jobs[i].path) })

				for i, j := range jobs {
					res := results[i]

					if !replaying || r.Want(j.id) {
						r.Transition()
						r.Trace()
						r.Eval()
						r.Outcome("win:" + res.obs)
						r.Max("cleaner_window_max_depth", int64(len(start.prefix)+len(j.path)))

						if strings.Contains(res.obs, "-after-tick") {
							r.Nontrivial(j.id)
							r.Add("cleaner_window_repeated_after_tick", 1)
						}

						if strings.HasPrefix(res.obs, "cleaner-tick:") && !strings.Contains(res.obs, "removed=0:") {
							r.Add("cleaner_window_ticks_that_removed", 1)
						}

						for _, v := range res.vios {
							r.Outcome("win:violation:" + fmt.Sprint(v.sig["kind"]))
							r.Violation(j.id, v.sig, v.detail, map[string]any{"search": sid, "events": append(append([]string{}, start.prefix...), j.path...)})
						}
					}

					if seen[res.key] {
						continue
					}

					seen[res.key] = true

					if r.State(sid+"#"+res.key) && len(j.path) == 2 && j.path[0] == "C" && j.path[1][0] == 'M' {
						r.Sample(map[string]any{"search": sid, "history": strings.Join(j.path, "/"), "state": res.key, "last_observation": res.obs})
					}

					next = append(next, j.path)
				}
			}

			frontier = next
			r.Add(fmt.Sprintf("cleaner_window_new_states_%s_depth_%d", start.name, level+1), int64(len(frontier)))
		}
	}
}
