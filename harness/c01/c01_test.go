//go:build verif

package base

import (
	"fmt"
	"strings"
	"testing"

	"github.com/spikeekips/mitum/zzverif/vlib"
)

// C01: vote tally decides MAJORITY / DRAW / NOT YET correctly.
//
// Reference model (from the property statement), for quorum n, required count r,
// per-fact vote counts c_F:
//   r' = min(r, n)                       (nobody can be asked for more than all nodes)
//   MAJORITY(F)  <=>  c_F >= r'
//   DRAW         <=>  no MAJORITY and max_F c_F + max(0, n - sum c) < r'
//   NOT YET      otherwise
// At most one fact is reported; when more than one fact reaches r' (only possible
// with more votes than the quorum, or with r' <= n/2 which no threshold in
// [51,100] produces) the reported fact must reach r' and must not change between
// calls with the same input.
//
// Part A drives base.FindMajority with every r in 0..n+1 and every ordered count
// tuple (<=5 entries, zero entries allowed, total <= n+2).
// Part B drives base.Threshold.VoteResult (-> FindVoteResult -> FindMajority)
// with every threshold 51.0..100.0 step 0.1, r = the implementation's own
// t.Threshold(n) (C02 checks that number), every vote multiset over <=5 facts
// with total 0..n+2, each in every rotation of the fact order.

const (
	c01NotYet = -1
	c01Draw   = -2
)

// c01Ref returns the expected class (-1 not yet, -2 draw, 0 majority) and the set
// of indexes reaching r'.
func c01Ref(n, r uint, counts []uint) (class int, reach []int) {
	rp := r
	if rp > n {
		rp = n
	}

	if len(counts) < 1 {
		// no fact exists: nothing can be majority; the missing nodes (all n) can
		// still reach r' <= n, so it is never a draw.
		return c01NotYet, nil
	}

	var sum, mx uint

	for i, c := range counts {
		if c >= rp {
			reach = append(reach, i)
		}

		sum += c

		if c > mx {
			mx = c
		}
	}

	if len(reach) > 0 {
		return 0, reach
	}

	var missing uint
	if n > sum {
		missing = n - sum
	}

	if mx+missing < rp {
		return c01Draw, nil
	}

	return c01NotYet, nil
}

func c01ClassName(c int) string {
	switch c {
	case c01NotYet:
		return "notyet"
	case c01Draw:
		return "draw"
	default:
		return "majority"
	}
}

// c01Tuples calls f with every ordered tuple of length k (0..maxk) of values
// 0..maxsum (or 1..maxsum when positive) whose total is <= maxsum. With
// nonincreasing=true only nonincreasing tuples (= multisets) are produced.
func c01Tuples(maxk int, maxsum uint, positive, nonincreasing bool, f func([]uint)) {
	cur := make([]uint, 0, maxk)

	var rec func(left uint, last uint)
	rec = func(left uint, last uint) {
		f(cur)

		if len(cur) >= maxk {
			return
		}

		lo := uint(0)
		if positive {
			lo = 1
		}

		hi := left
		if nonincreasing && len(cur) > 0 && last < hi {
			hi = last
		}

		for v := lo; v <= hi; v++ {
			cur = append(cur, v)
			rec(left-v, v)
			cur = cur[:len(cur)-1]
		}
	}

	rec(maxsum, maxsum)
}

func c01Join(c []uint) string {
	s := make([]string, len(c))
	for i := range c {
		s[i] = fmt.Sprintf("%d", c[i])
	}

	return strings.Join(s, ".")
}

const c01MaxFacts = 5

var c01Facts = []string{"a", "b", "c", "d", "e"}

func TestVerifC01(t *testing.T) {
	r := vlib.Start("C01")
	defer r.Finish()

	N := vlib.Pick(r, 8, 12)
	const repeats = 20

	r.Rule("A: FindMajority on every (n in 1..N, r in 0..n+1, ordered count tuple of <=5 entries incl. zeros, total<=n+2); " +
		"B: Threshold.VoteResult on every (n in 1..N, t in 51.0..100.0 step 0.1, vote multiset over <=5 facts with total 0..n+2, every rotation of fact order), " +
		"20 repeated calls when >=2 facts voted (Go map order). Non-trivial = >=2 facts voted and the case sits on a decision boundary " +
		"(leading count in {r'-1,r'} or leading+missing in {r'-1,r'}) or has more votes than the quorum")
	r.Set("n_max", N)
	r.Set("max_facts", c01MaxFacts)
	r.Set("extra_votes_over_quorum", 2)
	r.Set("thresholds", 491)
	r.Set("repeats_per_presentation", repeats)
	r.Assume("required count on the VoteResult path is the exact integer ceil(n*t/100), independent of the implementation")
	r.Assume("Go map iteration order is chosen by the runtime; each multi-fact presentation is evaluated 20 times in up to 5 insertion orders instead of enumerating map orders")

	item := 0

	// ---- Part A: FindMajority ----
	for n := uint(1); n <= uint(N); n++ {
		for rq := uint(0); rq <= n+1; rq++ {
			item++
			if !r.Mine(item) {
				continue
			}

			if r.Expired() {
				return
			}

			c01PartA(r, n, rq)
		}
	}

	// ---- Part B: VoteResult ----
	for n := uint(1); n <= uint(N); n++ {
		for t10 := 510; t10 <= 1000; t10++ {
			item++
			if !r.Mine(item) {
				continue
			}

			if r.Expired() {
				return
			}

			c01PartB(t, r, n, t10, repeats)
		}
	}
}

func c01PartA(r *vlib.Run, n, rq uint) {
	c01Tuples(c01MaxFacts, n+2, false, false, func(counts []uint) {
		id := fmt.Sprintf("A/n=%d/r=%d/set=%s", n, rq, c01Join(counts))
		if !r.Want(id) {
			return
		}

		r.Eval()
		r.StatesN(1)

		want, reach := c01Ref(n, rq, counts)

		var sum uint
		for _, c := range counts {
			sum += c
		}

		over := sum > n

		// FindMajority sorts its argument in place; hand it a copy
		arg := make([]uint, len(counts))
		copy(arg, counts)

		got := FindMajority(n, rq, arg...)

		oc := c01ClassName(want)
		if over {
			oc += "+over-quorum"
		}

		r.Outcome("A:" + oc)

		if over || c01Boundary(n, rq, counts) {
			r.NontrivialN(1)
		}

		if n == 3 && rq == 2 && len(counts) == 2 {
			r.Sample(map[string]any{"part": "A", "n": n, "r": rq, "set": append([]uint{}, counts...), "FindMajority": got, "expected_class": c01ClassName(want)})
		}

		switch {
		case want == 0:
			ok := false
			for _, i := range reach {
				if i == got {
					ok = true
				}
			}

			if !ok {
				r.Violation(id, map[string]any{"kind": "wrong-result", "path": "FindMajority", "expected": "majority", "got": c01ClassName(got), "over_quorum": over},
					fmt.Sprintf("FindMajority(quorum=%d, threshold=%d, set=%v) = %d; indexes reaching r'=min(r,n): %v", n, rq, counts, got, reach),
					map[string]any{"n": n, "r": rq, "set": append([]uint{}, counts...)})
			}
		case got != want:
			r.Violation(id, map[string]any{"kind": "wrong-result", "path": "FindMajority", "expected": c01ClassName(want), "got": c01ClassName(got), "over_quorum": over},
				fmt.Sprintf("FindMajority(quorum=%d, threshold=%d, set=%v) = %d (%s); reference says %s (sum=%d)", n, rq, counts, got, c01ClassName(got), c01ClassName(want), sum),
				map[string]any{"n": n, "r": rq, "set": append([]uint{}, counts...)})
		}
	})
}

func c01Boundary(n, rq uint, counts []uint) bool {
	nz := 0

	var sum, mx uint

	for _, c := range counts {
		if c > 0 {
			nz++
		}

		sum += c

		if c > mx {
			mx = c
		}
	}

	if nz < 2 {
		return false
	}

	rp := rq
	if rp > n {
		rp = n
	}

	var missing uint
	if n > sum {
		missing = n - sum
	}

	return mx == rp || mx+1 == rp || mx+missing == rp || mx+missing+1 == rp
}

func c01PartB(t *testing.T, r *vlib.Run, n uint, t10 int, repeats int) {
	th := Threshold(float64(t10) / 10)

	var th2 Threshold
	if err := th2.UnmarshalText([]byte(fmt.Sprintf("%d.%d", t10/10, t10%10))); err != nil {
		t.Fatal(err)
	}

	// the required count of the reference is the exact ceil(n*t/100) in integers (tenths), not the
	// implementation's own Threshold.Threshold(n): a tally that counts against a wrong required count is wrong
	// (C02 checks Threshold.Threshold on the full grid; here it is checked where it decides a tally)
	rq := uint((uint64(n)*uint64(t10) + 999) / 1000)
	if rq > n {
		rq = n
	}
	_ = th2

	c01Tuples(c01MaxFacts, n+2, true, true, func(counts []uint) {
		k := len(counts)

		want, reach := c01Ref(n, rq, counts)

		var sum uint
		for _, c := range counts {
			sum += c
		}

		over := sum > n

		rots := k
		if rots < 1 {
			rots = 1
		}

	rotloop:
		for rot := 0; rot < rots; rot++ {
			id := fmt.Sprintf("B/n=%d/t10=%d/votes=%s/rot=%d", n, t10, c01Join(counts), rot)
			if !r.Want(id) {
				continue
			}

			// fact i (in rotated order) gets counts[(i+rot)%k] votes, so both the
			// insertion order and the count<->name assignment vary
			cnt := map[string]uint{}
			votes := make([]string, 0, sum)

			for i := 0; i < k; i++ {
				c := counts[(i+rot)%k]
				cnt[c01Facts[i]] = c

				for j := uint(0); j < c; j++ {
					votes = append(votes, c01Facts[i])
				}
			}

			reachNames := map[string]bool{}
			for _, i := range reach {
				reachNames[c01Facts[(i-rot+k)%k]] = true
			}

			oc := c01ClassName(want)
			if over {
				oc += "+over-quorum"
			}

			if len(reach) > 1 {
				oc += "+multi-reach"
			}

			r.Outcome("B:" + oc)
			r.StatesN(1)

			if over || c01Boundary(n, rq, counts) {
				r.NontrivialN(1)
			}

			reps := 1
			if k >= 2 {
				reps = repeats
			}

			var firstKey string

			for rep := 0; rep < reps; rep++ {
				in := make([]string, len(votes))
				copy(in, votes)

				res, key := th.VoteResult(n, in)
				r.Eval()

				if rep == 0 {
					firstKey = key

					if n == 4 && t10 == 670 && k == 2 && rot == 0 {
						r.Sample(map[string]any{"part": "B", "n": n, "t": th.String(), "required": rq, "votes": strings.Join(votes, ""), "result": res.String(), "key": key})
					}
				}

				var gotc int

				switch res {
				case VoteResultMajority:
					gotc = 0
				case VoteResultDraw:
					gotc = c01Draw
				case VoteResultNotYet:
					gotc = c01NotYet
				default:
					gotc = -99
				}

				replay := map[string]any{"n": n, "t10": t10, "required": rq, "votes": strings.Join(votes, "")}

				switch {
				case gotc != want:
					r.Violation(id, map[string]any{"kind": "wrong-result", "path": "VoteResult", "expected": c01ClassName(want), "got": c01ClassName(gotc), "over_quorum": over},
						fmt.Sprintf("Threshold(%s).VoteResult(quorum=%d, votes=%v) = %s %q; required=%d, counts=%v sum=%d; reference says %s",
							th, n, votes, res, key, rq, cnt, sum, c01ClassName(want)),
						replay)

					continue rotloop
				case want == 0 && !reachNames[key]:
					r.Violation(id, map[string]any{"kind": "majority-key-not-reaching", "path": "VoteResult", "over_quorum": over},
						fmt.Sprintf("Threshold(%s).VoteResult(quorum=%d, votes=%v) = MAJORITY %q but %q has %d votes < required %d",
							th, n, votes, key, key, cnt[key], rq),
						replay)

					continue rotloop
				case want != 0 && key != "":
					r.Violation(id, map[string]any{"kind": "key-without-majority", "path": "VoteResult", "over_quorum": over},
						fmt.Sprintf("Threshold(%s).VoteResult(quorum=%d, votes=%v) = %s with non-empty key %q", th, n, votes, res, key),
						replay)

					continue rotloop
				case want == 0 && key != firstKey:
					r.Violation(id, map[string]any{"kind": "majority-key-unstable", "path": "VoteResult", "over_quorum": over, "facts_reaching": len(reach)},
						fmt.Sprintf("Threshold(%s).VoteResult(quorum=%d, votes=%v) reported MAJORITY for %q on call 1 and for %q on call %d of the same input (required=%d, counts=%v): two facts are reported as majority",
							th, n, votes, firstKey, key, rep+1, rq, cnt),
						replay)

					continue rotloop
				}
			}
		}
	})
}
