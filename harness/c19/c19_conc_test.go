//go:build verif

package isaacdatabase

import (
	"context"
	"fmt"
	"strings"
	"testing"

	"github.com/spikeekips/mitum/base"
	"github.com/spikeekips/mitum/isaac"
	"github.com/spikeekips/mitum/zzverif/vlib"
	"github.com/spikeekips/mitum/zzverif/vsched"
)

// C19 (concurrent half, engine S): "Concurrent reads during merges never see a
// state older than one already returned."
//
// Threads on one real Center (LeveldbPermanent, TempLeveldb, in-memory goleveldb):
//
//	reader  two consecutive reads of the same thing (LastBlockMap / State(A) / State(B) / State(network policy) / LastNetworkPolicy)
//	merger  Center.mergePermanent, then Center.cleanRemoved(limit)    (the body of the ticker loop; the loop itself is not run)
//	writer  Center.MergeBlockWriteDatabase(next block, written before the exploration starts)
//
// Oracle per execution (logical clock ticks at every call and return):
//   - every read equals the model (committed chain) at some instant between its call and its return: the chain
//     only changes when the writer's commit happens, so a read that returned before the commit was called must
//     answer from the old chain, a read called after the commit returned from the new chain, any other read from one of them;
//   - the second read is not older (block height of the answer) than the first;
//   - no call returns an error, nothing deadlocks.
//
// cleanRemoved is explored with the production limit (3: nothing is removed in these short runs) and with
// limit 0 (the merged temp is removed from the storage immediately, while the reader may still hold it in its
// snapshot of the temps); violations under limit 0 carry "clean":"immediate" in their signature.

type c19cScenario struct {
	name    string
	initial string // kinds of the committed blocks, all in temps, e.g. "GS"
	merged  int    // how many of them are merged into the permanent database before the exploration
	next    byte   // kind of the block the writer commits
	read    string // lastmap | stateA | stateB | statePolicy (State of the network policy key) | policy (LastNetworkPolicy)
	clean   int    // limit of cleanRemoved
	writer  bool   // with the writer thread (otherwise reader || merger only)
	reads   int    // consecutive reads of the reader (1 or 2)
	nomerge bool   // without the merger thread (reader || writer only)
}

func (c c19cScenario) id() string {
	return fmt.Sprintf("%s|initial=%s|merged=%d|next=%c|writer=%v|merger=%v|read=%dx%s|clean=%d", c.name, c.initial, c.merged, c.next, c.writer, !c.nomerge, c.reads, c.read, c.clean)
}

type c19cRead struct {
	call, ret int
	answer    string
	err       error
}

type c19cObs struct {
	clock int
	reads []c19cRead

	writeCall, writeRet int
	writeErr            error
	mergeErr            error
	cleanErr            error
	merged              bool
}

func (o *c19cObs) tick() int { o.clock++; return o.clock }

func c19cHeightOf(name string) int {
	id := vfBlockOf(name)
	if id == "" {
		return -1
	}

	var h int
	if _, err := fmt.Sscanf(id, "h%d:", &h); err != nil {
		return -1
	}

	return h
}

// the database of the previous execution is closed when the next one is built
// (the explorer does not call Check for every execution)
var c19cPrev *vfDB

// No goroutine of the natively executed parts (setup in Build, the reads of
// Check: job goroutines of SetStates / Center.dig / the permanent merge that
// are still releasing their semaphore when the call has already returned) may
// be alive when a controlled execution starts: the shims decide between native
// and controlled behaviour on one global flag. vfSettle waits for them.

func c19cBuild(env *vfEnv, c c19cScenario) vsched.Scenario {
	if c19cPrev != nil {
		vfSettle()
		c19cPrev.closeNow()
	}

	db := env.newDB(0)
	c19cPrev = db

	defer vfSettle()
	o := &c19cObs{}

	var m vfModel

	for _, kind := range []byte(c.initial) {
		b := env.block(len(m.blocks), kind, m.sufh(), 0)
		vfMust(db.center.MergeBlockWriteDatabase(db.newWriter(b)))
		m.blocks = append(m.blocks, b)
	}

	for i := 0; i < c.merged; i++ {
		merged, err := db.center.mergePermanent(context.Background())
		vfMust(err)

		if !merged {
			panic("harness: nothing to merge in the scenario setup")
		}

		m.merged++
	}

	next := env.block(len(m.blocks), c.next, m.sufh(), 0)
	wst := db.newWriter(next)

	after := vfModel{blocks: append(append([]*vfBlock(nil), m.blocks...), next), merged: m.merged}

	answer := func(mm *vfModel) string {
		d := env.domain(len(after.blocks), nil)
		a := env.expect(mm, d, true)

		switch c.read {
		case "lastmap":
			return a["LastBlockMap()"]
		case "stateA":
			return a["State("+vfKeyA+")"]
		case "stateB":
			return a["State("+vfKeyB+")"]
		case "statePolicy":
			return a["State("+isaac.NetworkPolicyStateKey+")"]
		default:
			return a["LastNetworkPolicy()"]
		}
	}

	if !c.writer {
		after = m
	}

	before, afterAnswer := answer(&m), answer(&after)

	read := func() (string, error) {
		switch c.read {
		case "lastmap":
			mp, found, err := db.center.LastBlockMap()
			if err != nil || !found {
				return vfNotFound, err
			}

			return env.mapName(mp), nil
		case "stateA", "stateB", "statePolicy":
			key := vfKeyA

			switch c.read {
			case "stateB":
				key = vfKeyB
			case "statePolicy": // only the oldest temp (the one the merger moves) has it
				key = isaac.NetworkPolicyStateKey
			}

			st, found, err := db.center.State(key)
			if err != nil || !found {
				return vfNotFound, err
			}

			return env.stateName(st), nil
		default:
			p := db.center.LastNetworkPolicy()
			if p == nil {
				return vfNotFound, nil
			}

			return env.lookup("policy", p.HashBytes()), nil
		}
	}

	reader := func() {
		for i := 0; i < c.reads; i++ {
			vsched.Point("reader", nil)

			r := c19cRead{call: o.tick()}
			r.answer, r.err = read()
			r.ret = o.tick()
			o.reads = append(o.reads, r)
		}
	}

	merger := func() {
		vsched.Point("merger", nil)

		o.merged, o.mergeErr = db.center.mergePermanent(context.Background())
		o.cleanErr = db.center.cleanRemoved(c.clean)
	}

	writer := func() {
		vsched.Point("writer", nil)

		o.writeCall = o.tick()
		o.writeErr = db.center.MergeBlockWriteDatabase(wst)
		o.writeRet = o.tick()
	}

	clean := "limit-3"
	if c.clean == 0 {
		clean = "immediate"
	}

	fail := func(kind, detail string) *vsched.Fail {
		return &vsched.Fail{
			Sig:    map[string]any{"kind": kind, "read": c.read, "clean": clean},
			Detail: fmt.Sprintf("%s | %s | reads=%+v write=[%d,%d] merged=%v", detail, c.id(), o.reads, o.writeCall, o.writeRet, o.merged),
		}
	}

	roots := []func(){reader}
	if !c.nomerge {
		roots = append(roots, merger)
	}

	if c.writer {
		roots = append(roots, writer)
	}

	return vsched.Scenario{
		Roots: roots,
		Outcome: func(*vsched.Exec) string {
			var l []string

			for _, r := range o.reads {
				switch r.answer {
				case before:
					l = append(l, "old")
				case afterAnswer:
					l = append(l, "new")
				default:
					l = append(l, "other")
				}
			}

			return c.read + ":" + strings.Join(l, ",")
		},
		Check: func(x *vsched.Exec) *vsched.Fail {
			switch {
			case x.Panic != nil:
				return fail("panic", fmt.Sprint(x.Panic))
			case x.Deadlock:
				return fail("deadlock", "a root thread is blocked forever")
			case o.writeErr != nil:
				return fail("write-error", o.writeErr.Error())
			case o.mergeErr != nil:
				return fail("merge-error", o.mergeErr.Error())
			case o.cleanErr != nil:
				return fail("clean-error", o.cleanErr.Error())
			case len(o.reads) != c.reads:
				return fail("reader-did-not-finish", "")
			}

			for i, r := range o.reads {
				if r.err != nil {
					return fail("read-error", fmt.Sprintf("read %d: %v", i, r.err))
				}

				allowed := []string{before, afterAnswer}

				switch {
				case !c.writer, r.ret < o.writeCall:
					allowed = []string{before}
				case r.call > o.writeRet:
					allowed = []string{afterAnswer}
				}

				ok := false
				for _, a := range allowed {
					ok = ok || a == r.answer
				}

				if !ok {
					return fail("read-not-in-model", fmt.Sprintf("read %d answered %s; allowed between its call and return: %v", i, r.answer, allowed))
				}
			}

			if c.reads > 1 {
				if h0, h1 := c19cHeightOf(o.reads[0].answer), c19cHeightOf(o.reads[1].answer); h1 < h0 ||
					(o.reads[0].answer != vfNotFound && o.reads[1].answer == vfNotFound) {
					return fail("read-went-back", fmt.Sprintf("first read %s, second read %s", o.reads[0].answer, o.reads[1].answer))
				}
			}

			// quiescence: everything agrees with the model after the run
			d := env.domain(len(after.blocks), after.blocks)
			got := env.readAll(db.center, d)
			want := env.expect(&after, d, true)

			for _, q := range vfSortedKeys(got, want) {
				if got[q] == want[q] {
					continue
				}

				// defects of the sequential half (fix candidates) are its business
				if m := vfMethod(q); m == "SuffrageProof" || m == "SuffrageProofBytes" || m == "SuffrageProofByBlockHeight" || m == "LastSuffrageProofBytes" {
					continue
				}

				return fail("quiescent-read-mismatch", fmt.Sprintf("%s = %s, model says %s", q, got[q], want[q]))
			}

			return nil
		},
	}
}

func TestVerifC19S(t *testing.T) {
	r := vlib.Start("C19")
	defer r.Finish()

	env := vfNewEnv()

	bound := 1 // bound 2 is ~10^5..10^6 executions per scenario at ~100-300 executions/s (real leveldb under every execution): not affordable

	var cfgs []c19cScenario

	add := func(name, initial string, merged int, read string, reads, clean int, writer bool) {
		cfgs = append(cfgs, c19cScenario{name: name, initial: initial, merged: merged, next: 'S', read: read, reads: reads, clean: clean, writer: writer})
	}

	for _, clean := range []int{3, 0} {
		// reader || merger || writer: the answer changes while the oldest temp moves (two reads: never back)
		add("two-temps", "GS", 0, "lastmap", 2, clean, true)

		// reader || merger: the key is only in the temp that moves (network policy state: only in G; B: only in block 1),
		// or its newest value is (A: older value in the permanent database)
		if clean == 3 || r.Thorough() {
			add("two-temps", "GS", 0, "statePolicy", 1, clean, false)
		}

		if clean == 0 || r.Thorough() {
			add("perm+two-temps", "GSP", 1, "stateA", 1, clean, false)
		}

		if !r.Thorough() {
			continue
		}

		add("perm+two-temps", "GSS", 1, "lastmap", 2, clean, true)

		if clean == 3 {
			// reader || writer (all three threads with a State read are ~3*10^5 executions)
			cfgs = append(cfgs, c19cScenario{name: "two-temps", initial: "GS", next: 'S', read: "stateA", reads: 2, clean: clean, writer: true, nomerge: true})
		}

		add("two-temps", "GS", 0, "statePolicy", 2, clean, false)
		add("perm+two-temps", "GSP", 1, "stateA", 2, clean, false)
		add("two-temps", "GO", 0, "stateA", 1, clean, false)
		add("perm+two-temps", "GSO", 1, "stateB", 1, clean, false)
		add("perm+three-temps", "GSPS", 1, "lastmap", 2, clean, false)

		cfgs = append(cfgs,
			c19cScenario{name: "two-temps-policy", initial: "GP", next: 'P', read: "lastmap", reads: 2, clean: clean, writer: true},
			c19cScenario{name: "two-temps-policy", initial: "GP", next: 'P', read: "policy", reads: 2, clean: clean, writer: true},
		)
	}

	r.Rule("per scenario (initial chain x kind of the new block x kind of read x cleanRemoved limit x with/without writer) every interleaving of reader (1 or 2 reads) || merger (mergePermanent; cleanRemoved) [|| writer (MergeBlockWriteDatabase)] (one scenario: reader || writer) and of the job goroutines Center.dig / the permanent merge spawn, within the preemption bound (every shard explores a disjoint set of first-level subtrees of every scenario); non-trivial = a scenario in which more than one read outcome class was observed")
	r.Assume("goleveldb, gcache and zerolog run as atomic steps of the calling thread; state caches are off (their map-ordered traversal would make the schedule depend on Go's map order); data races are invisible to the cooperative scheduler")
	r.Set("preemption_bound", bound)
	r.Set("scenarios_enumerated", len(cfgs))

	_ = base.NilHeight

	sh, nsh := r.Shard()

	for i, c := range cfgs {
		c := c
		id := c.id()
		build := func() vsched.Scenario { return c19cBuild(env, c) }

		if rid, rp := r.Replaying(); rp {
			k := strings.LastIndex(rid, "#")
			if k < 0 || rid[:k] != id {
				continue
			}

			sc := build()
			x := vsched.Run(vsched.Options{Prefix: vsched.ParseChoices(rid[k+1:])}, sc.Roots...)
			r.Trace()

			if f := sc.Check(x); f != nil {
				r.Violation(rid, f.Sig, f.Detail, nil)
			}

			continue
		}

		if r.Expired() {
			continue
		}

		// every shard explores every scenario, each a disjoint set of first-level subtrees
		res := vsched.Explore(vsched.Config{Name: id, Bound: bound, Build: build, Expired: r.Expired, MaxFound: 2, Horizon: 20000,
			Mine: func(l int) bool { return nsh <= 1 || l%nsh == sh }, Secondary: sh != 0})
		if res.EngineError != "" {
			panic("engine error in " + id + ": " + res.EngineError)
		}

		r.TraceN(res.Executions)
		r.TransitionN(res.Points)
		r.EvalN(res.Executions)
		if sh == 0 {
			r.Add("scenarios", 1)
			r.Set("executions_of_shard_0:"+id, res.Executions)
		}

		if res.Capped != "" {
			r.Cap(res.Capped)
		} else {
			r.Min("preemption_bound_completed", int64(res.BoundCompleted))
		}

		r.Max("max_points_per_execution", int64(res.MaxPoints))

		if len(res.Outcomes) > 1 {
			r.Nontrivial(id)
		}

		for o := range res.Outcomes {
			r.State(id + "=>" + o)
			r.Outcome(o)
		}

		for _, f := range res.Found {
			r.Violation(id+"#"+vsched.ChoicesString(f.Choices), f.Fail.Sig, f.Fail.Detail+fmt.Sprintf(" (preemptions=%d)", f.Preempt), nil)
		}

		if sh == 0 && i < 4 {
			r.Sample(map[string]any{"scenario": id, "executions_of_shard_0": res.Executions, "outcomes": res.Outcomes})
		}
	}
}
