//go:build verif

package isaacdatabase

import (
	"fmt"
	"strings"
	"testing"

	"github.com/spikeekips/mitum/util"
	"github.com/spikeekips/mitum/zzverif/vlib"
)

// C19 (sequential half, engine Q): database reads agree with the committed chain.
//
// Explicit-state BFS over event histories on the REAL Center + LeveldbPermanent
// + LeveldbBlockWrite/TempLeveldb over one in-memory goleveldb (fixture and
// event alphabet: vfix_test.go). After EVERY transition every read of the full
// query domain is compared with the model that simply keeps the committed
// blocks (vfEnv.expect), and the value returned by the event itself
// (merged / removed flags, errors) with the model's.
//
// The pure side of the search (model + predicted hidden state, vfPure) is run
// by every shard, so state merging is global; a transition is executed on the
// real objects (fresh database, history replayed, last event checked) by
// exactly one shard.

type c19Vio struct {
	sig    map[string]any
	detail string
}

func c19Compare(mode string, m *vfModel, got, want vfAnswers) []c19Vio {
	var vios []c19Vio

	for _, q := range vfSortedKeys(got, want) {
		g, gok := got[q]
		w, wok := want[q]

		if gok == wok && g == w {
			continue
		}

		// the parts of a *Bytes read are only compared when both sides found it
		if part := vfPart(q); part == "enchint" || part == "meta" || part == "body" || part == "lastheight" {
			f := q[:len(q)-len(part)] + "found"
			if got[f] != want[f] {
				continue
			}
		}

		vios = append(vios, c19Vio{
			sig: map[string]any{
				"kind": "read-mismatch", "cache": mode, "read": vfMethod(q), "part": vfPart(q),
				"class": vfClass(m, g, gok, w, wok), "where": vfWhere(m, q),
			},
			detail: fmt.Sprintf("%s = %s, the committed chain [%s] (first %d in the permanent database) says %s",
				q, vfShow(g, gok), m.ids(), m.merged, vfShow(w, wok)),
		})
	}

	return vios
}

type c19Search struct {
	r         *vlib.Run
	env       *vfEnv
	cachesize int
	maxblocks int
	depth     int
	name      string
	mode      string // state caches: "none", "per-block" (a new cache for every block writer), "shared" (one for all)

	depthoverride int
	prefix        []string // the search starts after these events (their states are covered by the search without prefix)
	writercache   int      // per-block mode: cache size of the block writers (0: cachesize)
	seqstates     bool
	permbatch     int // LeveldbPermanent.batchlimit (0: default 333)
	counter       *int
}

// execute replays hist on a fresh database; the last event and the reads after
// it are checked. It returns the violations and the hidden state of the real objects.
func (s *c19Search) execute(hist []string) (vios []c19Vio, hidden string, outcome string) {
	db := s.env.newDB(s.cachesize)
	defer db.close()

	if s.writercache > 0 || s.seqstates || s.permbatch > 0 {
		db.writercache, db.seqstates, db.permbatch = s.writercache, s.seqstates, s.permbatch
		db.reopen() // NOTE nothing was written yet; the permanent batch limit is set when opening
	}

	if s.mode == "shared" {
		db.shared = util.NewLFUGCache[string, [2]interface{}](s.cachesize)
	}

	p := vfNewPure(s.cachesize, s.maxblocks)

	for i, ev := range hist {
		last := i == len(hist)-1

		blk, wantflag := p.apply(s.env, ev)
		flag, err := db.apply(ev, blk)

		d := s.env.domain(s.maxblocks, p.ever)

		if !last {
			if err != nil {
				panic(fmt.Sprintf("harness: event %s of %v failed in a replay: %+v", ev, hist, err))
			}

			// reads of the earlier steps (they were checked when that prefix was the history):
			// only the part that has an effect on the objects
			for _, k := range d.keys {
				_, _, _ = db.center.State(k)
			}

			p.afterReads(d)

			continue
		}

		outcome = fmt.Sprintf("%c:%v", ev[0], flag)

		switch {
		case err != nil:
			vios = append(vios, c19Vio{
				sig:    map[string]any{"kind": "event-error", "event": ev[:1]},
				detail: fmt.Sprintf("event %s returned an error: %v", ev, err),
			})
		case flag != wantflag:
			vios = append(vios, c19Vio{
				sig:    map[string]any{"kind": "event-result", "event": ev[:1], "got": flag},
				detail: fmt.Sprintf("event %s returned %v, the committed chain says %v", ev, flag, wantflag),
			})
		}

		got := s.env.readAll(db.center, d)
		want := s.env.expect(&p.m, d, true)

		vios = append(vios, c19Compare(s.mode, &p.m, got, want)...)
		s.r.Add("reads", int64(len(got)))

		p.afterReads(d)

		hidden = db.hidden(nil)

		if h := p.hidden(); h != hidden && s.mode != "shared" {
			s.r.Add("hidden_state_prediction_mismatches", 1)
			s.r.Sample(map[string]any{"hidden_state_prediction_mismatch": strings.Join(hist, "/"), "real": hidden, "predicted": h})
		}
	}

	return vios, hidden, outcome
}

func (s *c19Search) run() {
	r := s.r

	type node struct {
		hist []string
		p    *vfPure
	}

	d0 := s.env.domain(s.maxblocks, nil)

	root := vfNewPure(s.cachesize, s.maxblocks)

	for _, ev := range s.prefix {
		root.apply(s.env, ev)
		root.afterReads(d0)
	}

	frontier := []node{{p: root, hist: s.prefix}}
	seen := map[string]bool{root.key(): true}

	for depth := 1; depth <= s.depth && len(frontier) > 0; depth++ {
		var next []node

		for _, nd := range frontier {
			for _, ev := range nd.p.enabled() {
				hist := append(append([]string(nil), nd.hist...), ev)
				id := s.name + "/" + strings.Join(hist, "/")

				idx := *s.counter
				*s.counter++

				if r.Mine(idx) && r.Want(id) && !r.Expired() {
					vios, _, outcome := s.execute(hist)

					r.Eval()
					r.Transition()
					r.Trace()
					r.Outcome(outcome)

					if len(vios) > 0 {
						r.Outcome("violation")
					}

					for _, v := range vios {
						r.Violation(id, v.sig, v.detail, map[string]any{"search": s.name, "history": hist})
					}

					if idx%997 == 0 {
						r.Sample(map[string]any{"history": id, "violations": len(vios), "outcome": outcome})
					}
				}

				child := nd.p.clone()
				child.apply(s.env, ev)
				child.afterReads(d0)

				k := child.key()
				if seen[k] {
					continue
				}

				seen[k] = true

				// states are counted once, by the shard that executed the transition which found them
				if r.Mine(idx) {
					r.State(s.name + "|" + k)

					if child.temps() > 0 && child.m.merged > 0 {
						r.Nontrivial(s.name + "|" + k)
					}
				}

				r.Max("depth_reached", int64(depth))

				next = append(next, node{hist: hist, p: child})
			}
		}

		frontier = next
	}
}

// tree enumerates every history up to the depth without state merging (used
// for the shared state cache, whose content is not part of the state key).
func (s *c19Search) tree(hist []string, p *vfPure) {
	r := s.r

	if len(hist) >= s.depth {
		return
	}

	for _, ev := range p.enabled() {
		h := append(append([]string(nil), hist...), ev)
		id := s.name + "/" + strings.Join(h, "/")

		idx := *s.counter
		*s.counter++

		if r.Mine(idx) && r.Want(id) && !r.Expired() {
			vios, _, outcome := s.execute(h)

			r.Eval()
			r.Transition()
			r.Trace()
			r.State(id)
			r.Outcome(outcome)

			if len(vios) > 0 {
				r.Outcome("violation")
			}

			for _, v := range vios {
				r.Violation(id, v.sig, v.detail, map[string]any{"search": s.name, "history": h})
			}

			if idx%997 == 0 {
				r.Sample(map[string]any{"history": id, "violations": len(vios), "outcome": outcome})
			}
		}

		child := p.clone()
		child.apply(s.env, ev)

		if r.Mine(idx) && child.temps() > 0 && child.m.merged > 0 {
			r.Nontrivial(id)
		}

		s.tree(h, child)
	}
}

func TestVerifC19(t *testing.T) {
	r := vlib.Start("C19")
	defer r.Finish()

	env := vfNewEnv()

	depth := vlib.Pick(r, 5, 6)
	maxblocks := vlib.Pick(r, 4, 5)
	shareddepth := vlib.Pick(r, 3, 5)

	r.Rule("BFS over event histories (alphabet: write+commit the next block of kind S/F/P/O - genesis G first -, abandoned block write U, mergePermanent m, MergeAllPermanent M, RemoveBlocks(h) for every h from one below the lowest temp to one above the last block, cleanRemoved(0) c) " +
		"to the stated depth with at most the stated number of committed blocks, once without state caches and a permanent batch limit of 2, once with a permanent state cache (16) and block writers whose cache (1) is smaller than their blocks and a batch limit of 3 (thorough: also both with the default limit 333 and writer caches of 16); a state is the committed chain (block ids) + how many blocks are in the permanent database + temps waiting for cleanup + prefix storages of the block-write area + predicted permanent state cache + per-height write counters; " +
		"after every transition all reads over the full query domain (heights 0..bound+1, suffrage heights 0..bound+1, 5 state keys, every operation/fact hash of every block ever written in the history + an unknown one) are compared with the slice-of-committed-blocks model; " +
		"non-trivial = a state with at least one temp and at least one block in the permanent database")
	r.Assume("block map is base.DummyBlockMap over a real isaac.Manifest and the suffrage proof is the harness type vfProof (isaac/block cannot be imported from inside isaac/database); goleveldb and the JSON encoder are trusted")
	r.Assume("earlier steps of a replayed history only repeat the State(key) reads (the only reads that change the real objects: permanent state cache)")
	r.Set("depth", depth)
	r.Set("max_blocks", maxblocks)
	r.Set("cache_modes", []string{"none/batchlimit 2", "per-block(permanent 16, writers 1)/batchlimit 3", "shared(16)", "thorough: + none and per-block(16) with the default batch limit 333"})
	r.Set("depth_shared_cache", shareddepth)

	counter := 0

	searches := []*c19Search{
		// every block of the alphabet is merged into the permanent database in several batches
		{name: "cache-none-batch2", mode: "none", permbatch: 2},
		// block writers with a state cache smaller than their blocks (states set one by one: the last one survives),
		// permanent cache large enough for every key
		{name: "cache-per-block-tiny-writer-cache-batch3", mode: "per-block", cachesize: 16, writercache: 1, seqstates: true, permbatch: 3},
	}

	// the same from a chain whose genesis block is in the permanent database and whose states were read from there
	// (a key cached by a read, then overwritten by a block that is merged, needs 6 events from the empty database)
	searches = append(searches, &c19Search{
		name: "cache-per-block-tiny-writer-cache-batch3-from-merged-genesis", mode: "per-block", cachesize: 16, writercache: 1, seqstates: true, permbatch: 3,
		prefix: []string{"WG", "WO", "m"}, depthoverride: vlib.Pick(r, 3, 4),
	})

	if r.Thorough() {
		searches = append(searches,
			&c19Search{name: "cache-none", mode: "none"},
			&c19Search{name: "cache-per-block", mode: "per-block", cachesize: 16},
		)
	}

	for _, s := range searches {
		s.r, s.env, s.maxblocks, s.depth, s.counter = r, env, maxblocks, depth, &counter

		if s.depthoverride > 0 {
			s.depth = s.depthoverride
		}

		s.run()
	}

	r.Set("transitions_bfs", counter)

	{
		s := &c19Search{r: r, env: env, cachesize: 16, maxblocks: maxblocks, depth: shareddepth, name: "cache-shared", mode: "shared", counter: &counter}
		s.tree(nil, vfNewPure(16, maxblocks))
	}

	r.Set("transitions_total", counter)
}
