//go:build verif

package quicstreamheader

import (
	"bytes"
	"context"
	"fmt"
	"io"
	"net"
	"strings"

	"github.com/pkg/errors"
	"github.com/spikeekips/mitum/util/hint"
	"github.com/spikeekips/mitum/zzverif/vlib"
)

// part "fault": writer-side faults injected into the well-formed sequences (<= 1 fault per stream).
//
// class A (healthy transport, the write fails before/without I/O error): a head whose
//   Encoder.Marshal fails, a nil response header, a body with a nil reader (fixed length > 0,
//   stream), an invalid body type. The failed write must put nothing on the stream: the
//   peer reads exactly the frames whose write returned nil, as written.
//     c/direct  : ClientBroker, the following frames of the sequence are written after the failure
//     s/direct  : HandlerBroker, same
//     s/handler : through NewHandler: the callback writes the frames and returns the first error,
//                 the default error handler writes the error response head; the peer reads the
//                 frames before the failure and then that error response head (ok=false, same text)
// class B (broken transport): the underlying writer fails at its k-th Write call (0 bytes, or half
//   of the bytes taken) and at every later call (a QUIC stream without write deadline never
//   recovers), for every Write call of the last frame of every sequence; c/direct stops at the
//   first error, s through NewHandler (the error handler's write fails alike). The peer reads
//   the frames whose write returned nil as written, then gets an error at the failed frame (a
//   stream body, which has no length, may come back as a prefix of what was written); never a panic.

var c30errFault = errors.New("c30 injected writer fault")

type c30faultSink struct {
	c30sink
	calls   int
	failAt  int // 1-based Write call; 0 = never
	partial bool
	broken  bool
}

func (s *c30faultSink) Write(p []byte) (int, error) {
	s.calls++

	if s.broken || (s.failAt > 0 && s.calls == s.failAt) {
		n := 0

		if !s.broken && s.partial {
			n = len(p) / 2
			_, _ = s.c30sink.Write(p[:n])
		}

		s.broken = true

		return n, c30errFault
	}

	return s.c30sink.Write(p)
}

type c30badResponseHeader struct {
	BaseResponseHeader
}

func (c30badResponseHeader) MarshalJSON() ([]byte, error) {
	return nil, errors.Errorf("c30 fault: unsupported value in response header")
}

type c30badRequestHeader struct {
	RequestHeader
}

func (c30badRequestHeader) MarshalJSON() ([]byte, error) {
	return nil, errors.Errorf("c30 fault: unsupported value in request header")
}

var c30badResHint = hint.MustNewHint("c30-bad-response-header-v0.0.1")

// faults applicable to a message (class A)
func c30faultsOf(m c30msg) []string {
	switch {
	case m.kind == "req":
		return []string{"marshal"}
	case m.kind == "res":
		return []string{"marshal", "nilheader"}
	case m.btype == StreamBodyType, m.btype == FixedLengthBodyType && len(m.body) > 0:
		return []string{"nilreader", "badtype"}
	default:
		return []string{"badtype"}
	}
}

type c30writer struct {
	c    *c30
	dir  string
	cb   *ClientBroker
	hb   *HandlerBroker
	sink *c30faultSink
}

// write one message, with an optional class A fault
func (w *c30writer) write(m c30msg, fault string) error {
	c := w.c

	switch m.kind {
	case "req":
		var h RequestHeader = c.env.reqs[m.req]
		if fault == "marshal" {
			h = c30badRequestHeader{RequestHeader: h}
		}

		return w.cb.WriteRequestHead(c.ctx, h)
	case "res":
		var h ResponseHeader

		switch fault {
		case "marshal":
			h = c30badResponseHeader{BaseResponseHeader: NewBaseResponseHeader(c30badResHint, m.ok, nil)}
		case "nilheader":
		default:
			var rerr error
			if m.errs != "" {
				rerr = errors.New(m.errs)
			}

			h = NewDefaultResponseHeader(m.ok, rerr)
		}

		return w.hb.WriteResponseHead(c.ctx, h)
	default:
		bt := m.btype

		var body io.Reader = bytes.NewReader(m.body)

		switch fault {
		case "nilreader":
			body = nil
		case "badtype":
			bt = BodyType{0x07}
		}

		if w.cb != nil {
			return w.cb.WriteBody(c.ctx, bt, uint64(len(m.body)), body)
		}

		return w.hb.WriteBody(c.ctx, bt, uint64(len(m.body)), body)
	}
}

type c30faultCase struct {
	dir     string
	path    string // "direct" "handler"
	seq     []c30msg
	at      int    // index of the faulted frame
	fault   string // class A fault, or "writer"
	k       int    // class B: Write call within the faulted frame (1-based)
	partial bool
}

func (fc c30faultCase) id() string {
	s := make([]string, len(fc.seq))
	for i := range fc.seq {
		s[i] = fc.seq[i].id()

		if i == fc.at {
			s[i] += "!" + fc.fault

			if fc.fault == "writer" {
				s[i] += fmt.Sprintf("%d", fc.k)

				if fc.partial {
					s[i] += "p"
				}
			}
		}
	}

	return "fault/" + fc.dir + "/" + fc.path + "/" + strings.Join(s, ",")
}

type c30faultResult struct {
	b        []byte
	ok       []c30msg // frames whose write returned nil, in order (plus the error response head in path handler)
	failed   *c30msg  // class B: the frame at which the writer broke
	writes   int      // Write calls made by the faulted frame in this run (class B enumeration)
	accepted bool     // the faulted write returned nil although nothing of it can be read back (class A)
	werr     error
	broke    bool // class B: the writer fault fired
}

// runFault executes one faulted write side on the real brokers.
func (c *c30) runFault(fc c30faultCase) (res c30faultResult) {
	sink := &c30faultSink{partial: fc.partial}
	w := &c30writer{c: c, dir: fc.dir, sink: sink}

	// frames are written one by one; stop=true: stop at the first error
	writeAll := func(stop bool) error {
		for i := range fc.seq {
			fault := ""

			if i == fc.at {
				if fc.fault == "writer" {
					sink.failAt = sink.calls + fc.k
				} else {
					fault = fc.fault
				}
			}

			before := sink.calls
			err := w.write(fc.seq[i], fault)

			if i == fc.at {
				res.writes = sink.calls - before
				res.werr = err
			}

			switch {
			case err == nil && i == fc.at && fault != "":
				res.accepted = true
			case err == nil:
				res.ok = append(res.ok, fc.seq[i])
			case i != fc.at && !sink.broken:
				panic(fmt.Sprintf("c30 fault harness: unfaulted write of %s failed: %v", fc.seq[i].id(), err))
			case i == fc.at && fc.fault == "writer":
				m := fc.seq[i]
				res.failed = &m
			}

			if err != nil && stop {
				return err
			}
		}

		return nil
	}

	switch {
	case fc.dir == "c":
		w.cb = NewClientBroker(c.env.encs, c.env.enc, bytes.NewReader(nil), sink)
		_ = writeAll(fc.fault == "writer" || fc.at == 0)
	default:
		reqsink := &c30sink{}
		if err := NewClientBroker(c.env.encs, c.env.enc, bytes.NewReader(nil), reqsink).WriteRequestHead(c.ctx, c.env.reqs[len(fc.seq)%len(c.env.reqs)]); err != nil {
			panic(err)
		}

		reqb := reqsink.Bytes()[32:]

		if fc.path == "direct" {
			w.hb = NewHandlerBroker(c.env.encs, nil, bytes.NewReader(reqb), sink)
			if _, err := w.hb.ReadRequestHead(c.ctx); err != nil {
				panic(err)
			}

			_ = writeAll(false)

			break
		}

		called := false

		h := NewHandler[RequestHeader](c.env.encs,
			func(ctx context.Context, _ net.Addr, broker *HandlerBroker, _ RequestHeader) (context.Context, error) {
				called = true
				w.hb = broker

				return ctx, writeAll(true)
			},
			nil,
		)

		_, herr := h(c.ctx, nil, bytes.NewReader(reqb), sink)

		if !called {
			panic(fmt.Sprintf("c30 fault harness: handler callback not called: %v", herr))
		}

		// the default error handler reported the callback's error with an error response head
		if res.werr != nil && herr == nil {
			res.ok = append(res.ok, c30msg{kind: "res", ok: false, errs: res.werr.Error()})
		}
	}

	res.b = append([]byte(nil), sink.Bytes()...)
	res.broke = sink.broken

	return res
}

// readFailedFrame: the frame `m` was being written when the writer broke; nothing follows.
func (c *c30) readFailedFrame(rb *baseBroker, m c30msg, i int) (diff, kind string) {
	bt, bl, body, _, res, err := rb.ReadBody(c.ctx)

	switch {
	case err != nil:
		return "", ""
	case res != nil:
		return fmt.Sprintf("message %d (%s): its write failed, but the peer read a response head without error", i, m.id()), "ghost-head"
	case m.kind != "body":
		return fmt.Sprintf("message %d (%s): its write failed, but the peer read a body (type %v) without error", i, m.id(), bt), "ghost-body"
	case bt == EmptyBodyType:
		return fmt.Sprintf("message %d (%s): its write failed, but the peer read an empty body without error", i, m.id()), "ghost-body"
	case body == nil:
		return fmt.Sprintf("message %d (%s): nil body reader", i, m.id()), "body"
	}

	got, err := io.ReadAll(body)

	switch {
	case bt == StreamBodyType && m.btype == StreamBodyType:
		// a stream body has no length: a truncated one is a prefix
		if !bytes.HasPrefix(m.body, got) {
			return fmt.Sprintf("message %d (%s): stream body %x after a failed write of %x", i, m.id(), got, m.body), "misframed-body"
		}

		return "", ""
	case err != nil:
		return "", ""
	default:
		return fmt.Sprintf("message %d (%s): its write failed, but the peer read a body (type %v, length %d, %x) without error", i, m.id(), bt, bl, got), "ghost-body"
	}
}

func (c *c30) faultCase(fc c30faultCase) (writes int) {
	r := c.r
	sid := fc.id()

	if !r.WantPrefix(sid) {
		return 0
	}

	var res c30faultResult

	if p, msg := vlib.Catch(func() { res = c.runFault(fc) }); p {
		if strings.Contains(msg, "c30 fault harness") {
			panic(msg)
		}

		c.vio(sid+"/write", map[string]any{"kind": "panic", "side": "write-fault", "fault": fc.fault, "path": fc.path}, "writing "+sid+" panicked: "+msg, map[string]any{"id": sid + "/write"})

		return 0
	}

	r.State(sid)

	if res.accepted {
		// the statement says nothing about a write that accepts an invalid argument
		r.Outcome("fault:" + fc.fault + ":accepted")

		return res.writes
	}

	if fc.fault == "writer" && !res.broke {
		// k is beyond the Write calls of the frame
		return res.writes
	}

	failed := res.failed

	if fc.dir == "c" && fc.at == 0 && fc.fault != "writer" {
		// WriteRequestHead writes the prefix before the head; nothing legal can follow a failed
		// request head on a client stream: the peer must get an error for the head
		m := fc.seq[0]
		failed = &m
	}

	for _, ch := range []struct {
		name string
		cuts []int
	}{{"whole", nil}, {"every1", c30every(len(res.b), 1)}, {"every7", c30every(len(res.b), 7)}} {
		for _, ewd := range []bool{false, true} {
			id := fmt.Sprintf("%s/%s/eofwd=%v", sid, ch.name, ewd)
			if !r.Want(id) {
				continue
			}

			r.Eval()
			r.Trace()
			r.TransitionN(int64(len(fc.seq)))
			r.Nontrivial(id)
			r.Add("fault_cases", 1)

			var diff, kind string

			if p, msg := vlib.Catch(func() { diff, kind = c.readSeqFailed(fc.dir, res.ok, failed, res.b, ch.cuts, ewd) }); p {
				c.vio(id, map[string]any{"kind": "panic", "side": "read-after-fault", "fault": fc.fault}, fmt.Sprintf("reading %s (%s): panic: %s", sid, ch.name, msg), map[string]any{"id": id})

				continue
			}

			if diff != "" {
				oks := make([]string, len(res.ok))
				for i := range res.ok {
					oks[i] = res.ok[i].id()
				}

				c.vio(id, map[string]any{"kind": "fault-roundtrip-differs", "dir": fc.dir, "path": fc.path, "fault": fc.fault, "message": kind},
					fmt.Sprintf("%s: write error %q; frames whose write returned nil: [%s]; stream %d bytes %x; chunking %s, eofWithData=%v: %s",
						sid, fmt.Sprint(res.werr), strings.Join(oks, ","), len(res.b), res.b, ch.name, ewd, diff), map[string]any{"id": id, "hex": fmt.Sprintf("%x", res.b)})

				continue
			}

			cls := "rest-read-back"
			if failed != nil {
				cls = "error-at-failed-frame"
			}

			r.Outcome(fmt.Sprintf("fault:%s:%s:%s:%s", fc.dir, fc.path, fc.fault, cls))
		}
	}

	return res.writes
}

// faultWork: the work items of the fault part for one base sequence.
func (c *c30) faultWork(dir string, seq []c30msg) {
	last := len(seq) - 1

	// class A, direct, the following frames are written after the failure
	for at := range seq {
		if dir == "c" && at == 0 && len(seq) > 1 {
			continue // nothing legal follows a failed request head
		}

		for _, f := range c30faultsOf(seq[at]) {
			c.faultCase(c30faultCase{dir: dir, path: "direct", seq: seq, at: at, fault: f})
		}
	}

	// class A through NewHandler and its default error handler: fault in the last frame
	if dir == "s" {
		for _, f := range c30faultsOf(seq[last]) {
			c.faultCase(c30faultCase{dir: dir, path: "handler", seq: seq, at: last, fault: f})
		}
	}

	// class B: every Write call of the last frame
	path := "direct"
	if dir == "s" {
		path = "handler"
	}

	// the number of Write calls of the last frame, from a run without fault
	n := c.countWrites(dir, path, seq)
	c.r.Max("fault_write_calls_per_frame_max", int64(n))

	for _, partial := range []bool{false, true} {
		for k := 1; k <= n; k++ {
			c.faultCase(c30faultCase{dir: dir, path: path, seq: seq, at: last, fault: "writer", k: k, partial: partial})
		}
	}
}

func (c *c30) countWrites(dir, path string, seq []c30msg) int {
	res := c.runFault(c30faultCase{dir: dir, path: path, seq: seq, at: len(seq) - 1, fault: "writer", k: 1 << 20})

	return res.writes
}
