//go:build verif

package quicstreamheader

import (
	"bytes"
	"context"
	"encoding/binary"
	"encoding/json"
	"fmt"
	"io"
	"math"
	"reflect"
	"sort"
	"strconv"
	"strings"
	"testing"

	"github.com/pkg/errors"
	"github.com/spikeekips/mitum/network/quicstream"
	"github.com/spikeekips/mitum/util"
	"github.com/spikeekips/mitum/util/encoder"
	jsonenc "github.com/spikeekips/mitum/util/encoder/json"
	"github.com/spikeekips/mitum/util/hint"
	"github.com/spikeekips/mitum/zzverif/vlib"
)

// C30: stream header protocol round-trips and survives hostile peers.
//
// Wire format (reference, written from broker.go's writer side and the statement):
//   request  : prefix[32]  0x01  lengthed(encoder hint)  lengthed(header JSON)
//   response :             0x03  lengthed(encoder hint)  lengthed(header JSON)
//   body     :             0x02  bodytype{0x01 empty | 0x02 fixed len:u64 payload[len] | 0x03 stream payload..EOF}
//   lengthed = len:u64 big endian, payload[len]
//
// part "wf"      every legal message sequence (<= maxMsgs per direction) written by the real
//                brokers, read back by the peer's broker under every enumerated chunking;
//                everything read must equal what was written.
// part "hostile" every token sequence (<= depth) over a protocol-aware alphabet fed to each
//                read entry point; result must be an error or a well-formed message; no panic.
//                Announced lengths are capped at 64 MiB (1<<26): the reader allocates the
//                announced length before reading; sequences that would make it allocate more
//                are excluded and counted.

const c30maxAlloc = 1 << 26

// ---------------------------------------------------------------- headers used

var (
	c30plainHint = hint.MustNewHint("c30-plain-request-header-v0.0.1")
	c30richHint  = hint.MustNewHint("c30-rich-request-header-v0.0.1")
)

// a request header without any field of its own
type c30plainHeader struct {
	BaseRequestHeader
}

func (h c30plainHeader) MarshalJSON() ([]byte, error) {
	return util.MarshalJSON(struct{ BaseRequestHeader }{h.BaseRequestHeader})
}

func (h *c30plainHeader) UnmarshalJSON(b []byte) error {
	return util.UnmarshalJSON(b, &h.BaseRequestHeader)
}

// a request header with number / bytes / text fields
type c30richHeader struct {
	BaseRequestHeader
	S string
	B []byte
	N int64
}

type c30richJSON struct {
	S string `json:"s"`
	B []byte `json:"b"`
	N int64  `json:"n"`
}

func (h c30richHeader) MarshalJSON() ([]byte, error) {
	return util.MarshalJSON(struct {
		BaseRequestHeader
		c30richJSON
	}{h.BaseRequestHeader, c30richJSON{S: h.S, B: h.B, N: h.N}})
}

func (h *c30richHeader) UnmarshalJSON(b []byte) error {
	if err := util.UnmarshalJSON(b, &h.BaseRequestHeader); err != nil {
		return err
	}

	var u c30richJSON
	if err := util.UnmarshalJSON(b, &u); err != nil {
		return err
	}

	h.S, h.B, h.N = u.S, u.B, u.N

	return nil
}

type c30env struct {
	encs *encoder.Encoders
	enc  encoder.Encoder
	reqs []RequestHeader
}

func c30newEnv() *c30env {
	enc := jsonenc.NewEncoder()
	encs := encoder.NewEncoders(enc, enc)

	for _, d := range []encoder.DecodeDetail{
		{Hint: DefaultResponseHeaderHint, Instance: DefaultResponseHeader{}},
		{Hint: dummyRequestHeaderHint, Instance: dummyRequestHeader{}},
		{Hint: c30plainHint, Instance: c30plainHeader{}},
		{Hint: c30richHint, Instance: c30richHeader{}},
	} {
		if err := encs.AddDetail(d); err != nil {
			panic(err)
		}
	}

	return &c30env{
		encs: encs, enc: enc,
		reqs: []RequestHeader{
			newDummyRequestHeader("c30-dummy", "id-\"quoted\"-é"),
			c30plainHeader{BaseRequestHeader: NewBaseRequestHeader(c30plainHint, quicstream.HashPrefix("c30-plain"))},
			c30richHeader{BaseRequestHeader: NewBaseRequestHeader(c30richHint, quicstream.HashPrefix("c30-rich")), S: "x\n\\ ", B: []byte{0, 0xff, 0x7f}, N: math.MinInt64},
		},
	}
}

// ---------------------------------------------------------------- stream plumbing

type c30chunks struct {
	b           []byte
	cuts        []int
	pos         int
	ci          int
	eofWithData bool
	eofHit      bool
	reads       int
}

func (r *c30chunks) Read(p []byte) (int, error) {
	r.reads++

	if len(p) == 0 {
		return 0, nil
	}

	if r.pos >= len(r.b) {
		r.eofHit = true

		return 0, io.EOF
	}

	for r.ci < len(r.cuts) && r.cuts[r.ci] <= r.pos {
		r.ci++
	}

	end := len(r.b)
	if r.ci < len(r.cuts) {
		end = r.cuts[r.ci]
	}

	n := copy(p, r.b[r.pos:end])
	r.pos += n

	if r.pos == len(r.b) && r.eofWithData {
		r.eofHit = true

		return n, io.EOF
	}

	return n, nil
}

type c30sink struct {
	bytes.Buffer
	closed bool
}

func (s *c30sink) Close() error {
	s.closed = true

	return nil
}

func (s *c30sink) Write(p []byte) (int, error) {
	if s.closed {
		return 0, errors.Errorf("write on closed stream")
	}

	return s.Buffer.Write(p)
}

func c30cutsID(cuts []int) string {
	if cuts == nil {
		return "whole"
	}

	s := make([]string, len(cuts))
	for i := range cuts {
		s[i] = strconv.Itoa(cuts[i])
	}

	return strings.Join(s, ".")
}

func c30every(n, size int) []int {
	var cuts []int
	for p := size; p < n; p += size {
		cuts = append(cuts, p)
	}

	return cuts
}

// ---------------------------------------------------------------- well-formed sequences

type c30msg struct {
	kind  string // "req" "res" "body"
	req   int    // request header index
	ok    bool   // response ok
	errs  string // response error text
	btype BodyType
	body  []byte
}

func (m c30msg) id() string {
	switch m.kind {
	case "req":
		return fmt.Sprintf("req%d", m.req)
	case "res":
		if m.ok {
			return "resOK"
		}

		return "resERR"
	default:
		switch m.btype {
		case EmptyBodyType:
			return "empty"
		case FixedLengthBodyType:
			return fmt.Sprintf("fixed%d", len(m.body))
		default:
			return fmt.Sprintf("stream%d", len(m.body))
		}
	}
}

func c30seqID(seq []c30msg) string {
	s := make([]string, len(seq))
	for i := range seq {
		s[i] = seq[i].id()
	}

	return strings.Join(s, ",")
}

var c30bodies = []c30msg{
	{kind: "body", btype: EmptyBodyType},
	{kind: "body", btype: FixedLengthBodyType, body: []byte{}},
	{kind: "body", btype: FixedLengthBodyType, body: []byte{0x02}},                         // looks like a data type byte
	{kind: "body", btype: FixedLengthBodyType, body: []byte{0x03, 0x00, 0x01, 0xff, 0x02}}, //
	{kind: "body", btype: StreamBodyType, body: []byte{}},
	{kind: "body", btype: StreamBodyType, body: []byte{0x01, 0x02, 0x03, 0x00, 0xfe}},
}

// c30tails: every legal continuation of `n` more messages drawn from alphabet
// (a stream body ends the direction).
func c30tails(alphabet []c30msg, n int) [][]c30msg {
	out := [][]c30msg{nil}

	if n == 0 {
		return out
	}

	for _, m := range alphabet {
		if m.kind == "body" && m.btype == StreamBodyType {
			out = append(out, []c30msg{m})

			continue
		}

		for _, t := range c30tails(alphabet, n-1) {
			out = append(out, append([]c30msg{m}, t...))
		}
	}

	return out
}

type c30 struct {
	r   *vlib.Run
	env *c30env
	ctx context.Context
}

func (c *c30) vio(id string, sig map[string]any, detail string, replay any) {
	c.r.Outcome("VIOLATION:" + fmt.Sprint(sig["kind"]))
	c.r.Violation(id, sig, detail, replay)
}

// writeSeq produces the bytes of one direction with the real writers and the
// structural boundaries inside them.
func (c *c30) writeSeq(dir string, seq []c30msg) (b []byte, bounds []int, err error) {
	sink := &c30sink{}

	var write func(m c30msg) error

	mark := func(offs ...int) {
		p := sink.Len()
		for _, o := range offs {
			bounds = append(bounds, p+o)
		}
	}

	hintLen := len(c.env.enc.Hint().Bytes())

	switch dir {
	case "c":
		cb := NewClientBroker(c.env.encs, c.env.enc, bytes.NewReader(nil), sink)
		write = func(m c30msg) error {
			if m.kind == "req" {
				js, _ := c.env.enc.Marshal(c.env.reqs[m.req])
				mark(32, 33, 41, 41+hintLen, 49+hintLen, 49+hintLen+len(js))

				return cb.WriteRequestHead(c.ctx, c.env.reqs[m.req])
			}

			c30markBody(mark, m)

			return cb.WriteBody(c.ctx, m.btype, uint64(len(m.body)), bytes.NewReader(m.body))
		}
	default:
		// the handler side learns its encoder from a request head, as in NewHandler
		reqsink := &c30sink{}
		if err := NewClientBroker(c.env.encs, c.env.enc, bytes.NewReader(nil), reqsink).WriteRequestHead(c.ctx, c.env.reqs[len(seq)%len(c.env.reqs)]); err != nil {
			return nil, nil, err
		}

		hb := NewHandlerBroker(c.env.encs, nil, bytes.NewReader(reqsink.Bytes()[32:]), sink)
		if _, err := hb.ReadRequestHead(c.ctx); err != nil {
			return nil, nil, err
		}

		write = func(m c30msg) error {
			if m.kind == "res" {
				var rerr error
				if m.errs != "" {
					rerr = errors.New(m.errs)
				}

				h := NewDefaultResponseHeader(m.ok, rerr)
				js, _ := c.env.enc.Marshal(h)
				mark(1, 9, 9+hintLen, 17+hintLen, 17+hintLen+len(js))

				return hb.WriteResponseHead(c.ctx, h)
			}

			c30markBody(mark, m)

			return hb.WriteBody(c.ctx, m.btype, uint64(len(m.body)), bytes.NewReader(m.body))
		}
	}

	for i := range seq {
		if err := write(seq[i]); err != nil {
			return nil, nil, errors.WithMessagef(err, "write message %d (%s)", i, seq[i].id())
		}
	}

	return sink.Bytes(), bounds, nil
}

func c30markBody(mark func(...int), m c30msg) {
	switch m.btype {
	case FixedLengthBodyType:
		mark(1, 2, 10, 10+len(m.body))
	default:
		mark(1, 2, 2+len(m.body))
	}
}

// readSeq reads one direction back with the peer's broker and compares.
// It returns "" or a description of the first difference.
func (c *c30) readSeq(dir string, seq []c30msg, b []byte, cuts []int, ewd bool) (diff string, kind string) {
	return c.readSeqFailed(dir, seq, nil, b, cuts, ewd)
}

// readSeqFailed: like readSeq; when failed != nil the stream ends in a frame whose
// write FAILED with a broken writer (nothing is written after it): after seq was
// read back as written, the reader must get an error at that frame (see c30_fault_test.go).
func (c *c30) readSeqFailed(dir string, okseq []c30msg, failed *c30msg, b []byte, cuts []int, ewd bool) (diff string, kind string) {
	cr := &c30chunks{b: b, cuts: cuts, eofWithData: ewd}

	seq := okseq
	if failed != nil {
		seq = append(append([]c30msg(nil), okseq...), *failed)
	}

	nok := len(okseq)

	var rb *baseBroker
	var readFirstHead func() error

	switch dir {
	case "c":
		hb := NewHandlerBroker(c.env.encs, nil, cr, &c30sink{})
		rb = hb.baseBroker
		readFirstHead = func() error {
			// the prefix is consumed by quicstream.PrefixHandler before the broker sees the stream
			var prefix quicstream.HandlerPrefix
			if _, err := util.EnsureRead(c.ctx, cr, prefix[:]); err != nil {
				return errors.WithMessage(err, "prefix")
			}

			want := c.env.reqs[seq[0].req]
			if prefix != want.Handler() {
				return errors.Errorf("prefix %x, written %x", prefix, want.Handler())
			}

			got, err := hb.ReadRequestHead(c.ctx)
			if err != nil {
				return err
			}

			if hb.Encoder == nil || !hb.Encoder.Hint().Equal(c.env.enc.Hint()) {
				return errors.Errorf("handler broker encoder %v after ReadRequestHead", hb.Encoder)
			}

			return c.sameHeader(got, want)
		}
	default:
		cb := NewClientBroker(c.env.encs, c.env.enc, cr, &c30sink{})
		rb = cb.baseBroker

		if len(seq) > 0 && seq[0].kind == "res" {
			readFirstHead = func() error {
				enc, got, err := cb.ReadResponseHead(c.ctx)
				if err != nil {
					return err
				}

				return c.sameResponse(enc, got, seq[0])
			}
		}
	}

	start := 0

	if readFirstHead != nil {
		switch err := readFirstHead(); {
		case nok == 0 && failed != nil:
			if err == nil {
				return fmt.Sprintf("message 0 (%s): its write failed, but the peer read a head without error", seq[0].id()), "ghost-head"
			}

			return "", ""
		case err != nil:
			return fmt.Sprintf("message 0 (%s): %v", seq[0].id(), err), "head"
		}

		start = 1
	}

	for i := start; i < nok; i++ {
		m := seq[i]

		bt, bl, body, enc, res, err := rb.ReadBody(c.ctx)
		if err != nil {
			return fmt.Sprintf("message %d (%s): ReadBody: %v", i, m.id(), err), m.kind
		}

		if m.kind == "res" {
			if res == nil {
				return fmt.Sprintf("message %d (%s): ReadBody returned a body (type %v) where a response head was written", i, m.id(), bt), "res"
			}

			if err := c.sameResponse(enc, res, m); err != nil {
				return fmt.Sprintf("message %d (%s): %v", i, m.id(), err), "res"
			}

			continue
		}

		if res != nil {
			return fmt.Sprintf("message %d (%s): ReadBody returned a response head where a body was written", i, m.id()), "body"
		}

		if bt != m.btype {
			return fmt.Sprintf("message %d (%s): body type %v", i, m.id(), bt), "body"
		}

		var got []byte

		switch {
		case m.btype == EmptyBodyType:
			if body != nil || bl != 0 {
				return fmt.Sprintf("message %d (%s): empty body came back with reader=%v length=%d", i, m.id(), body != nil, bl), "body"
			}

			continue
		case body == nil:
			return fmt.Sprintf("message %d (%s): nil body reader", i, m.id()), "body"
		}

		if got, err = io.ReadAll(body); err != nil {
			return fmt.Sprintf("message %d (%s): reading the body: %v", i, m.id(), err), "body"
		}

		if !bytes.Equal(got, m.body) {
			return fmt.Sprintf("message %d (%s): body %x, written %x", i, m.id(), got, m.body), "body"
		}

		if m.btype == FixedLengthBodyType && bl != uint64(len(m.body)) {
			return fmt.Sprintf("message %d (%s): body length %d", i, m.id(), bl), "body"
		}
	}

	if failed != nil {
		return c.readFailedFrame(rb, *failed, nok)
	}

	// nothing may be left, and a further read must fail
	if _, _, _, _, _, err := rb.ReadBody(c.ctx); err == nil {
		return "a further ReadBody after the last message succeeded", "trailing"
	}

	if cr.pos != len(b) {
		return fmt.Sprintf("%d of %d bytes consumed", cr.pos, len(b)), "trailing"
	}

	return "", ""
}

func (c *c30) sameHeader(got, want RequestHeader) error {
	if got == nil {
		return errors.Errorf("nil request header")
	}

	if reflect.TypeOf(got) != reflect.TypeOf(want) {
		return errors.Errorf("request header type %T, written %T", got, want)
	}

	gb, err := c.env.enc.Marshal(got)
	if err != nil {
		return err
	}

	wb, _ := c.env.enc.Marshal(want)
	if !bytes.Equal(gb, wb) {
		return errors.Errorf("request header %s, written %s", gb, wb)
	}

	return nil
}

func (c *c30) sameResponse(enc encoder.Encoder, got ResponseHeader, m c30msg) error {
	switch {
	case got == nil:
		return errors.Errorf("nil response header")
	case enc == nil || !enc.Hint().Equal(c.env.enc.Hint()):
		return errors.Errorf("encoder %v", enc)
	case got.OK() != m.ok:
		return errors.Errorf("ok=%v, written %v", got.OK(), m.ok)
	case (got.Err() == nil) != (m.errs == ""), got.Err() != nil && got.Err().Error() != m.errs:
		return errors.Errorf("err=%v, written %q", got.Err(), m.errs)
	}

	if _, ok := got.(DefaultResponseHeader); !ok {
		return errors.Errorf("response header type %T", got)
	}

	return nil
}

// chunkings for a stream: whole, all-1-byte, every single cut, every pair of
// cuts from the structural boundary set (+-1 when wide)
func c30chunkings(n int, bounds []int, wide bool, f func(name string, cuts []int)) {
	f("whole", nil)
	f("every1", c30every(n, 1))
	f("every7", c30every(n, 7))

	for p := 1; p < n; p++ {
		f("at"+strconv.Itoa(p), []int{p})
	}

	set := map[int]struct{}{}

	for _, p := range bounds {
		for d := -1; d <= 1; d++ {
			if !wide && d != 0 {
				continue
			}

			if q := p + d; q > 0 && q < n {
				set[q] = struct{}{}
			}
		}
	}

	ps := make([]int, 0, len(set))
	for p := range set {
		ps = append(ps, p)
	}

	sort.Ints(ps)

	for i := range ps {
		for j := i + 1; j < len(ps); j++ {
			f(fmt.Sprintf("at%d.%d", ps[i], ps[j]), []int{ps[i], ps[j]})
		}
	}
}

func (c *c30) wellFormed(dir string, seq []c30msg, wide bool) {
	r := c.r
	sid := "wf/" + dir + "/" + c30seqID(seq)

	if !r.WantPrefix(sid) {
		return
	}

	var b []byte
	var bounds []int
	var err error

	if p, msg := vlib.Catch(func() { b, bounds, err = c.writeSeq(dir, seq) }); p {
		c.vio(sid+"/write", map[string]any{"kind": "panic", "side": "write"}, "writing "+sid+" panicked: "+msg, nil)

		return
	}

	if err != nil {
		c.vio(sid+"/write", map[string]any{"kind": "write-error", "dir": dir}, fmt.Sprintf("writing %s: %v", sid, err), nil)

		return
	}

	r.State(sid)
	r.Max("wf_stream_bytes_max", int64(len(b)))
	r.Sample(map[string]any{"direction": dir, "messages": c30seqID(seq), "bytes": len(b)})

	for _, ewd := range []bool{false, true} {
		c30chunkings(len(b), bounds, wide, func(name string, cuts []int) {
			id := fmt.Sprintf("%s/%s/eofwd=%v", sid, name, ewd)
			if !r.Want(id) {
				return
			}

			r.Eval()
			r.Trace()
			r.TransitionN(int64(len(seq)))

			if cuts != nil {
				r.Nontrivial(id)
			}

			var diff, kind string

			if p, msg := vlib.Catch(func() { diff, kind = c.readSeq(dir, seq, b, cuts, ewd) }); p {
				c.vio(id, map[string]any{"kind": "panic", "side": "read-wellformed"}, fmt.Sprintf("reading %s (cuts %s): panic: %s", sid, name, msg), map[string]any{"id": id})

				return
			}

			if diff != "" {
				c.vio(id, map[string]any{"kind": "roundtrip-differs", "dir": dir, "message": kind, "chunking": strings.TrimRight(name, "0123456789.")},
					fmt.Sprintf("%s, %d bytes, chunking %s, eofWithData=%v: %s", sid, len(b), name, ewd, diff), map[string]any{"id": id, "hex": fmt.Sprintf("%x", b)})

				return
			}

			r.Outcome("wf:ok:" + dir)
		})
	}
}

// ---------------------------------------------------------------- hostile token sequences

type c30token struct {
	name string
	b    []byte
}

func c30u64(i uint64) []byte {
	b := make([]byte, 8)
	binary.BigEndian.PutUint64(b, i)

	return b
}

func (c *c30) tokens() []c30token {
	enc := c.env.enc
	reqJS, _ := enc.Marshal(c.env.reqs[0])
	resJS, _ := enc.Marshal(NewDefaultResponseHeader(false, errors.New("nope")))
	hintb := enc.Hint().Bytes()

	t := []c30token{
		{"b01", []byte{0x01}}, // data type request  / body type empty
		{"b02", []byte{0x02}}, // data type body     / body type fixed
		{"b03", []byte{0x03}}, // data type response / body type stream
		{"b00", []byte{0x00}}, // invalid type
		{"bff", []byte{0xff}}, // invalid type
	}

	for _, l := range []struct {
		n string
		v uint64
	}{
		{"L0", 0}, {"L1", 1}, {"L4", 4}, {"L5", 5},
		{"Lhint", uint64(len(hintb))}, {"Lhint+1", uint64(len(hintb)) + 1},
		{"Lreq", uint64(len(reqJS))}, {"Lreq+1", uint64(len(reqJS)) + 1}, {"Lres", uint64(len(resJS))},
		{"L64MiB", c30maxAlloc}, {"L2^31", 1 << 31}, {"Lmax", math.MaxUint64},
	} {
		t = append(t, c30token{l.n, c30u64(l.v)})
	}

	t = append(t,
		c30token{"hint", hintb},
		c30token{"hintUnknown", []byte("xson-encoder-v0.0.1")},
		c30token{"hintGarbage", []byte("\xff\x00no version")},
		c30token{"jsReq", reqJS},
		c30token{"jsRes", resJS},
		c30token{"jsNull", []byte("null")},
		c30token{"jsNotHeader", []byte(`{"_hint":"json-encoder-v0.0.1"}`)},
		c30token{"jsBadField", []byte(`{"_hint":"dummy-request-header-v1.2.3","id":5}`)},
		c30token{"jsGarbage", []byte(`{{{"`)},
		c30token{"hello", []byte("hello")},
		// complete lengthed fields, so that whole heads fit into the depth bound
		c30token{"lenc", append(c30u64(uint64(len(hintb))), hintb...)},
		c30token{"lreq", append(c30u64(uint64(len(reqJS))), reqJS...)},
		c30token{"lres", append(c30u64(uint64(len(resJS))), resJS...)},
	)

	return t
}

type c30ref struct {
	verdict  string // "ok" "err" "any" for the FIRST message
	why      string
	maxAlloc uint64 // largest length the reader may allocate anywhere in the stream
}

// c30reference walks the stream like the protocol says, for the entry point.
func (c *c30) reference(entry string, b []byte) c30ref {
	ref := c30ref{verdict: "any"}
	hintb := string(c.env.enc.Hint().Bytes())
	reqJS, _ := c.env.enc.Marshal(c.env.reqs[0])
	resJS, _ := c.env.enc.Marshal(NewDefaultResponseHeader(false, errors.New("nope")))

	pos := 0
	first := true

	set := func(v, why string) {
		if first {
			ref.verdict, ref.why = v, why
		}
	}

	// lengthed field the reader allocates for
	lengthed := func() (payload []byte, ok bool) {
		if len(b)-pos < 8 {
			set("err", "truncated length field")

			return nil, false
		}

		l := binary.BigEndian.Uint64(b[pos : pos+8])
		pos += 8

		if l > math.MaxInt32 {
			set("err", "announced length above MaxInt32")

			return nil, false
		}

		if l > ref.maxAlloc {
			ref.maxAlloc = l
		}

		if l > uint64(len(b)-pos) {
			set("err", "announced length exceeds the stream")

			return nil, false
		}

		payload = b[pos : pos+int(l)]
		pos += int(l)

		return payload, true
	}

	head := func(wantReq bool) bool {
		h, ok := lengthed()
		if !ok {
			return false
		}

		switch {
		case string(h) == hintb:
		case len(h) == 0, string(h) == "xson-encoder-v0.0.1", string(h) == "\xff\x00no version":
			set("err", "unknown encoder hint")

			return false
		default:
			set("any", "")

			return false
		}

		js, ok := lengthed()
		if !ok {
			return false
		}

		switch {
		case len(js) == 0, string(js) == "null":
			set("err", "nil header")
		case !json.Valid(js):
			set("err", "header is not JSON")
		case bytes.Equal(js, reqJS):
			if wantReq {
				set("ok", "")

				return true
			}

			set("err", "request header where a response header is expected")
		case bytes.Equal(js, resJS):
			if !wantReq {
				set("ok", "")

				return true
			}

			set("err", "response header where a request header is expected")
		case string(js) == `{"_hint":"json-encoder-v0.0.1"}`, string(js) == `{"_hint":"dummy-request-header-v1.2.3","id":5}`:
			set("err", "not a header")
		default:
			set("any", "")

			return true // undecided here; keep walking for the allocation bound
		}

		return false
	}

	body := func() bool {
		if len(b)-pos < 1 {
			set("err", "truncated body type")

			return false
		}

		bt := b[pos]
		pos++

		switch bt {
		case 0x01:
			set("ok", "")

			return true
		case 0x02:
			if len(b)-pos < 8 {
				set("err", "truncated body length")

				return false
			}

			l := binary.BigEndian.Uint64(b[pos : pos+8])
			pos += 8

			if l > uint64(len(b)-pos) {
				set("short", "fixed body shorter than announced")
				pos = len(b)

				return false
			}

			pos += int(l)
			set("ok", "")

			return true
		case 0x03:
			pos = len(b)
			set("ok", "")

			return false
		default:
			set("err", "unknown body type")

			return false
		}
	}

	for msgs := 0; msgs < 8; msgs++ {
		if len(b)-pos < 1 {
			set("err", "no data type byte")

			break
		}

		dt := b[pos]
		pos++

		var cont bool

		switch {
		case first && entry == "req":
			if dt != 0x01 {
				set("err", "data type is not request")

				return ref
			}

			cont = head(true)
		case first && entry == "res":
			if dt != 0x03 {
				set("err", "data type is not response")

				return ref
			}

			cont = head(false)
		case dt == 0x02:
			cont = body()
		case dt == 0x03:
			cont = head(false)
		default:
			set("err", "unexpected data type")
		}

		first = false

		if !cont {
			break
		}
	}

	return ref
}

type c30run struct {
	touchedEnd bool
	outcome    string
}

// hostileRun feeds b to one entry point, then keeps reading bodies.
func (c *c30) hostileRun(id, entry string, b []byte, cuts []int, ewd bool, ref c30ref, record bool) c30run {
	r := c.r
	cr := &c30chunks{b: b, cuts: cuts, eofWithData: ewd}

	var firstErr error
	var firstOK bool
	var shortFixed string
	var malformed string
	msgs := 0

	check := func(what string, okv bool) {
		if !okv && malformed == "" {
			malformed = what
		}
	}

	wellFormedHead := func(h Header, enc encoder.Encoder, wantReq bool) {
		check("nil header returned without error", h != nil)

		if h == nil {
			return
		}

		if wantReq {
			_, ok := h.(RequestHeader)
			check(fmt.Sprintf("%T returned as request header", h), ok)
		} else {
			_, ok := h.(ResponseHeader)
			check(fmt.Sprintf("%T returned as response header", h), ok)
			check("nil encoder with a response header", enc != nil)
		}

		_ = h.IsValid(nil) // must not panic

		useenc := enc
		if useenc == nil {
			useenc = c.env.enc
		}

		js, err := useenc.Marshal(h)
		check(fmt.Sprintf("returned header does not marshal: %v", err), err == nil)

		if err == nil {
			var again Header

			err = encoder.Decode(useenc, js, &again)
			check(fmt.Sprintf("returned header does not re-decode: %v", err), err == nil && again != nil && reflect.TypeOf(again) == reflect.TypeOf(h))
		}
	}

	readBodies := func(rb *baseBroker) {
		for ; msgs < 8; msgs++ {
			bt, bl, body, enc, res, err := rb.ReadBody(c.ctx)
			if msgs == 0 {
				firstErr, firstOK = err, err == nil
			}

			if err != nil {
				return
			}

			if res != nil {
				wellFormedHead(res, enc, false)

				continue
			}

			check(fmt.Sprintf("invalid body type %v returned without error", bt), bt.IsValid(nil) == nil)

			switch bt {
			case EmptyBodyType:
				check("empty body with a reader or a length", body == nil && bl == 0)
			case FixedLengthBodyType, StreamBodyType:
				check("nil body reader", body != nil)

				if body == nil {
					return
				}

				got, err := io.ReadAll(body)
				if bt == FixedLengthBodyType {
					check(fmt.Sprintf("fixed body delivered %d bytes, announced %d", len(got), bl), uint64(len(got)) <= bl)

					if err == nil && uint64(len(got)) < bl && shortFixed == "" {
						shortFixed = fmt.Sprintf("message %d: fixed-length body announced %d bytes, the reader delivered %d bytes and then io.EOF (nil error from io.ReadAll)", msgs, bl, len(got))
					}
				}

				if err != nil && msgs == 0 {
					firstErr, firstOK = err, false
				}
			}
		}
	}

	pn, pmsg := vlib.Catch(func() {
		switch entry {
		case "req":
			hb := NewHandlerBroker(c.env.encs, nil, cr, &c30sink{})

			h, err := hb.ReadRequestHead(c.ctx)
			firstErr, firstOK = err, err == nil
			msgs = 1

			if err != nil {
				return
			}

			wellFormedHead(h, hb.Encoder, true)
			check("handler broker has no encoder after a successful ReadRequestHead", hb.Encoder != nil)
			readBodies(hb.baseBroker)
		case "res":
			cb := NewClientBroker(c.env.encs, c.env.enc, cr, &c30sink{})

			enc, h, err := cb.ReadResponseHead(c.ctx)
			firstErr, firstOK = err, err == nil
			msgs = 1

			if err != nil {
				return
			}

			wellFormedHead(h, enc, false)
			readBodies(cb.baseBroker)
		default:
			cb := NewClientBroker(c.env.encs, c.env.enc, cr, &c30sink{})
			readBodies(cb.baseBroker)
		}
	})

	res := c30run{touchedEnd: cr.eofHit || cr.pos >= len(b)}

	if !record {
		return res
	}

	r.Eval()
	r.Trace()
	r.TransitionN(int64(max(msgs, 1)))
	r.Add("hostile_reader_calls", int64(cr.reads))

	rp := map[string]any{"id": id, "hex": fmt.Sprintf("%x", b), "entry": entry, "cuts": c30cutsID(cuts), "eof_with_data": ewd}
	what := fmt.Sprintf("entry %s, stream %s (%d bytes, delivery %s, eofWithData=%v)", entry, id, len(b), c30cutsID(cuts[:min(len(cuts), 6)]), ewd)

	switch {
	case pn:
		c.vio(id, map[string]any{"kind": "panic", "side": "read-hostile", "entry": entry}, what+": panic: "+pmsg, rp)
	case malformed != "":
		c.vio(id, map[string]any{"kind": "malformed-message-accepted", "entry": entry}, what+": "+malformed, rp)
	case shortFixed != "":
		c.vio(id, map[string]any{"kind": "short-fixed-body-without-error", "entry": entry}, what+": "+shortFixed, rp)
	case ref.verdict == "ok" && !firstOK:
		c.vio(id, map[string]any{"kind": "wellformed-message-refused", "entry": entry}, fmt.Sprintf("%s: first message is well-formed but the reader failed: %v", what, firstErr), rp)
	case ref.verdict == "err" && firstOK:
		c.vio(id, map[string]any{"kind": "malformed-message-accepted", "entry": entry, "why": ref.why}, fmt.Sprintf("%s: first message is malformed (%s) but the reader succeeded", what, ref.why), rp)
	default:
		cls := "error"
		if firstOK {
			cls = "message"
		}

		r.Outcome(fmt.Sprintf("hostile:%s:%s:ref=%s", entry, cls, ref.verdict))
		res.outcome = cls
	}

	return res
}

type c30hostile struct {
	c      *c30
	tokens []c30token
	depth  int
	full   bool // thorough deliveries
}

func (h *c30hostile) bytesOf(seq []int) ([]byte, string) {
	var b []byte

	names := make([]string, len(seq))
	for i, t := range seq {
		b = append(b, h.tokens[t].b...)
		names[i] = h.tokens[t].name
	}

	return b, strings.Join(names, ".")
}

// eval runs every entry point on the sequence; returns whether longer sequences can differ.
func (h *c30hostile) eval(seq []int, record bool) (extend bool) {
	r := h.c.r
	b, name := h.bytesOf(seq)

	if record {
		r.State("hostile/" + name)
	}

	for _, entry := range []string{"req", "res", "body"} {
		ref := h.c.reference(entry, b)

		if ref.maxAlloc > c30maxAlloc {
			if record {
				r.Add("hostile_excluded_announced_over_64MiB", 1)
			}

			continue
		}

		type delivery struct {
			name string
			cuts []int
		}

		ds := []delivery{{"whole", nil}}

		if ref.maxAlloc <= 1<<16 && len(b) > 1 {
			ds = append(ds, delivery{"every1", c30every(len(b), 1)})

			if h.full && len(b) > 7 {
				ds = append(ds, delivery{"every7", c30every(len(b), 7)})
			}
		}

		for _, d := range ds {
			for _, ewd := range []bool{false, true} {
				if ewd && ref.maxAlloc > 1<<20 {
					continue // one delivery only for allocations above 1 MiB
				}

				id := fmt.Sprintf("hostile/%s/%s/%s/eofwd=%v", entry, name, d.name, ewd)
				if record && !r.Want(id) {
					continue
				}

				if record && (d.cuts != nil || ref.verdict != "ok") {
					r.Nontrivial(id)
				}

				res := h.c.hostileRun(id, entry, b, d.cuts, ewd, ref, record)

				// a run that never reached the end of the stream does not depend on what
				// follows; an announced length above 1 MiB cannot be satisfied by any
				// enumerable continuation (the reader fails with "insufficient read" alike)
				if res.touchedEnd && ref.maxAlloc <= 1<<20 {
					extend = true
				}

				if !record {
					break
				}
			}

			if !record {
				break
			}
		}
	}

	return extend
}

func (h *c30hostile) dfs(seq []int) {
	r := h.c.r

	if r.Expired() {
		return
	}

	extend := h.eval(seq, true)

	if len(seq) >= h.depth {
		return
	}

	if !extend {
		r.Add("hostile_subtrees_pruned_result_independent_of_continuation", 1)

		return
	}

	for t := range h.tokens {
		h.dfs(append(append([]int(nil), seq...), t))
	}
}

func TestVerifC30(t *testing.T) {
	r := vlib.Start("C30")
	defer r.Finish()

	c := &c30{r: r, env: c30newEnv(), ctx: context.Background()}

	maxMsgs := vlib.Pick(r, 3, 4)
	wide := r.Thorough()
	depth := vlib.Pick(r, 4, 5)

	r.Rule("wf: every legal message sequence of <= maxMsgs messages per direction (client: request head of 3 header types then bodies; handler: response heads {ok, error} and bodies in any order; body kinds empty, fixed 0/1/5, stream 0/5; a stream body ends the direction) written by the real brokers and read by the peer's broker under: whole, every-1-byte, every-7-bytes, every single cut position, every pair of cuts at field boundaries (+-1 in thorough), x both EOF conventions. " +
		"hostile: DFS over token sequences of <= depth tokens from a 30-token alphabet (type bytes valid x3 / invalid x2, 12 length fields incl. exact/exact+1/64MiB/2^31/2^64-1, encoder hint valid/unknown/garbage, header JSON request/response/null/not-a-header/bad-field/garbage, payload) fed to ReadRequestHead, ReadResponseHead and ReadBody, then ReadBody repeatedly with every body drained; a subtree is not expanded when no run reached the end of the stream (result cannot depend on the continuation) or when an announced length above 1 MiB makes every enumerable continuation fail alike. " +
		"fault: every wf sequence with one writer-side fault: class A (Marshal failure of a request/response head, nil response header, nil body reader, invalid body type) at every frame position with the following frames still written (brokers directly) and, handler side, through NewHandler + default error handler; class B the underlying writer failing for good at the k-th Write call (0 or half of the bytes taken) for every Write call of the last frame; read back by the peer under whole/every-1/every-7 x both EOF conventions: frames whose write returned nil are read as written, a failed frame yields nothing (class A) or an error at that frame (class B). " +
		"non-trivial = chunked delivery, or a first message that is not well-formed, or any fault case")
	r.Assume("announced lengths above 64 MiB (1<<26) up to MaxInt32 are excluded: util.ReadLengthed allocates the announced length before reading (an out-of-memory abort is not a panic in the statement's sense); such sequences are counted in hostile_excluded_announced_over_64MiB")
	r.Assume("QUIC transport, timeouts/cancellation and concurrent use of one broker are out of scope; readers returning (0,nil) are not enumerated")
	r.Assume("writer faults: a writer that failed keeps failing (no write deadline is set on QUIC streams, a failed Write is permanent); transient writer failures, failing body readers and more than one fault per stream are not enumerated")
	r.Set("wf_max_messages", maxMsgs)
	r.Set("hostile_depth", depth)
	r.Set("hostile_tokens", len(c.tokens()))
	r.Set("announced_length_cap", c30maxAlloc)

	var work, fwork []func()

	// client direction
	for ri := range c.env.reqs {
		for _, tail := range c30tails(c30bodies, maxMsgs-1) {
			seq := append([]c30msg{{kind: "req", req: ri}}, tail...)
			work = append(work, func() { c.wellFormed("c", seq, wide) })
			fwork = append(fwork, func() { c.faultWork("c", seq) })
		}
	}

	// handler direction
	salpha := append([]c30msg{{kind: "res", ok: true}, {kind: "res", ok: false, errs: "bad \"thing\"\n"}}, c30bodies...)
	for _, seq := range c30tails(salpha, maxMsgs) {
		if len(seq) == 0 {
			continue
		}

		seq := seq
		work = append(work, func() { c.wellFormed("s", seq, wide) })
		fwork = append(fwork, func() { c.faultWork("s", seq) })
	}

	r.Set("wf_sequences", len(work))
	r.Set("fault_base_sequences", len(fwork))

	// hostile: one work item per first two tokens
	h := &c30hostile{c: c, tokens: c.tokens(), depth: depth, full: r.Thorough()}

	for t1 := range h.tokens {
		t1 := t1

		work = append(work, func() {
			if !h.eval([]int{t1}, true) {
				r.Add("hostile_subtrees_pruned_result_independent_of_continuation", 1)
			}
		})

		for t2 := range h.tokens {
			t2 := t2

			work = append(work, func() {
				if !h.eval([]int{t1}, false) {
					return
				}

				h.dfs([]int{t1, t2})
			})
		}
	}

	// fault part: appended last so that the partition of the older parts is unchanged in order
	work = append(work, fwork...)

	r.Set("work_items", len(work))

	if id, ok := r.Replaying(); ok && strings.HasPrefix(id, "hostile/") {
		// hostile/<entry>/<token names>/<delivery>/eofwd=..: evaluate exactly that sequence
		if parts := strings.Split(id, "/"); len(parts) == 5 {
			var seq []int

			for _, n := range strings.Split(parts[2], ".") {
				for ti := range h.tokens {
					if h.tokens[ti].name == n {
						seq = append(seq, ti)
					}
				}
			}

			h.eval(seq, true)
		}

		return
	}

	for i := range work {
		if !r.Mine(i) {
			continue
		}

		if r.Expired() {
			break
		}

		work[i]()
	}

	if r.Violations() == 0 {
		r.Outcome("no-violation-in-shard")
	}
}
