#!/bin/bash
# ./mutcheck.sh <patch.diff> <ID> [quick|thorough]  -- apply a property-breaking patch to a scratch worktree of /repo,
# run the check against it, print CAUGHT / MISSED / ERROR, remove the worktree.
export GOFLAGS=-mod=mod GOPROXY=off GOSUMDB=off GOTOOLCHAIN=local
P=$(readlink -f "$1"); ID=$2; TIER=${3:-quick}
WT=/var/tmp/verif-mut/$ID-$$
mkdir -p /var/tmp/verif-mut
git -C /repo worktree add --detach "$WT" HEAD -q || exit 2
trap 'git -C /repo worktree remove --force "$WT" >/dev/null 2>&1' EXIT
if ! git -C "$WT" apply "$P"; then echo "ERROR patch does not apply: $P"; exit 2; fi
OUT=$(cd "$(dirname "$0")" && VERIF_REPO="$WT" VERIF_EVIDENCE_DIR=/var/tmp/verif-mut/evidence VERIF_WORK=/var/tmp/verif-work ./run.sh "$ID" "$TIER" 2>&1); RC=$?
N=$(printf '%s\n' "$OUT" | grep -c '^VIOLATION property='"$ID")
case $RC in
 1) if [ "$N" -gt 0 ]; then echo "CAUGHT $ID $(basename $P) violations_lines=$N"; printf '%s\n' "$OUT" | grep -A2 '^VIOLATION' | head -4 | cut -c1-300; exit 0; fi; echo "ERROR rc=1 without VIOLATION line"; exit 2;;
 0) echo "MISSED $ID $(basename $P)"; printf '%s\n' "$OUT" | grep '^property=' ; exit 1;;
 *) echo "ERROR $ID $(basename $P) rc=$RC"; printf '%s\n' "$OUT" | tail -15; exit 2;;
esac
