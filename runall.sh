#!/bin/bash
# ./runall.sh quick|thorough [IDs...] : run checks one after the other, print a status table
TIER=${1:-quick}; shift
IDS="$@"
[ -z "$IDS" ] && IDS=$(python3 -c "import json;print(' '.join(c['property_id'] for c in json.load(open('/verif/MANIFEST.json'))['checks']))")
mkdir -p /var/tmp/verif-runall
for id in $IDS; do
  s=$(date +%s)
  ./run.sh $id $TIER > /var/tmp/verif-runall/$id.$TIER.log 2>&1; rc=$?
  e=$(date +%s)
  kf=$(grep -c '^KNOWN-FINDING' /var/tmp/verif-runall/$id.$TIER.log)
  vi=$(grep -c '^VIOLATION' /var/tmp/verif-runall/$id.$TIER.log)
  echo "$id rc=$rc wall=$((e-s))s known=$kf violations=$vi $(grep '^property=' /var/tmp/verif-runall/$id.$TIER.log | sed 's/^property=[A-Z0-9]* //' | cut -c1-150)"
done
