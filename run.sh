#!/bin/bash
# ./run.sh <ID> quick|thorough | --replay <file> | --build-only
export GOFLAGS=-mod=mod GOPROXY=off GOSUMDB=off GOTOOLCHAIN=local
cd "$(dirname "$0")"
exec python3 ./vcheck.py "$@"
